import HapVerif.Proofs.Srp
import HapVerif.Proofs.SrpGen
import HapVerif.Model.Crypto.Real

/-! # C02 - SRP-6a client values equal those of a spec-conformant accessory -/

namespace HapVerif.C02
open HapVerif HapVerif.Srp HapVerif.Spec.SrpServer

/-- the group is the RFC 5054 3072-bit group with generator 5; keys are padded to 384 bytes, the
    salt to 16 -/
theorem C02_group_is_rfc5054 : Gen.Srp.N = N3072 ∧ Gen.Srp.g = 5 ∧ Gen.Srp.keyLen = 384 ∧ Gen.Srp.saltLen = 16 ∧
    N3072 < 256 ^ 384 ∧ 256 ^ 383 < N3072 := by decide +kernel

/-- the hard-coded multiplier is `k = H(PAD(N) ‖ PAD(g))` under SHA-512 (evaluated in the kernel
    on the executable SHA-512; the unpadded `H(N ‖ g)` would be a different number) -/
theorem C02_k_is_H_N_g :
    Gen.Srp.k = beToNat (RealCrypto.sha512 (natToBe 384 Gen.Srp.N ++ natToBe 384 Gen.Srp.g)) := by decide +kernel

/-- **Padding**: for every value below `256^len` - whatever its number of leading zero bytes -
    `pad_left(to_byte_array(n), len)` has length `len`, reads back as `n`, and is the `PAD` of the
    specification. -/
theorem C02_padding (len n : Nat) (h : n < 256 ^ len) :
    (padLeft (toByteArray n) len).length = len ∧ Srp.os2ip (padLeft (toByteArray n) len) = n ∧
      padLeft (toByteArray n) len = PAD len n := by
  rw [padLeft_eq_PAD len n h]
  exact ⟨natToBe_length _ _, natToBe_val _ _ h, rfl⟩

/-- every salt of the expected length - all-zero and leading-zero salts included - survives the
    integer round trip of `set_salt` byte for byte -/
theorem C02_salt (s : Bytes) : padLeft (toByteArray (Srp.os2ip s)) s.length = s := salt_roundtrip s

example : padLeft (toByteArray (Srp.os2ip (List.replicate 16 0))) 16 = List.replicate 16 0 := C02_salt _

/-- hypotheses on the group parameters the value theorems need (met by the HAP group) -/
structure GroupOK (G : Group) : Prop where
  Npos : 0 < G.N
  fits : G.N ≤ 256 ^ G.keyLen

theorem hapGroup_ok : GroupOK hapGroup := by
  constructor <;> (simp only [hapGroup]; decide +kernel)

/-- **Shared secret**: for every hash function, identity, setup code, salt of the right length and
    pair of ephemeral secrets, the client's `S` equals the `S` of the conformant accessory of the
    same exchange. -/
theorem C02_shared_secret_agree (H : Bytes → Bytes) (G : Group) (hG : GroupOK G) (I P salt : Bytes) (a b : Nat)
    (hsalt : salt.length = G.saltLen) :
    let c0 := client H G I P salt [] a            -- only its A_b is used to build the server
    let s := server H G.N G.g G.k G.keyLen (hGroup H G) I P salt b c0.A_b
    (client H G I P salt s.Bb a).S = s.S := by
  intro c0 s
  have hN : (0 : ℤ) < (G.N : ℤ) := by exact_mod_cast hG.Npos
  -- the pieces both sides share
  have hsaltb : padLeft (toByteArray (Srp.os2ip salt)) G.saltLen = salt := by
    rw [← hsalt]; exact salt_roundtrip salt
  have hAlt : G.g ^ a % G.N < 256 ^ G.keyLen := lt_of_lt_of_le (Nat.mod_lt _ hG.Npos) hG.fits
  have hA_b : c0.A_b = PAD G.keyLen (G.g ^ a % G.N) := by
    simp only [c0, client, powMod_eq]
    exact padLeft_eq_PAD _ _ hAlt
  have hAval : Spec.SrpServer.os2ip c0.A_b = G.g ^ a % G.N := by
    rw [hA_b]; exact natToBe_val _ _ hAlt
  have hBlt : s.B < 256 ^ G.keyLen := by
    simp only [s, server]
    exact lt_of_lt_of_le (Nat.mod_lt _ hG.Npos) hG.fits
  have hBval : Srp.os2ip s.Bb = s.B := by
    simp only [s, server]
    exact natToBe_val _ _ (by simpa [s, server] using hBlt)
  -- unfold both computations
  simp only [client, sharedSecret, powMod_eq, hsaltb]
  simp only [s, server, hAval] at hBval ⊢
  rw [hBval]
  set x := Srp.os2ip (H (salt ++ H (I ++ [58] ++ P))) with hx
  have hxx : Spec.SrpServer.os2ip (H (salt ++ H (I ++ [58] ++ P))) = x := rfl
  rw [hxx]
  -- the client's A_b inside the server's u equals the client's own A_b (same bytes)
  have hAb2 : padLeft (toByteArray (G.g ^ a % G.N)) G.keyLen = c0.A_b := by
    simp only [c0, client, powMod_eq]
  rw [hAb2]
  set u := Srp.os2ip (H (c0.A_b ++ PAD G.keyLen ((G.k * (G.g ^ x % G.N) + G.g ^ b % G.N) % G.N))) with hu
  have huu : Spec.SrpServer.os2ip (H (c0.A_b ++ PAD G.keyLen ((G.k * (G.g ^ x % G.N) + G.g ^ b % G.N) % G.N))) = u := rfl
  rw [huu]
  -- now pure arithmetic
  have key := srp_agree_int (G.N : ℤ) (G.g : ℤ) (G.k : ℤ) x a b u
  simp only at key
  set v : ℕ := G.g ^ x % G.N with hv
  set B : ℕ := (G.k * v + G.g ^ b % G.N) % G.N with hB
  have hbase : (((((B : ℤ) - (G.k : ℤ) * (v : ℤ)) % (G.N : ℤ)).toNat : ℕ) : ℤ) = ((B : ℤ) - (G.k : ℤ) * (v : ℤ)) % (G.N : ℤ) :=
    Int.toNat_of_nonneg (Int.emod_nonneg _ (ne_of_gt hN))
  apply Int.natCast_inj.mp
  push_cast
  rw [hbase]
  have e1 : (((B : ℤ) - (G.k : ℤ) * (v : ℤ)) % (G.N : ℤ)) ^ (a + u * x) % (G.N : ℤ)
      = ((B : ℤ) - (G.k : ℤ) * (v : ℤ)) ^ (a + u * x) % (G.N : ℤ) :=
    ((Int.mod_modEq _ _).pow _)
  rw [e1]
  have hvc : ((v : ℕ) : ℤ) = (G.g : ℤ) ^ x % (G.N : ℤ) := by simp [hv]
  have hBc : ((B : ℕ) : ℤ) = ((G.k : ℤ) * ((G.g : ℤ) ^ x % (G.N : ℤ)) + (G.g : ℤ) ^ b % (G.N : ℤ)) % (G.N : ℤ) := by
    simp [hB, hv]
  rw [hBc, hvc, key]

/-- **Accepts iff correct**: the client accepts a server proof exactly when it denotes the same
    integer as `H(A ‖ M1 ‖ K)` (so a proof with stripped or added leading zero bytes is tolerated,
    any other bit pattern is rejected) -/
theorem C02_accepts_iff_correct (c : Client) (M : Bytes) : accepts c M = true ↔ Srp.os2ip M = Srp.os2ip c.expectM2 := by
  unfold accepts
  rw [beq_iff_eq]
  exact eq_comm

/-- **Values equal**: the session key `K`, the client proof `M1` and the expected server proof are
    byte for byte those of the conformant accessory, and the client's public value is `PAD(g^a)` -
    for any hash function, any code, any 16-byte salt and any secrets (every leading-zero case
    included, since `PAD` is total on values below N). -/
theorem C02_values_equal (H : Bytes → Bytes) (G : Group) (hG : GroupOK G) (I P salt : Bytes) (a b : Nat)
    (hsalt : salt.length = G.saltLen) :
    let c0 := client H G I P salt [] a
    let s := server H G.N G.g G.k G.keyLen (hGroup H G) I P salt b c0.A_b
    let c := client H G I P salt s.Bb a
    c.A_b = PAD G.keyLen (G.g ^ a % G.N) ∧ c.K = s.K ∧ c.M1 = s.M1 ∧ c.expectM2 = s.M2 ∧ accepts c s.M2 = true := by
  intro c0 s c
  have hS := C02_shared_secret_agree H G hG I P salt a b hsalt
  simp only at hS
  have hAlt : G.g ^ a % G.N < 256 ^ G.keyLen := lt_of_lt_of_le (Nat.mod_lt _ hG.Npos) hG.fits
  have hAb : c.A_b = PAD G.keyLen (G.g ^ a % G.N) := by
    simp only [c, client, powMod_eq]; exact padLeft_eq_PAD _ _ hAlt
  have hAb0 : c.A_b = c0.A_b := by simp only [c, c0, client]
  have hsaltb : c.salt_b = salt := by
    simp only [c, client]; rw [← hsalt]; exact salt_roundtrip salt
  have hSlt : s.S < 256 ^ G.keyLen := by
    simp only [s, server]; exact lt_of_lt_of_le (Nat.mod_lt _ hG.Npos) hG.fits
  have hK : c.K = s.K := by
    have : c.K = H (padLeft (toByteArray c.S) G.keyLen) := by simp only [c, client]
    rw [this, show c.S = s.S from hS, padLeft_eq_PAD _ _ hSlt]
    rfl
  have hM1 : c.M1 = s.M1 := by
    have e1 : c.M1 = H (hGroup H G ++ H I ++ c.salt_b ++ c.A_b ++ s.Bb ++ c.K) := by simp only [c, client]
    have e2 : s.M1 = H (hGroup H G ++ H I ++ salt ++ c0.A_b ++ s.Bb ++ s.K) := by simp only [s, server]
    rw [e1, e2, hsaltb, hAb0, hK]
  have hM2 : c.expectM2 = s.M2 := by
    have e1 : c.expectM2 = H (c.A_b ++ c.M1 ++ c.K) := by simp only [c, client]
    have e2 : s.M2 = H (c0.A_b ++ s.M1 ++ s.K) := by simp only [s, server]
    rw [e1, e2, hAb0, hM1, hK]
  refine ⟨hAb, hK, hM1, hM2, ?_⟩
  rw [C02_accepts_iff_correct, hM2]

/-- a proof of the right length is accepted iff it is bit-for-bit the right one -/
theorem C02_accepts_same_length (c : Client) (M : Bytes) (hl : M.length = c.expectM2.length) :
    accepts c M = true ↔ M = c.expectM2 := by
  rw [C02_accepts_iff_correct]
  constructor
  · intro h; exact beToNat_inj _ _ hl h
  · intro h; rw [h]

/-- **Wrong code (partial)**: with an injective hash, a client whose session key differs from the
    accessory's (which is what a wrong setup code produces, up to the SRP hardness assumption -
    NOT proved) sends a proof the accessory does not accept.  The step "wrong code ⇒ different
    S" is the cryptographic assumption; it is supported only by the wrong-code stream of the
    correspondence run. -/
theorem C02_wrong_code_partial (H : Bytes → Bytes) (hinj : Function.Injective H) (pre K1 K2 : Bytes) (h : K1 ≠ K2) :
    H (pre ++ K1) ≠ H (pre ++ K2) := by
  intro e
  exact h (List.append_cancel_left (hinj e))

/-- **The model's shared-secret formula is the source's** (`C02_gen_tie`): the assignments the translator lifts out of
    `SrpClient.get_shared_secret` on every run (`Gen.Srp.sharedSecretStmts`, `sharedSecretRet`), interpreted over Python's
    integers for ANY attribute values of the client object (B, k, g, x, n > 0, a) and any scrambling parameter u, compute
    exactly `Srp.sharedSecret` - the function `C02_shared_secret_agree` is about.  In particular the exponent `a + u*x` is
    used unreduced, for every a.  The same for the public key `pow(g, a, n)`. -/
theorem C02_gen_tie (B k g x n a u : Nat) :
    SrpGen.eval (SrpGen.exec (SrpGen.selfEnv B k g x n a) (SrpGen.callEnv u) Gen.Srp.sharedSecretStmts) (SrpGen.callEnv u)
      Gen.Srp.sharedSecretRet = (Srp.sharedSecret B k g x n a u : Nat) ∧
    SrpGen.eval (SrpGen.selfEnv B k g x n a) (SrpGen.callEnv u) Gen.Srp.publicKey = (Srp.powMod g a n : Nat) := by
  have hpm : ∀ (b e m : Nat), SrpGen.pyPowMod (b : Int) (e : Int) (m : Int) = (Srp.powMod b e m : Nat) := by
    intro b e m
    unfold SrpGen.pyPowMod
    have h1 : ((b : Int) % (m : Int)).toNat = b % m := by
      rw [← Int.natCast_mod]; exact Int.toNat_natCast _
    rw [h1, Int.toNat_natCast, Int.toNat_natCast, powMod_eq, powMod_eq, ← Nat.pow_mod]
  constructor
  · -- running the source's statements is, by computation, the nested expression they spell out
    have hrun : SrpGen.eval (SrpGen.exec (SrpGen.selfEnv B k g x n a) (SrpGen.callEnv u) Gen.Srp.sharedSecretStmts) (SrpGen.callEnv u)
        Gen.Srp.sharedSecretRet =
        SrpGen.pyPowMod ((B : Int) - (k : Int) * SrpGen.pyPowMod g x n) ((a : Int) + (u : Int) * (x : Int)) n := rfl
    rw [hrun, hpm g x n]
    unfold Srp.sharedSecret SrpGen.pyPowMod
    simp only [Int.toNat_natCast]
    have : (((a : Int) + (u : Int) * (x : Int))).toNat = a + u * x := by
      have : ((a : Int) + (u : Int) * (x : Int)) = ((a + u * x : Nat) : Int) := by push_cast; rfl
      rw [this, Int.toNat_natCast]
    rw [this]
  · have hrun : SrpGen.eval (SrpGen.selfEnv B k g x n a) (SrpGen.callEnv u) Gen.Srp.publicKey =
        SrpGen.pyPowMod (g : Int) (a : Int) (n : Int) := rfl
    rw [hrun]
    exact hpm g a n

/-- non-vacuity of the tie: on a toy group the interpreted source statements give the number the model gives -/
example : SrpGen.eval (SrpGen.exec (SrpGen.selfEnv 9 3 5 4 23 22) (SrpGen.callEnv 2) Gen.Srp.sharedSecretStmts) (SrpGen.callEnv 2)
    Gen.Srp.sharedSecretRet = (Srp.sharedSecret 9 3 5 4 23 22 2 : Nat) := (C02_gen_tie 9 3 5 4 23 22 2).1

end HapVerif.C02
