import HapVerif.Model.PairVerify
import HapVerif.Spec.VerifyAccessory
import HapVerif.Proofs.CryptoIdeal
import HapVerif.Props.C15
import HapVerif.Gen.Protocol
import HapVerif.Gen.Install
import HapVerif.Proofs.ReconnectSecure
import HapVerif.Model.BleSession

/-! # C01 - pair-verify yields session keys only for the authentic paired accessory

Security *assumptions* (unforgeability of Ed25519, integrity of ChaCha20-Poly1305) are never
theorems here.  What is proved is the logic the library is responsible for: acceptance implies
that exactly the right checks passed on exactly the right transcript with exactly the right keys
and labels; agreement with a conformant accessory; and, from the interface laws alone, that a
reply recorded from another exchange or signed by another key is rejected. -/

namespace HapVerif.C01
open HapVerif HapVerif.Tlv HapVerif.Protocol HapVerif.PairVerify

/-- **Acceptance implies the checks** (any crypto): if M2 is accepted then the box opened under
    the key derived from this exchange's ephemeral secret and the presented key, the identifier
    inside is the stored one, and the stored long-term key verifies the signature over
    `accPK ‖ id ‖ iosPK`, with `iosPK` this exchange's own fresh public key. -/
theorem C01_accept_implies_checks (C : Crypto) (p : Pairing) (eph : Bytes) (m2 : Items) (v : Verified)
    (h : processM2 C p eph m2 = .ok v) :
    ∃ enc plain d1,
      lookup 3 m2 = some v.accPk ∧ lookup 5 m2 = some enc ∧ v.accPk.length = 32 ∧
      v.shared = C.dh eph v.accPk ∧
      C.aeadOpen (C.hkdf (C.dh eph v.accPk) (str "Pair-Verify-Encrypt-Salt") (str "Pair-Verify-Encrypt-Info") 32)
        (PairVerify.noncePad ++ str "PV-Msg02") [] enc = some plain ∧
      decode none plain = .ok d1 ∧ lookup 1 d1 = some p.accessoryId ∧ lookup 10 d1 = some v.sig ∧
      C.edVerify p.accessoryLTPK (v.accPk ++ p.accessoryId ++ C.dhPub eph) v.sig = true := by
  unfold processM2 at h
  simp only [bind, Except.bind, pure, Except.pure] at h
  split at h
  · cases h
  split at h <;> try cases h
  rename_i accPk hpk
  split at h <;> try cases h
  rename_i enc henc
  split at h; · cases h
  rename_i hlen
  split at h; · cases h
  split at h <;> try cases h
  rename_i plain hopen
  split at h
  · rename_i d1 hd1
    split at h <;> try cases h
    rename_i ident hid
    split at h <;> try cases h
    rename_i sig hsig
    split at h; · cases h
    split at h; · cases h
    rename_i hident
    split at h; · cases h
    split at h; · cases h
    rename_i hver
    cases h
    have hident' : ident = p.accessoryId := Decidable.of_not_not hident
    have hlen' : accPk.length = 32 := Decidable.of_not_not hlen
    subst hident'
    have hd1' : decode none plain = .ok d1 := by
      cases hdd : decode none plain with
      | ok d => rw [hdd] at hd1; first | (cases hd1; rfl) | (simp only at hd1; cases hd1; rfl)
      | error e => rw [hdd] at hd1; cases hd1
    refine ⟨enc, plain, d1, hpk, henc, hlen', rfl, hopen, hd1', hid, hsig, ?_⟩
    simpa using hver
  · cases h

/-- a failed exchange yields no key material: keys exist only inside `ok` -/
theorem C01_failure_yields_no_keys (C : Crypto) (p : Pairing) (eph : Bytes) (m2 m4 : Items) (e : VErr)
    (h : run C p eph m2 m4 = .error e) : ∀ r, run C p eph m2 m4 ≠ .ok r := by
  intro r hr; rw [h] at hr; cases hr

/-- keys are produced only if both M2 and M4 were accepted -/
theorem C01_keys_imply_both_steps (C : Crypto) (p : Pairing) (eph : Bytes) (m2 m4 : Items) (r : Items × Keys)
    (h : run C p eph m2 m4 = .ok r) :
    ∃ v, processM2 C p eph m2 = .ok v ∧ processM4 m4 = .ok () ∧ r = (v.m3, keysOf C v.shared) := by
  unfold run at h
  simp only [bind, Except.bind, pure, Except.pure] at h
  cases hv : processM2 C p eph m2 with
  | error e => rw [hv] at h; cases h
  | ok v =>
    rw [hv] at h
    simp only at h
    cases h4 : processM4 m4 with
    | error e => rw [h4] at h; cases h
    | ok u => rw [h4] at h; cases h; exact ⟨v, rfl, rfl, rfl⟩

/-! ## agreement with a conformant accessory -/

open Spec.VerifyAccessory in
/-- the pairing record and the accessory belong together -/
structure Paired (C : Crypto) (p : Pairing) (A : Acc) : Prop where
  id : p.accessoryId = A.id
  ltpk : p.accessoryLTPK = C.edPub A.ltsk
  iosId : A.iosId = p.iosId
  iosLTPK : A.iosLTPK = C.edPub p.iosLTSK

theorem decode_sub (a b : Bytes) : decode none (encodeList [(1, a), (10, b)]) = .ok [(1, a), (10, b)] :=
  C15.C15_roundtrip _ (by simp [WF])

open Spec.VerifyAccessory in
/-- **Honest run**: against a specification-conformant accessory holding the stored long-term key,
    for every pairing record, every pair of ephemeral secrets (with a non-degenerate shared
    secret) the controller accepts M2, the accessory accepts the controller's M3, and after M4
    both ends hold identical write, read and event keys. -/
theorem C01_honest_agree (C : Crypto) (L : C.Laws) (p : Pairing) (A : Acc) (hp : Paired C p A) (eph accSk : Bytes)
    (hid : asciiOnly A.id = true) (hnz : (C.dh eph (C.dhPub accSk)).all (· = 0) = false) :
    ∃ m3 k, run C p eph (m2 C A accSk (C.dhPub eph)) [(6, [4])] = .ok (m3, k) ∧
      acceptsM3 C A accSk (C.dhPub eph) m3 = true ∧
      k.c2a = (keys C accSk (C.dhPub eph)).2.1 ∧ k.a2c = (keys C accSk (C.dhPub eph)).1 ∧
      k.event = (keys C accSk (C.dhPub eph)).2.2 := by
  have hdh : C.dh eph (C.dhPub accSk) = C.dh accSk (C.dhPub eph) := L.dh_comm eph accSk
  have hM2 : processM2 C p eph (m2 C A accSk (C.dhPub eph)) = .ok
      ⟨[(6, [3]), (5, C.aeadSeal (vkey C accSk (C.dhPub eph)) (PairVerify.noncePad ++ str "PV-Msg03") []
          (encodeList [(1, p.iosId), (10, C.edSign p.iosLTSK (C.dhPub eph ++ p.iosId ++ C.dhPub accSk))]))],
        C.dh eph (C.dhPub accSk), C.dhPub accSk,
        C.edSign A.ltsk (C.dhPub accSk ++ A.id ++ C.dhPub eph)⟩ := by
    unfold processM2 m2
    have h6 : lookup 6 [((6 : UInt8), ([2] : Bytes)), (3, C.dhPub accSk), (5, C.aeadSeal (vkey C accSk (C.dhPub eph)) (Spec.VerifyAccessory.noncePad ++ str "PV-Msg02") []
        (encodeList [(1, A.id), (10, C.edSign A.ltsk (C.dhPub accSk ++ A.id ++ C.dhPub eph))]))] = some [2] := by
      simp [lookup]
    simp only [bind, Except.bind, pure, Except.pure, handleStateStep, tState, tError]
    simp only [lookup, List.reverse_cons, List.reverse_nil, List.nil_append, List.cons_append, List.find?,
      show ((5 : UInt8) = 6) = False by decide, show ((3 : UInt8) = 6) = False by decide,
      show ((5 : UInt8) = 7) = False by decide, show ((3 : UInt8) = 7) = False by decide,
      show ((6 : UInt8) = 7) = False by decide, show ((5 : UInt8) = 3) = False by decide,
      show ((10 : UInt8) = 1) = False by decide,
      decide_false, decide_true, Option.map_some, Option.map_none, ne_eq, not_true_eq_false, if_false]
    simp only [L.pubLen, not_true_eq_false, if_false, hnz, Bool.false_eq_true]
    have hkey : C.hkdf (C.dh eph (C.dhPub accSk)) (str "Pair-Verify-Encrypt-Salt") (str "Pair-Verify-Encrypt-Info") 32
        = vkey C accSk (C.dhPub eph) := by rw [hdh]; rfl
    rw [hkey]
    have hnp : PairVerify.noncePad = Spec.VerifyAccessory.noncePad := rfl
    rw [hnp, L.open_seal]
    simp only [decode_sub]
    simp only [lookup, List.reverse_cons, List.reverse_nil, List.nil_append, List.cons_append, List.find?,
      show ((10 : UInt8) = 1) = False by decide, decide_false, decide_true, Option.map_some]
    simp only [hid, Bool.not_true, Bool.false_eq_true, if_false, hp.id, ne_eq, not_true_eq_false, hp.ltpk,
      L.edPubLen, L.verify_sign]
  refine ⟨[(6, [3]), (5, C.aeadSeal (vkey C accSk (C.dhPub eph)) (PairVerify.noncePad ++ str "PV-Msg03") []
          (encodeList [(1, p.iosId), (10, C.edSign p.iosLTSK (C.dhPub eph ++ p.iosId ++ C.dhPub accSk))]))],
      keysOf C (C.dh eph (C.dhPub accSk)), ?_, ?_, ?_, ?_, ?_⟩
  · unfold run
    simp only [bind, Except.bind, pure, Except.pure, hM2]
    have : processM4 [(6, [4])] = .ok () := by decide
    rw [this]
  · unfold acceptsM3
    have hnp : Spec.VerifyAccessory.noncePad = PairVerify.noncePad := rfl
    have h6 : lookup 6 [((6 : UInt8), ([3] : Bytes)), (5, C.aeadSeal (vkey C accSk (C.dhPub eph)) (PairVerify.noncePad ++ str "PV-Msg03") []
          (encodeList [(1, p.iosId), (10, C.edSign p.iosLTSK (C.dhPub eph ++ p.iosId ++ C.dhPub accSk))]))] = some [3] := by
      simp [lookup]
    have h5 : lookup 5 [((6 : UInt8), ([3] : Bytes)), (5, C.aeadSeal (vkey C accSk (C.dhPub eph)) (PairVerify.noncePad ++ str "PV-Msg03") []
          (encodeList [(1, p.iosId), (10, C.edSign p.iosLTSK (C.dhPub eph ++ p.iosId ++ C.dhPub accSk))]))]
        = some (C.aeadSeal (vkey C accSk (C.dhPub eph)) (PairVerify.noncePad ++ str "PV-Msg03") []
          (encodeList [(1, p.iosId), (10, C.edSign p.iosLTSK (C.dhPub eph ++ p.iosId ++ C.dhPub accSk))])) := by
      simp [lookup]
    have h1 : lookup 1 [((1 : UInt8), p.iosId), (10, C.edSign p.iosLTSK (C.dhPub eph ++ p.iosId ++ C.dhPub accSk))] = some p.iosId := by
      simp [lookup]
    have h10 : lookup 10 [((1 : UInt8), p.iosId), (10, C.edSign p.iosLTSK (C.dhPub eph ++ p.iosId ++ C.dhPub accSk))]
        = some (C.edSign p.iosLTSK (C.dhPub eph ++ p.iosId ++ C.dhPub accSk)) := by
      simp [lookup]
    simp only [h6, h5, hnp, L.open_seal, decode_sub, h1, h10, hp.iosId, hp.iosLTPK, L.verify_sign]
    simp
  · simp only [keysOf, keys, hdh]
  · simp only [keysOf, keys, hdh]
  · simp only [keysOf, keys, hdh]

/-- non-vacuity: the laws are satisfiable (proved toy instance), and on it a concrete honest run
    agrees -/
example : Crypto.Laws Ideal.ideal := Ideal.ideal_laws

open Spec.VerifyAccessory in
/-- **Replay from another exchange is rejected** (from the interface laws alone): an M2 that the
    genuine accessory produced for a *different* controller ephemeral key `iosPk'` is never
    accepted in this exchange - the signature it carries is bound to the other key. -/
theorem C01_replay_rejected (C : Crypto) (L : C.Laws) (p : Pairing) (A : Acc) (hp : Paired C p A) (eph accSk iosPk' : Bytes)
    (hne : iosPk' ≠ C.dhPub eph) (hlen : iosPk'.length = 32) :
    ∀ v, processM2 C p eph (m2 C A accSk iosPk') ≠ .ok v := by
  intro v hv
  obtain ⟨enc, plain, d1, hpk, henc, _, _, hopen, hd1, hid, hsig, hver⟩ := C01_accept_implies_checks C p eph _ v hv
  -- what the replayed message carries
  have hpk' : lookup 3 (m2 C A accSk iosPk') = some (C.dhPub accSk) := by simp [m2, lookup]
  have henc' : lookup 5 (m2 C A accSk iosPk') = some (C.aeadSeal (vkey C accSk iosPk') (Spec.VerifyAccessory.noncePad ++ str "PV-Msg02") []
      (encodeList [(1, A.id), (10, C.edSign A.ltsk (C.dhPub accSk ++ A.id ++ iosPk'))])) := by simp [m2, lookup]
  rw [hpk'] at hpk
  rw [henc'] at henc
  have hacc : v.accPk = C.dhPub accSk := (Option.some.inj hpk).symm
  have hencEq := Option.some.inj henc
  -- the controller opened it, so it is a seal of `plain`; seals determine their plaintext
  have hs := L.open_sound _ _ _ _ _ hopen
  rw [← hencEq] at hs
  have hplain : encodeList [(1, A.id), (10, C.edSign A.ltsk (C.dhPub accSk ++ A.id ++ iosPk'))] = plain :=
    L.seal_inj _ _ _ _ _ _ _ _ hs
  rw [← hplain, decode_sub] at hd1
  have hd1' := Except.ok.inj hd1
  rw [← hd1'] at hsig
  have hsig' : v.sig = C.edSign A.ltsk (C.dhPub accSk ++ A.id ++ iosPk') := by
    have : lookup 10 [((1 : UInt8), A.id), (10, C.edSign A.ltsk (C.dhPub accSk ++ A.id ++ iosPk'))]
        = some (C.edSign A.ltsk (C.dhPub accSk ++ A.id ++ iosPk')) := by simp [lookup]
    rw [this] at hsig
    exact (Option.some.inj hsig).symm
  -- acceptance forces the signature to be the genuine one over THIS transcript
  rw [hp.ltpk, hp.id, hacc] at hver
  have hgen := L.verify_sound _ _ _ hver
  rw [hsig'] at hgen
  have hmsg := L.sign_inj _ _ _ hgen
  have : iosPk' = C.dhPub eph := by
    have h1 : C.dhPub accSk ++ (A.id ++ iosPk') = C.dhPub accSk ++ (A.id ++ C.dhPub eph) := by
      simpa [List.append_assoc] using hmsg
    exact List.append_cancel_left (List.append_cancel_left h1)
  exact hne this

open Spec.VerifyAccessory in
/-- **Signed by another key / bound to another identifier is rejected**: an M2 that is well formed
    in every respect but signed with a long-term key whose public key is not the stored one, or
    carrying another identifier, is never accepted (verify-soundness of the stored key applies to
    *its* secret key only; here: a different identifier fails the comparison, whatever the
    signature). -/
theorem C01_wrong_identifier_rejected (C : Crypto) (L : C.Laws) (p : Pairing) (A : Acc) (eph accSk : Bytes)
    (hid : A.id ≠ p.accessoryId) :
    ∀ v, processM2 C p eph (m2 C A accSk (C.dhPub eph)) ≠ .ok v := by
  intro v hv
  obtain ⟨enc, plain, d1, _, henc, _, _, hopen, hd1, hident, _, _⟩ := C01_accept_implies_checks C p eph _ v hv
  have henc' : lookup 5 (m2 C A accSk (C.dhPub eph)) = some (C.aeadSeal (vkey C accSk (C.dhPub eph)) (Spec.VerifyAccessory.noncePad ++ str "PV-Msg02") []
      (encodeList [(1, A.id), (10, C.edSign A.ltsk (C.dhPub accSk ++ A.id ++ C.dhPub eph))])) := by simp [m2, lookup]
  rw [henc'] at henc
  have hs := L.open_sound _ _ _ _ _ hopen
  rw [← Option.some.inj henc] at hs
  have hplain := L.seal_inj _ _ _ _ _ _ _ _ hs
  rw [← hplain, decode_sub] at hd1
  rw [← Except.ok.inj hd1] at hident
  have : lookup 1 [((1 : UInt8), A.id), (10, C.edSign A.ltsk (C.dhPub accSk ++ A.id ++ C.dhPub eph))] = some A.id := by
    simp [lookup]
  rw [this] at hident
  exact hid (Option.some.inj hident)

/-- **Resumption**: a resumed session is accepted only if the reply's tag opens under the key
    derived from the *previous* session's secret and this exchange's fresh public key, to the
    empty plaintext; the new secret is derived from the same inputs. -/
theorem C01_resume_accept_implies_secret (C : Crypto) (prevShared eph : Bytes) (m2 : Items) (sid shared' : Bytes)
    (h : resumeM3 C prevShared eph m2 = some (sid, shared')) :
    lookup 14 m2 = some sid ∧
    (∃ tag, lookup 5 m2 = some tag ∧
      C.aeadOpen (C.hkdf prevShared (C.dhPub eph ++ sid) (str "Pair-Resume-Response-Info") 32)
        (PairVerify.noncePad ++ str "PR-Msg02") [] tag = some []) ∧
    shared' = C.hkdf prevShared (C.dhPub eph ++ sid) (str "Pair-Resume-Shared-Secret-Info") 32 := by
  unfold resumeM3 at h
  split at h; · cases h
  split at h; · cases h
  split at h; · cases h
  split at h; · cases h
  rename_i sid' hsid
  split at h; · cases h
  split at h; · cases h
  rename_i tag htag
  split at h; · cases h
  simp only at h
  split at h; · cases h
  rename_i plain hopen
  split at h; · cases h
  rename_i hpl
  cases h
  have : plain = [] := by simpa using hpl
  subst this
  exact ⟨hsid, ⟨tag, htag, hopen⟩, rfl⟩

/-- on the resume path too the state/error check comes first: a resumed session is accepted only for a reply
    whose state is M2 and that carries no error - and then only under the conditions of the previous theorem -/
theorem C01_resume_requires_clean_reply (C : Crypto) (prevShared eph : Bytes) (m2 : Items) (r : Bytes × Bytes)
    (h : verifyM2Resume C prevShared eph m2 = .ok (some r)) :
    handleStateStep m2 [2] = .ok () ∧ resumeM3 C prevShared eph m2 = some r := by
  unfold verifyM2Resume at h
  split at h
  · cases h
  · rename_i hs
    refine ⟨hs, ?_⟩
    have := Except.ok.inj h
    exact this

/-- tie to the labels and nonces in the source (regenerated on every run): the model's literals are
    exactly those of `get_session_keys`, `resume_m1`, `resume_m3`, in source order -/
theorem C01_gen_tie :
    Gen.Protocol.labels_get_session_keys = [["Pair-Verify-Encrypt-Salt", "Pair-Verify-Encrypt-Info"], [],
      ["Pair-Verify-ResumeSessionID-Salt", "Pair-Verify-ResumeSessionID-Info", "8"]] ∧
    Gen.Protocol.nonces_get_session_keys = ["PV-Msg02", "PV-Msg03"] ∧
    Gen.Protocol.labels_resume_m1 = [["Pair-Resume-Request-Info"]] ∧ Gen.Protocol.nonces_resume_m1 = ["PR-Msg01"] ∧
    Gen.Protocol.labels_resume_m3 = [["Pair-Resume-Response-Info"], ["Pair-Resume-Shared-Secret-Info"], []] ∧
    Gen.Protocol.nonces_resume_m3 = ["PR-Msg02"] := by decide

/-- the three install sites give the controller's *write* cipher the "Control-Write" key and its
    *read* cipher the "Control-Read" key (and, on CoAP, the event cipher the "Event-Read" key);
    on IP the positional constructor arguments line up with the parameters -/
theorem C01_install_sites :
    Gen.Install.ip = [("c2a_key", ["Control-Salt", "Control-Write-Encryption-Key"]), ("a2c_key", ["Control-Salt", "Control-Read-Encryption-Key"])] ∧
    Gen.Install.ipCtorArgs.drop 1 = Gen.Install.ipCtorParams.drop 2 ∧
    Gen.Install.ipCipherKeys = ["self.c2a_key", "self.a2c_key"] ∧
    Gen.Install.coap = [("recv_key", ["Control-Salt", "Control-Read-Encryption-Key"]), ("send_key", ["Control-Salt", "Control-Write-Encryption-Key"]),
      ("event_key", ["Event-Salt", "Event-Read-Encryption-Key"])] ∧
    Gen.Install.coapCtxArgs = ["recv_ctx", "send_ctx", "event_ctx"] ∧
    Gen.Install.ble = [("EncryptionKey", ["Control-Salt", "Control-Write-Encryption-Key"]), ("DecryptionKey", ["Control-Salt", "Control-Read-Encryption-Key"])] := by
  decide

/-! ## No session before the proof (the IP connection supervisor, model of `Reconnect.lean`)

The session keys are installed, and the pairing reports itself connected, only by the verdict of *this*
connection's pair-verify: `_connect_once` clears `is_secure` before it opens the TCP connection, so a flag left
over from the previous session cannot make request entry points (all of which are gated by `is_connected`)
write on a connection whose peer has not proved anything yet. -/

open HapVerif.Reconnect in
/-- **In every reachable state of the supervisor, while the TCP connect or the pair-verify of an attempt is
    pending the pairing is not connected** - whatever happened before (an earlier verified session lost by a peer
    drop, a close, failed attempts, zeroconf updates, callers asking for the connection at any time). -/
theorem C01_no_session_before_proof (hosts : List Host) (evs : List Ev) :
    (∀ t r, (run (init hosts) evs).conn = .tcpWait t r → (run (init hosts) evs).isConnected = false) ∧
    (∀ t c, (run (init hosts) evs).conn = .verifyWait t c → (run (init hosts) evs).isConnected = false) := by
  have hv := V_run evs (init hosts) (V_init hosts)
  generalize run (init hosts) evs = s at *
  constructor
  · intro t r hc
    unfold V at hv; rw [hc] at hv
    simp [St.isConnected, hv]
  · intro t c hc
    unfold V at hv; rw [hc] at hv
    simp [St.isConnected, hv]

open HapVerif.Reconnect in
/-- non-vacuity: a verified session is dropped by the peer; while the next pair-verify is pending (the accessory
    has not answered yet) the pairing is not connected although it was a moment ago, and a new connection is
    already the current one -/
example :
    let s1 := run (init [1]) [.pushVer .ok, .pushTcp (.ok 0), .ensure 1 none]
    let s2 := run s1 [.pushVer .hang, .pushTcp (.ok 0), .drop 0]
    s1.isConnected = true ∧ s2.conn = .verifyWait 245760 1 ∧ s2.current = some 1 ∧ s2.isConnected = false := by
  decide +kernel

/-! ## BLE: session keys never outlive the link they were negotiated on -/

open HapVerif.BleSession in
/-- the invariant: keys exist only for the link that is currently connected, all traffic so far went out on the
    link its keys were negotiated on, and keys - hence traffic - exist only for links on which a pair-verify ran -/
def BleInv (s : BleSession.St) : Prop :=
  (∀ k, s.keys = some k → s.link = some k) ∧ (∀ l, s.link = some l → l < s.nextLink) ∧
  (∀ p ∈ s.traffic, p.1 = p.2) ∧ (∀ k, s.keys = some k → k ∈ s.verifies) ∧ (∀ p ∈ s.traffic, p.2 ∈ s.verifies)

open HapVerif.BleSession in
theorem ble_step_inv (s : BleSession.St) (e : BleSession.Ev) (h : BleInv s) : BleInv (BleSession.step s e) := by
  obtain ⟨h1, h2, h3, h4, h5⟩ := h
  cases hl : s.link with
  | none =>
    have hk : s.keys = none := by
      cases hk : s.keys with
      | none => rfl
      | some k => have := h1 k hk; rw [hl] at this; cases this
    cases e <;> simp only [BleSession.step, hl, hk]
    case connect =>
      refine ⟨by simp [hk], ?_, h3, by simp [hk], h5⟩
      intro l hl'
      simp only [Option.some.injEq] at hl'
      dsimp only
      omega
    all_goals first
      | exact ⟨h1, h2, h3, h4, h5⟩
      | exact ⟨by simp, by simp, h3, by simp, h5⟩
  | some l =>
    have hlt := h2 l hl
    cases hk : s.keys with
    | none =>
      cases e <;> simp only [BleSession.step, hl, hk]
      case verifyOk =>
        refine ⟨?_, ?_, h3, ?_, ?_⟩
        · intro k hk'
          simp only [Option.some.injEq] at hk' ⊢
          exact hk'
        · intro l' hl'
          simp only [Option.some.injEq] at hl'
          dsimp only
          omega
        · intro k hk'
          simp only [Option.some.injEq] at hk'
          simp [hk']
        · intro p hp
          dsimp only at hp ⊢
          exact List.mem_append_left _ (h5 p hp)
      case verifyFail =>
        refine ⟨?_, ?_, h3, ?_, ?_⟩
        · intro k hk'; cases hk'
        · intro l' hl'
          simp only [Option.some.injEq] at hl'
          dsimp only
          omega
        · intro k hk'; cases hk'
        · intro p hp
          dsimp only at hp ⊢
          exact List.mem_append_left _ (h5 p hp)
      all_goals first
        | exact ⟨h1, h2, h3, h4, h5⟩
        | exact ⟨by simp, by simp, h3, by simp, h5⟩
    | some k =>
      have hkl : l = k := by
        have := h1 k hk
        rw [hl] at this
        simpa using this
      cases e <;> simp only [BleSession.step, hl, hk]
      case request =>
        refine ⟨?_, ?_, ?_, ?_, ?_⟩
        · intro k' hk'; simp only [Option.some.injEq] at hk' ⊢; omega
        · intro l' hl'; simp only [Option.some.injEq] at hl'; dsimp only; omega
        · intro p hp
          simp only [List.mem_append, List.mem_singleton] at hp
          rcases hp with hp | rfl
          · exact h3 p hp
          · exact hkl
        · intro k' hk'; simp only [Option.some.injEq] at hk'; rw [← hk']; exact h4 k hk
        · intro p hp
          simp only [List.mem_append, List.mem_singleton] at hp
          rcases hp with hp | rfl
          · exact h5 p hp
          · exact h4 k hk
      all_goals first
        | exact ⟨h1, h2, h3, h4, h5⟩
        | exact ⟨by simp, by simp, h3, by simp, h5⟩

open HapVerif.BleSession in
theorem ble_run_inv (evs : List BleSession.Ev) (s : BleSession.St) (hs : BleInv s) : BleInv (BleSession.run s evs) := by
  induction evs generalizing s with
  | nil => exact hs
  | cons e es ih => exact ih _ (ble_step_inv s e hs)

open HapVerif.BleSession in
/-- **On BLE every encrypted request goes out on the link on which its session keys were negotiated**, in every
    history of connects, pair-verify outcomes, requests, closes (clean or with a raising disconnect) and link
    losses: a new link never inherits the previous link's keys, so its peer has to prove itself again. -/
theorem C01_ble_keys_bound_to_link (evs : List BleSession.Ev) :
    (∀ p ∈ (BleSession.run {} evs).traffic, p.1 = p.2) ∧
    (∀ k, (BleSession.run {} evs).keys = some k → (BleSession.run {} evs).link = some k) := by
  have := ble_run_inv evs {} ⟨by simp, by simp, by simp, by simp, by simp⟩
  exact ⟨this.2.2.1, this.1⟩

open HapVerif.BleSession in
/-- **No encrypted request ever goes out on a link on which no pair-verify (or pair-resume) was run**: whatever the
    history, every request's link appears among the links a pair-verify attempt was made on - and that attempt
    succeeded, since a failed one leaves no keys (`C01_ble_failed_verify_no_traffic`). -/
theorem C01_ble_traffic_only_after_verify (evs : List BleSession.Ev) :
    ∀ p ∈ (BleSession.run {} evs).traffic, p.1 ∈ (BleSession.run {} evs).verifies := by
  have := ble_run_inv evs {} ⟨by simp, by simp, by simp, by simp, by simp⟩
  intro p hp
  rw [this.2.2.1 p hp]
  exact this.2.2.2.2 p hp

open HapVerif.BleSession in
/-- a public operation against a peer that cannot complete pair-verify sends nothing, in whatever state it starts:
    the traffic is unchanged (so an impostor never sees a request of the session), and there are no keys afterwards -/
theorem C01_ble_failed_verify_no_traffic (evs : List BleSession.Ev) (hk : (BleSession.run {} evs).keys = none) :
    (BleSession.op (BleSession.run {} evs) false).traffic = (BleSession.run {} evs).traffic ∧
    (BleSession.op (BleSession.run {} evs) false).keys = none := by
  generalize BleSession.run {} evs = s at hk
  unfold BleSession.op
  cases hl : s.link <;> simp [BleSession.step, hl, hk]

open HapVerif.BleSession in
/-- non-vacuity: verified on link 0, close with a raising disconnect, reconnect: the new link 1 has no keys until
    its own pair-verify; a failing one (an impostor) leaves it without keys and no request goes out -/
example :
    (BleSession.run {} [.connect, .verifyOk, .request, .closeRaises, .connect, .verifyFail, .request]).traffic = [(0, 0)] ∧
    (BleSession.run {} [.connect, .verifyOk, .request, .closeRaises, .connect]).keys = none ∧
    (BleSession.run {} [.connect, .verifyOk, .request, .closeRaises, .connect]).link = some 1 := by decide

end HapVerif.C01
