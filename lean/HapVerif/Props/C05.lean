import HapVerif.Proofs.SecureFrame
import HapVerif.Gen.Ip
import HapVerif.Props.C07

/-! # C05 - encrypted IP session framing is exact outbound and segmentation-proof inbound -/

namespace HapVerif.C05
open HapVerif HapVerif.SecureFrame HapVerif.Spec.Frames

/-- an AEAD pair in which opening what was sealed (same counter, same AAD) returns the plaintext and
    the sealed block is 16 bytes longer than the plaintext -/
structure Aead (sl : Sealer) (op : Opener) : Prop where
  open_seal : ∀ c a p, op c a (sl c a p) = some p
  seal_len : ∀ c a p, (sl c a p).length = p.length + 16

/-- **Inbound, segmentation**: for every opener (every key and every ciphertext stream, genuine or
    corrupted), every state and every way of cutting the stream into one or more reads, the
    delivered plaintext blocks, the final buffer and counter, and whether/where decryption failed
    are those of a single read of the whole stream. -/
theorem C05_inbound_segmentation (op : Opener) : ∀ (cs : List Bytes) (c : Bytes) (s : St),
    recvAll op s (c :: cs) [] = recv op s (c ++ cs.flatten) := by
  intro cs
  induction cs with
  | nil =>
    intro c s
    simp only [recvAll, List.flatten_nil, List.append_nil, List.nil_append]
    cases recv op s c with
    | mk o r => cases r <;> rfl
  | cons c2 cs ih =>
    intro c s
    have hrr := recv_recv op s c (c2 ++ cs.flatten)
    simp only [List.flatten_cons]
    rw [← hrr]
    rw [recvAll]
    cases h : recv op s c with
    | mk o r =>
      cases r with
      | none => simp
      | some s' =>
        simp only [List.nil_append]
        rw [recvAll_out, ih c2 s']

example : recvAll (fun _ _ b => some b) {} [[3, 0, 1], [2, 3] ++ List.replicate 16 0 ++ [0]] [] =
    ([[1, 2, 3] ++ List.replicate 16 0], some ⟨[0], 1⟩) := by decide

/-- a run of genuine frames at the head of the buffer is delivered block by block -/
theorem loop_frames (sl : Sealer) (op : Opener) (h : Aead sl op) : ∀ (bs : List Bytes) (c : Nat) (tail : Bytes)
    (out : List Bytes) (f : Nat), (∀ b ∈ bs, b.length < 65536) →
    (writeFrames sl c bs ++ tail).length < f →
    loop op f ⟨writeFrames sl c bs ++ tail, c⟩ out = loop op (tail.length + 1) ⟨tail, c + bs.length⟩ (out ++ bs) := by
  intro bs
  induction bs with
  | nil =>
    intro c tail out f _ hf
    simp only [writeFrames, List.nil_append, List.length_nil, Nat.add_zero, List.append_nil] at hf ⊢
    exact loop_fuel op _ _ _ _ hf (Nat.lt_succ_self _)
  | cons b bs ih =>
    intro c tail out f hb hf
    obtain ⟨f', rfl⟩ : ∃ f', f = f' + 1 := ⟨f - 1, by omega⟩
    have hb0 := hb b (by simp)
    have e : writeFrames sl c (b :: bs) ++ tail
        = natToLe 2 b.length ++ sl c (natToLe 2 b.length) b ++ (writeFrames sl (c + 1) bs ++ tail) := by
      simp [writeFrames, List.append_assoc]
    rw [e] at hf ⊢
    rw [loop_frame op f' c _ _ b.length out b hb0 (h.seal_len _ _ _) (h.open_seal _ _ _) hf]
    rw [ih (c + 1) tail (out ++ [b]) f' (fun x hx => hb x (List.mem_cons_of_mem _ hx))]
    · simp only [List.length_cons, List.append_assoc, List.singleton_append]
      congr 2
      omega
    · simp only [List.length_append] at hf ⊢
      have := h.seal_len c (natToLe 2 b.length) b
      simp at hf
      omega

/-- **Inbound, correctness**: whatever plaintext blocks a conformant accessory seals (any sizes
    below 64 KiB - HAP uses 1..1024), starting from any counter, and however the resulting byte
    stream is split into reads, the controller delivers exactly those blocks, in order, ends with
    an empty buffer and has advanced its counter by the number of frames. -/
theorem C05_inbound_correct (sl : Sealer) (op : Opener) (h : Aead sl op) (bs : List Bytes) (c : Nat)
    (hb : ∀ b ∈ bs, b.length < 65536) (r : Bytes) (rs : List Bytes)
    (hcut : r ++ rs.flatten = writeFrames sl c bs) :
    recvAll op ⟨[], c⟩ (r :: rs) [] = (bs, some ⟨[], c + bs.length⟩) := by
  rw [C05_inbound_segmentation, hcut]
  simp only [recv, List.nil_append]
  have := loop_frames sl op h bs c [] [] ((writeFrames sl c bs).length + 1) hb (by simp)
  simp only [List.append_nil, List.nil_append] at this
  rw [this]
  simp [loop]

/-- **Inbound, authentication failure**: if the frame that follows any number of genuine frames
    does not open under the expected counter - its length prefix, ciphertext or tag was altered -
    then exactly the blocks before it are delivered, nothing from it or from anything after it is,
    and the session ends (`none`), again for every split of the stream into reads. -/
theorem C05_bad_frame (sl : Sealer) (op : Opener) (h : Aead sl op) (good : List Bytes) (c : Nat)
    (hb : ∀ b ∈ good, b.length < 65536) (n : Nat) (ct rest : Bytes) (hn : n < 65536)
    (hct : ct.length = n + 16) (hbad : op (c + good.length) (natToLe 2 n) ct = none)
    (r : Bytes) (rs : List Bytes)
    (hcut : r ++ rs.flatten = writeFrames sl c good ++ (natToLe 2 n ++ ct ++ rest)) :
    recvAll op ⟨[], c⟩ (r :: rs) [] = (good, none) := by
  rw [C05_inbound_segmentation, hcut]
  simp only [recv, List.nil_append]
  rw [loop_frames sl op h good c _ [] _ hb (Nat.lt_succ_self _)]
  have hlb : (natToLe 2 n).length = 2 := by simp
  have e1 : (natToLe 2 n ++ ct ++ rest).take 2 = natToLe 2 n := by
    rw [List.append_assoc, List.take_left' hlb]
  have e2 : ((natToLe 2 n ++ ct ++ rest).drop 2).take (n + 16) = ct := by
    rw [List.append_assoc, List.drop_left' hlb, List.take_left' hct]
  have hlen : (natToLe 2 n ++ ct ++ rest).length = 2 + n + 16 + rest.length := by simp [hct]; omega
  rw [loop]
  simp only [e1, le16_natToLe n hn, e2, hbad]
  have h2 : ¬ (natToLe 2 n ++ ct ++ rest).length < 2 := by omega
  have h3 : ¬ (natToLe 2 n ++ ct ++ rest).length < 2 + n + 16 := by omega
  rw [if_neg h2, if_neg h3]
  simp

/-- **Only authenticated plaintext is delivered**: every block handed to the HTTP layer is a value
    the AEAD opener returned - in any state, for any input bytes. -/
theorem C05_only_authenticated (op : Opener) (P : Bytes → Prop) (hP : ∀ c a x p, op c a x = some p → P p)
    (s : St) (data : Bytes) : ∀ p ∈ (recv op s data).1, P p := by
  have aux : ∀ (f : Nat) (s : St) (out : List Bytes), (∀ p ∈ out, P p) → ∀ p ∈ (loop op f s out).1, P p := by
    intro f
    induction f with
    | zero => intro s out ho; simpa [loop] using ho
    | succ n ih =>
      intro s out ho
      simp only [loop]
      split
      · exact ho
      · split
        · exact ho
        · split
          · exact ho
          · rename_i p hp
            apply ih
            intro q hq
            simp only [List.mem_append, List.mem_singleton] at hq
            rcases hq with hq | rfl
            · exact ho q hq
            · exact hP _ _ _ _ hp
  exact aux _ _ [] (by simp)

/-! ### outbound -/

theorem natToLe2_cons (n : Nat) : natToLe 2 n = [UInt8.ofNat (n % 256), UInt8.ofNat (n / 256 % 256)] := rfl

theorem natToLe2_val (n : Nat) (h : n < 65536) :
    (UInt8.ofNat (n % 256)).toNat + 256 * (UInt8.ofNat (n / 256 % 256)).toNat = n := by
  have h1 : n % 256 < 256 := Nat.mod_lt _ (by omega)
  have h2 : n / 256 % 256 < 256 := Nat.mod_lt _ (by omega)
  simp [Nat.mod_eq_of_lt h1, Nat.mod_eq_of_lt h2]
  omega

/-- **Outbound**: the list handed to the transport, read by a conformant accessory from the same
    counter, decrypts to chunks whose concatenation is exactly the request; every chunk is
    non-empty and at most 1024 bytes, every chunk but the last is exactly 1024 bytes, and the
    controller's counter has advanced by the number of frames. -/
theorem C05_outbound (sl : Sealer) (op : Opener) (h : Aead sl op) : ∀ (fuel : Nat) (payload : Bytes) (c : Nat) (rf : Nat),
    payload.length ≤ fuel → payload.length ≤ rf →
    ∃ chunks, readFrames op rf c (sendAux sl fuel c payload).1.flatten = some chunks ∧
      chunks.flatten = payload ∧ (∀ ch ∈ chunks, 0 < ch.length ∧ ch.length ≤ 1024) ∧
      (∀ ch ∈ chunks.dropLast, ch.length = 1024) ∧ (sendAux sl fuel c payload).2 = c + chunks.length := by
  intro fuel
  induction fuel with
  | zero =>
    intro payload c rf hl _
    have : payload = [] := by cases payload <;> simp_all
    subst this
    refine ⟨[], ?_, rfl, by simp, by simp, by simp [sendAux]⟩
    cases rf <;> simp [sendAux, readFrames]
  | succ n ih =>
    intro payload c rf hl hrf
    by_cases hp : payload = []
    · subst hp
      refine ⟨[], ?_, rfl, by simp, by simp, by simp [sendAux]⟩
      cases rf <;> simp [sendAux, readFrames]
    · obtain ⟨rf', rfl⟩ : ∃ r, rf = r + 1 := by
        have : 0 < payload.length := List.length_pos_iff.mpr hp
        exact ⟨rf - 1, by omega⟩
      have hpos : 0 < payload.length := List.length_pos_iff.mpr hp
      have hcur : (payload.take 1024).length = min 1024 payload.length := List.length_take
      have hcur_le : (payload.take 1024).length ≤ 1024 := by rw [hcur]; omega
      have hcur_pos : 0 < (payload.take 1024).length := by rw [hcur]; omega
      have hdrop : (payload.drop 1024).length ≤ n := by simp; omega
      have hdrop' : (payload.drop 1024).length ≤ rf' := by simp; omega
      obtain ⟨chunks, hread, hflat, hsz, hfull, hctr⟩ := ih (payload.drop 1024) (c + 1) rf' hdrop hdrop'
      refine ⟨payload.take 1024 :: chunks, ?_, ?_, ?_, ?_, ?_⟩
      · simp only [sendAux, hp, if_false, List.flatten_cons, natToLe2_cons, List.cons_append,
          List.nil_append, readFrames]
        rw [natToLe2_val _ (by omega)]
        have hsl := h.seal_len c (natToLe 2 (payload.take 1024).length) (payload.take 1024)
        rw [natToLe2_cons] at hsl
        have hnot : ¬ ((payload.take 1024).length > 1024 ∨
            (sl c [UInt8.ofNat ((payload.take 1024).length % 256), UInt8.ofNat ((payload.take 1024).length / 256 % 256)]
              (payload.take 1024) ++ (sendAux sl n (c + 1) (payload.drop 1024)).1.flatten).length
              < (payload.take 1024).length + 16) := by
          simp only [List.length_append, hsl]; omega
        simp only [hnot, if_false]
        rw [List.take_left' hsl, List.drop_left' hsl]
        have hop := h.open_seal c (natToLe 2 (payload.take 1024).length) (payload.take 1024)
        rw [natToLe2_cons] at hop
        simp only [hop, hread, Option.map_some]
      · simp [hflat]
      · intro ch hch
        simp only [List.mem_cons] at hch
        rcases hch with rfl | hch
        · exact ⟨hcur_pos, hcur_le⟩
        · exact hsz ch hch
      · intro ch hch
        cases chunks with
        | nil => simp at hch
        | cons c2 cs =>
          simp only [List.dropLast_cons₂, List.mem_cons] at hch
          rcases hch with rfl | hch
          · -- not the last chunk: the rest of the payload is non-empty, so this one is full
            have : 0 < (payload.drop 1024).length := by
              rw [← hflat]; have := (hsz c2 (by simp)).1; simp; omega
            simp at this; rw [hcur]; omega
          · exact hfull ch hch
      · simp only [sendAux, hp, if_false, hctr, List.length_cons]; omega

/-- the same statement for `send_bytes` as called (fuel = payload length) -/
theorem C05_outbound_send (sl : Sealer) (op : Opener) (h : Aead sl op) (payload : Bytes) (c : Nat) :
    ∃ chunks, readFrames op payload.length c (send sl c payload).1.flatten = some chunks ∧
      chunks.flatten = payload ∧ (∀ ch ∈ chunks, 0 < ch.length ∧ ch.length ≤ 1024) ∧
      (∀ ch ∈ chunks.dropLast, ch.length = 1024) ∧ (send sl c payload).2 = c + chunks.length :=
  C05_outbound sl op h _ payload c _ (Nat.le_refl _) (Nat.le_refl _)

/-- non-vacuity: an (insecure) AEAD instance satisfying the laws exists -/
example : Aead (fun _ _ p => p ++ List.replicate 16 0) (fun _ _ x => some (x.take (x.length - 16))) :=
  ⟨by intro c a p; simp, by intro c a p; simp⟩

/-- tie to the source constants (regenerated on every run from `ip/connection.py`) -/
theorem C05_gen_tie : Gen.Ip.secureChunk = 1024 ∧ Gen.Ip.TAG_LENGTH = 16 ∧ Gen.Ip.lenFormat = "H" ∧
    Gen.Ip.nonceFormat = "<LQ" := by decide

/-! ## The secure session end to end: TCP reads -> frames -> HTTP/EVENT messages

`SecureHomeKitProtocol.data_received` decrypts the frames that are complete and hands every decrypted block to
`InsecureHomeKitProtocol.data_received` (the HTTP parser of C07), one call per block.  Composition of the two
models: -/

open HapVerif.Http in
/-- what reaches the application from a sequence of TCP reads on a secure session: the decrypted blocks are fed to
    the HTTP parser in order, one call per block; the result is the messages completed, the parser state (or its
    error) and the frame state (`none` = a frame failed authentication and the session ended) -/
def secureHttp (op : Opener) (s : St) (p : Http.P) (reads : List Bytes) :
    (List Http.Msg × Except Http.Err Http.P) × Option St :=
  let r := recvAll op s reads []
  (Http.feedAll p r.1, r.2)

open HapVerif.Http in
/-- **End to end**: whatever HTTP responses and EVENT messages the accessory writes (any of the three framings, any
    header spelling), however it cuts their bytes into encrypted blocks (any sizes - block boundaries anywhere
    inside status lines, headers, chunk sizes, bodies), and however TCP cuts the ciphertext stream into reads
    (inside length prefixes, ciphertexts, tags), the application receives exactly the messages written, in order,
    byte-exact; the HTTP parser is left fresh, nothing is left in the frame buffer and the counter has advanced by
    the number of blocks. -/
theorem C05_secure_http_end_to_end (sl : Sealer) (op : Opener) (h : Aead sl op)
    (ms : List (WMsg × Nat)) (hg : ∀ x ∈ ms, Good x.1 x.2)
    (blocks : List Bytes) (hblocks : blocks.flatten = writeAll ms) (hb : ∀ b ∈ blocks, b.length < 65536)
    (c : Nat) (r : Bytes) (rs : List Bytes) (hcut : r ++ rs.flatten = writeFrames sl c blocks) :
    secureHttp op ⟨[], c⟩ {} (r :: rs) =
      ((ms.map (fun x => x.1.msg x.2), .ok {}), some ⟨[], c + blocks.length⟩) := by
  unfold secureHttp
  rw [C05_inbound_correct sl op h blocks c hb r rs hcut]
  simp only [C07.C07_written_stream_any_segmentation ms hg blocks hblocks]

open HapVerif.Http in
/-- and if a frame in the middle fails authentication, the application has received exactly the messages that the
    genuine blocks before it complete - nothing from the bad frame or after it - and the session ends -/
theorem C05_secure_http_bad_frame (sl : Sealer) (op : Opener) (h : Aead sl op) (good : List Bytes) (c : Nat)
    (hb : ∀ b ∈ good, b.length < 65536) (n : Nat) (ct rest : Bytes) (hn : n < 65536)
    (hct : ct.length = n + 16) (hbad : op (c + good.length) (natToLe 2 n) ct = none)
    (r : Bytes) (rs : List Bytes)
    (hcut : r ++ rs.flatten = writeFrames sl c good ++ (natToLe 2 n ++ ct ++ rest)) (p : Http.P) :
    secureHttp op ⟨[], c⟩ p (r :: rs) = (Http.feedAll p good, none) := by
  unfold secureHttp
  rw [C05_bad_frame sl op h good c hb n ct rest hn hct hbad r rs hcut]

end HapVerif.C05
