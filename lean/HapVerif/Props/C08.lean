import HapVerif.Model.ReqConn

/-! # C08 - every request gets its own response or a prompt disconnection error

Statements over the FIFO attribution automaton `HapVerif.ReqConn` (tied to
`aiohomekit/controller/ip/connection.py` by the differential harness `harness/c08.py`). -/

namespace HapVerif.ReqConn

def isSent : Obs → Prop
  | .sent _ _ => True
  | _ => False

/-! ## helper lemmas -/

theorem letThrough_spec (fuel : Nat) (s : St) :
    ∃ sents, (letThrough fuel s).obs = s.obs ++ sents ∧ (∀ o ∈ sents, isSent o) ∧
      (letThrough fuel s).up = s.up ∧ (letThrough fuel s).now = s.now ∧ (letThrough fuel s).part = s.part ∧
      (letThrough fuel s).limit = s.limit ∧ (letThrough fuel s).epoch = s.epoch ∧
      (∃ moved, s.waiting = moved ++ (letThrough fuel s).waiting ∧
        (letThrough fuel s).inflight = s.inflight ++ moved.map (fun k => ⟨k, s.now + requestTimeout⟩)) := by
  induction fuel generalizing s with
  | zero => exact ⟨[], by simp [letThrough], by simp, rfl, rfl, rfl, rfl, rfl, [], by simp [letThrough], by simp [letThrough]⟩
  | succ n ih =>
    simp only [letThrough]
    split
    · rename_i hw
      exact ⟨[], by simp, by simp, rfl, rfl, rfl, rfl, rfl, [], by simp [hw], by simp⟩
    · rename_i k ks hw
      split
      · obtain ⟨sents, h1, h2, h3, h4, h5, h6, h7, moved, h8, h9⟩ := ih
          { s with waiting := ks, inflight := s.inflight ++ [⟨k, s.now + requestTimeout⟩],
                   obs := s.obs ++ [.sent k s.epoch] }
        refine ⟨.sent k s.epoch :: sents, ?_, ?_, h3, h4, h5, h6, h7, k :: moved, ?_, ?_⟩
        · rw [h1]; simp
        · intro o ho
          rcases List.mem_cons.mp ho with rfl | ho
          · trivial
          · exact h2 o ho
        · rw [hw]; exact congrArg (k :: ·) h8
        · rw [h9]; simp
      · exact ⟨[], by simp, by simp, rfl, rfl, rfl, rfl, rfl, [], by simp [hw], by simp⟩

/-! ## attribution -/

/-- a response completes exactly the oldest outstanding request, with that response; nothing else completes
    (the only other effect is that callers blocked on the semaphore get to send) -/
theorem C08_response_completes_oldest (s : St) (x : Nat) (p : Pending) (ps : List Pending)
    (hup : s.up = true) (hpart : s.part = none) (hq : s.inflight = p :: ps) :
    ∃ sents, (∀ o ∈ sents, isSent o) ∧
      (step s (.resp x)).obs = s.obs ++ Obs.done p.id (.ok x) s.now :: sents ∧
      (step s (.resp x)).up = true ∧
      ∃ moved, (step s (.resp x)).inflight = ps ++ moved := by
  have hs : step s (.resp x) =
      letThrough (s.waiting.length + 1) { s with inflight := ps, obs := s.obs ++ [.done p.id (.ok x) s.now] } := by
    simp [step, hup, hpart, deliverResp, hq]
  rw [hs]
  obtain ⟨sents, h1, h2, h3, h4, h5, h6, h7, moved, h8, h9⟩ :=
    letThrough_spec (s.waiting.length + 1) { s with inflight := ps, obs := s.obs ++ [.done p.id (.ok x) s.now] }
  refine ⟨sents, h2, ?_, ?_, _, h9⟩
  · rw [h1]; simp
  · rw [h3]; exact hup

/-- the same for a response that arrived in two parts -/
theorem C08_split_response_completes_oldest (s : St) (x : Nat) (p : Pending) (ps : List Pending)
    (hup : s.up = true) (hpart : s.part = some (.resp x)) (hq : s.inflight = p :: ps) :
    ∃ sents, (∀ o ∈ sents, isSent o) ∧
      (step s .rest).obs = s.obs ++ Obs.done p.id (.ok x) s.now :: sents := by
  have hs : step s .rest = letThrough (s.waiting.length + 1)
      { s with part := none, inflight := ps, obs := s.obs ++ [.done p.id (.ok x) s.now] } := by
    simp [step, hup, hpart, deliverResp, hq]
  rw [hs]
  obtain ⟨sents, h1, h2, _⟩ :=
    letThrough_spec (s.waiting.length + 1)
      { s with part := none, inflight := ps, obs := s.obs ++ [.done p.id (.ok x) s.now] }
  exact ⟨sents, h2, by rw [h1]; simp⟩

/-- an EVENT, whole or split, goes to the listeners and never touches the request queue -/
theorem C08_event_never_consumed (s : St) (e : Nat) :
    (step s (.event e)).inflight = s.inflight ∧ (step s (.event e)).waiting = s.waiting ∧
    (step s (.event e)).up = s.up ∧
    (step s (.event e)).obs = (if !s.up || s.part.isSome then s.obs else s.obs ++ [.event e]) ∧
    (s.up = true → s.part = some (.event e) →
      (step s .rest).inflight = s.inflight ∧ (step s .rest).waiting = s.waiting ∧
      (step s .rest).obs = s.obs ++ [.event e]) := by
  refine ⟨?_, ?_, ?_, ?_, ?_⟩
  · simp only [step]; split <;> rfl
  · simp only [step]; split <;> rfl
  · simp only [step]; split <;> rfl
  · simp only [step]; split <;> rfl
  · intro hup hp
    simp [step, hup, hp, emit]

/-- an unsolicited response (nothing outstanding) makes the connection be abandoned -/
theorem C08_unsolicited_abandons (s : St) (x : Nat) (hup : s.up = true) (hpart : s.part = none)
    (hq : s.inflight = []) : (step s (.resp x)).up = false := by
  simp [step, hup, hpart, deliverResp, hq, abandon]

/-! ## abandonment -/

/-- abandoning a connection fails every outstanding request - in flight or waiting for its turn - at that very
    instant: the cancelled caller with its own cancellation, every other one with a disconnection error -/
theorem C08_abandon_fails_all (s : St) (c : Option ReqId) :
    (abandon s c).up = false ∧ (abandon s c).inflight = [] ∧ (abandon s c).waiting = [] ∧
    (abandon s c).part = none ∧
    (∀ id, (id ∈ s.inflight.map (·.id) ∨ id ∈ s.waiting) →
      Obs.done id (if c = some id then .cancelled else .disconnected) s.now ∈ (abandon s c).obs) := by
  refine ⟨rfl, rfl, rfl, rfl, ?_⟩
  intro id hid
  simp only [abandon, List.mem_append, List.mem_map]
  rcases hid with hid | hid
  · obtain ⟨p, hp, rfl⟩ := List.mem_map.mp hid
    exact Or.inl (Or.inr ⟨p, hp, rfl⟩)
  · exact Or.inr ⟨id, hid, rfl⟩

theorem letThrough_up (fuel : Nat) (s : St) : (letThrough fuel s).up = s.up := by
  obtain ⟨_, _, _, h3, _⟩ := letThrough_spec fuel s; exact h3

theorem deliverResp_cases (s : St) (x : Nat) :
    (s.inflight = [] ∧ deliverResp s x = abandon s none) ∨ (deliverResp s x).up = s.up := by
  unfold deliverResp
  split
  · rename_i hq; exact Or.inl ⟨hq, rfl⟩
  · right; rw [letThrough_up]

theorem earliest_ge (l : List Pending) (d t : Time) (h : earliest l = some d) (hl : ∀ p ∈ l, t ≤ p.deadline) :
    t ≤ d := by
  induction l generalizing d with
  | nil => simp [earliest] at h
  | cons p ps ih =>
    simp only [earliest] at h
    have hp := hl p (by simp)
    split at h
    · cases h; exact hp
    · rename_i t' ht'
      cases h
      have := ih t' ht' (fun q hq => hl q (by simp [hq]))
      unfold Time at *
      omega

/-- whatever the event, if it takes the connection down then nothing is left outstanding: every request that was
    in flight or waiting has failed, with a disconnection error (or its own cancellation), by the end of the step -/
theorem C08_loss_is_total (s : St) (e : Ev) (hup : s.up = true) (hdown : (step s e).up = false) :
    (step s e).inflight = [] ∧ (step s e).waiting = [] ∧ (step s e).part = none ∧
    ∀ id, (id ∈ s.inflight.map (·.id) ∨ id ∈ s.waiting) →
      ∃ o t, Obs.done id o t ∈ (step s e).obs ∧ (o = .disconnected ∨ o = .cancelled) ∧ t ≤ (step s e).now := by
  -- every way down goes through `abandon` of a state with the same queues
  have key : ∀ (s0 : St) (c : Option ReqId) (n : Time), s0.inflight = s.inflight → s0.waiting = s.waiting →
      s0.now ≤ n →
      ({ abandon s0 c with now := n } : St).inflight = [] ∧ ({ abandon s0 c with now := n } : St).waiting = [] ∧
      ({ abandon s0 c with now := n } : St).part = none ∧
      ∀ id, (id ∈ s.inflight.map (·.id) ∨ id ∈ s.waiting) →
        ∃ o t, Obs.done id o t ∈ ({ abandon s0 c with now := n } : St).obs ∧
          (o = .disconnected ∨ o = .cancelled) ∧ t ≤ ({ abandon s0 c with now := n } : St).now := by
    intro s0 c n h1 h2 hn
    refine ⟨rfl, rfl, rfl, ?_⟩
    intro id hid
    have := (C08_abandon_fails_all s0 c).2.2.2.2 id (by rw [h1, h2]; exact hid)
    refine ⟨_, s0.now, this, ?_, hn⟩
    split <;> simp
  have same : ∀ s0 : St, ({ abandon s0 none with now := (abandon s0 none).now } : St) = abandon s0 none := fun _ => rfl
  cases e with
  | req id =>
    exfalso
    simp only [step, hup, Bool.not_true, Bool.false_eq_true, if_false] at hdown
    rw [letThrough_up] at hdown; simp [hup] at hdown
  | resp x =>
    by_cases hp : s.part.isSome = true
    · exfalso; simp [step, hp, hup] at hdown
    · have hs : step s (.resp x) = deliverResp s x := by simp [step, hup, hp]
      rw [hs] at hdown ⊢
      rcases deliverResp_cases s x with ⟨_, h⟩ | h
      · rw [h]; exact key s none s.now rfl rfl (Nat.le_refl _)
      · rw [h, hup] at hdown; cases hdown
  | event x =>
    exfalso
    have := (C08_event_never_consumed s x).2.2.1
    rw [this, hup] at hdown; cases hdown
  | half p =>
    exfalso
    simp only [step] at hdown
    split at hdown <;> simp [hup] at hdown
  | rest =>
    cases hp : s.part with
    | none => exfalso; simp [step, hup, hp] at hdown
    | some pt =>
      cases pt with
      | event x => exfalso; simp [step, hup, hp, emit] at hdown
      | resp x =>
        have hs : step s .rest = deliverResp { s with part := none } x := by simp [step, hup, hp]
        rw [hs] at hdown ⊢
        rcases deliverResp_cases { s with part := none } x with ⟨_, h⟩ | h
        · rw [h]; exact key { s with part := none } none s.now rfl rfl (Nat.le_refl _)
        · rw [h] at hdown; simp [hup] at hdown
  | cancel id =>
    by_cases hin : (s.inflight.any (·.id = id)) = true
    · have hs : step s (.cancel id) = abandon s (some id) := by simp only [step]; rw [if_pos hin]
      rw [hs]; exact key s (some id) s.now rfl rfl (Nat.le_refl _)
    · exfalso
      simp only [step] at hdown
      rw [if_neg hin] at hdown
      split at hdown <;> simp [hup] at hdown
  | adv dt =>
    cases hd : earliest s.inflight with
    | none => exfalso; simp [step, hd, hup] at hdown
    | some d =>
      by_cases hle : d ≤ s.now + dt
      · have hs : step s (.adv dt) = { abandon { s with now := d } none with now := s.now + dt } := by
          simp only [step, hd]; rw [if_pos hle]
        rw [hs]; exact key { s with now := d } none (s.now + dt) rfl rfl hle
      · exfalso; simp only [step, hd] at hdown; rw [if_neg hle] at hdown; simp [hup] at hdown
  | peerClose =>
    have hs : step s .peerClose = abandon s none := by simp [step, hup]
    rw [hs]; exact key s none s.now rfl rfl (Nat.le_refl _)
  | reconnect =>
    exfalso
    simp [step, hup] at hdown

/-! ## an abandoned connection stays silent -/

/-- once the connection is down, nothing the accessory still sends on it has any effect - no request can receive
    a stale response - and a new request fails at once with a disconnection error -/
theorem C08_down_ignores_data (s : St) (hdown : s.up = false) (x : Nat) (p : Part) (id : ReqId) :
    step s (.resp x) = s ∧ step s (.event x) = s ∧ step s (.half p) = s ∧ step s .rest = s ∧
    step s .peerClose = s ∧
    step s (.req id) = emit s [.done id .disconnected s.now] := by
  simp [step, hdown]

/-! ## invariants of every reachable state -/

structure Inv (s : St) : Prop where
  down : s.up = false → s.inflight = [] ∧ s.waiting = [] ∧ s.part = none
  cap : s.inflight.length ≤ s.limit
  full : s.waiting ≠ [] → s.limit ≤ s.inflight.length
  dl : ∀ p ∈ s.inflight, s.now ≤ p.deadline ∧ p.deadline ≤ s.now + requestTimeout

theorem letThrough_inv (fuel : Nat) (s : St) (hcap : s.inflight.length ≤ s.limit)
    (hdl : ∀ p ∈ s.inflight, s.now ≤ p.deadline ∧ p.deadline ≤ s.now + requestTimeout) :
    (letThrough fuel s).inflight.length ≤ (letThrough fuel s).limit ∧
    (∀ p ∈ (letThrough fuel s).inflight, (letThrough fuel s).now ≤ p.deadline ∧
      p.deadline ≤ (letThrough fuel s).now + requestTimeout) := by
  induction fuel generalizing s with
  | zero => exact ⟨hcap, hdl⟩
  | succ n ih =>
    simp only [letThrough]
    split
    · exact ⟨hcap, hdl⟩
    · rename_i k ks hw
      split
      · rename_i hlt
        apply ih
        · simp; omega
        · intro p hp
          simp only [List.mem_append, List.mem_singleton] at hp
          rcases hp with hp | rfl
          · exact hdl p hp
          · simp
      · exact ⟨hcap, hdl⟩

/-- with enough fuel, nobody is left waiting while there is room -/
theorem letThrough_full (fuel : Nat) (s : St) (hfuel : s.waiting.length ≤ fuel) :
    (letThrough fuel s).waiting ≠ [] → (letThrough fuel s).limit ≤ (letThrough fuel s).inflight.length := by
  induction fuel generalizing s with
  | zero =>
    intro h
    have : s.waiting = [] := List.length_eq_zero_iff.mp (Nat.le_zero.mp hfuel)
    simp [letThrough, this] at h
  | succ n ih =>
    simp only [letThrough]
    split
    · rename_i hw; intro h; exact absurd hw h
    · rename_i k ks hw
      split
      · apply ih
        simp [hw] at hfuel
        exact hfuel
      · rename_i hlt; intro _; omega

theorem earliest_le (l : List Pending) (d : Time) (h : earliest l = some d) : ∀ p ∈ l, d ≤ p.deadline := by
  induction l generalizing d with
  | nil => intro p hp; cases hp
  | cons q qs ih =>
    intro p hp
    simp only [earliest] at h
    split at h
    · rename_i hn
      cases h
      rcases List.mem_cons.mp hp with rfl | hp
      · exact Nat.le_refl _
      · cases qs with
        | nil => cases hp
        | cons r rs => simp only [earliest] at hn; split at hn <;> cases hn
    · rename_i t ht
      cases h
      rcases List.mem_cons.mp hp with rfl | hp
      · exact Nat.min_le_left _ _
      · exact Nat.le_trans (Nat.min_le_right _ _) (ih t ht p hp)

theorem earliest_none (l : List Pending) (h : earliest l = none) : l = [] := by
  cases l with
  | nil => rfl
  | cons q qs => simp only [earliest] at h; split at h <;> cases h

theorem abandon_inv (s : St) (c : Option ReqId) (n : Time) (hl : 0 ≤ s.limit) :
    Inv ({ abandon s c with now := n } : St) :=
  ⟨fun _ => ⟨rfl, rfl, rfl⟩, Nat.zero_le _, fun h => absurd rfl h, fun p hp => by cases hp⟩

theorem deliverResp_inv (s : St) (x : Nat) (h : Inv s) (hup : s.up = true) : Inv (deliverResp s x) := by
  unfold deliverResp
  split
  · exact abandon_inv s none s.now (Nat.zero_le _)
  · rename_i p ps hq
    have hcap : ps.length ≤ s.limit := by have := h.cap; rw [hq] at this; simp at this; omega
    have hdl : ∀ q ∈ ps, s.now ≤ q.deadline ∧ q.deadline ≤ s.now + requestTimeout :=
      fun q hq' => h.dl q (by rw [hq]; simp [hq'])
    obtain ⟨_, _, _, h3, h4, h5, h6, _⟩ := letThrough_spec (s.waiting.length + 1)
      { s with inflight := ps, obs := s.obs ++ [.done p.id (.ok x) s.now] }
    have ha := letThrough_inv (s.waiting.length + 1)
      { s with inflight := ps, obs := s.obs ++ [.done p.id (.ok x) s.now] } hcap hdl
    have hf := letThrough_full (s.waiting.length + 1)
      { s with inflight := ps, obs := s.obs ++ [.done p.id (.ok x) s.now] } (by simp)
    exact ⟨fun hd => by rw [h3] at hd; simp [hup] at hd, ha.1, hf, ha.2⟩

theorem step_inv (s : St) (e : Ev) (h : Inv s) : Inv (step s e) := by
  cases e with
  | req id =>
    simp only [step]
    split
    · exact ⟨h.down, h.cap, h.full, h.dl⟩
    · rename_i hup
      have hup : s.up = true := by simpa using hup
      obtain ⟨_, _, _, h3, _⟩ := letThrough_spec 1 { s with waiting := s.waiting ++ [id] }
      have ha := letThrough_inv 1 { s with waiting := s.waiting ++ [id] } h.cap h.dl
      refine ⟨fun hd => by rw [h3] at hd; simp [hup] at hd, ha.1, ?_, ha.2⟩
      by_cases hw : s.waiting = []
      · exact letThrough_full 1 { s with waiting := s.waiting ++ [id] } (by simp [hw])
      · have hfull := h.full hw
        have hcap := h.cap
        intro _
        have : letThrough 1 { s with waiting := s.waiting ++ [id] } = { s with waiting := s.waiting ++ [id] } := by
          simp only [letThrough]
          split
          · rfl
          · split
            · rename_i hlt; exfalso; have hlt' : s.inflight.length < s.limit := hlt; omega
            · rfl
        rw [this]; exact hfull
  | resp x =>
    simp only [step]
    split
    · exact h
    · rename_i hc
      simp only [Bool.or_eq_true, Bool.not_eq_true', not_or, Bool.not_eq_false] at hc
      exact deliverResp_inv s x h hc.1
  | event x =>
    simp only [step]
    split
    · exact h
    · exact ⟨h.down, h.cap, h.full, h.dl⟩
  | half p =>
    simp only [step]
    split
    · exact h
    · rename_i hc
      simp only [Bool.or_eq_true, Bool.not_eq_true', not_or, Bool.not_eq_false] at hc
      exact ⟨fun hd => by simp [hc.1] at hd, h.cap, h.full, h.dl⟩
  | rest =>
    simp only [step]
    split
    · exact h
    · rename_i hup
      have hup : s.up = true := by simpa using hup
      split
      · exact h
      · rename_i x hp
        exact deliverResp_inv { s with part := none } x
          ⟨fun hd => by simp [hup] at hd, h.cap, h.full, h.dl⟩ hup
      · exact ⟨fun hd => by simp [emit, hup] at hd, h.cap, h.full, h.dl⟩
  | cancel id =>
    simp only [step]
    split
    · exact abandon_inv s (some id) s.now (Nat.zero_le _)
    · split
      · refine ⟨fun hd => ?_, h.cap, ?_, h.dl⟩
        · have := h.down hd; simp [this.1, this.2.1, this.2.2]
        · intro hne
          apply h.full
          intro hw; apply hne; simp [hw]
      · exact h
  | adv dt =>
    simp only [step]
    split
    · rename_i d hd
      split
      · exact abandon_inv { s with now := d } none (s.now + dt) (Nat.zero_le _)
      · rename_i hle
        refine ⟨h.down, h.cap, h.full, ?_⟩
        intro p hp
        have h1 := earliest_le s.inflight d hd p hp
        have h2 := h.dl p hp
        simp only
        unfold Time at *
        constructor <;> omega
    · rename_i hd
      have := earliest_none s.inflight hd
      refine ⟨h.down, h.cap, h.full, ?_⟩
      intro p hp; rw [this] at hp; cases hp
  | peerClose =>
    simp only [step]
    split
    · exact abandon_inv s none s.now (Nat.zero_le _)
    · exact h
  | reconnect =>
    simp only [step]
    split
    · exact h
    · rename_i hup
      have hd := h.down (by simpa using hup)
      exact ⟨fun hx => by simp at hx, by simp [hd.1], by simp [hd.2.1], by simp [hd.1]⟩

theorem run_inv (limit : Nat) (evs : List Ev) : Inv (run (init limit) evs) := by
  have : ∀ s, Inv s → Inv (run s evs) := by
    induction evs with
    | nil => intro s h; exact h
    | cons e es ih => intro s h; exact ih _ (step_inv s e h)
  exact this _ ⟨fun h => by simp [init] at h, by simp [init], by simp [init], by simp [init]⟩

/-- in every reachable state: a dead connection has nothing outstanding and no half-received message; the
    number of requests in flight respects the concurrency limit, and callers wait only when it is reached;
    no request in flight is overdue, and each times out at most 30 s after it was sent -/
theorem C08_invariant (limit : Nat) (evs : List Ev) : Inv (run (init limit) evs) := run_inv limit evs

/-- a request in flight whose 30 s have passed cannot survive time advancing past its deadline -/
theorem C08_timeout_fires (limit : Nat) (evs : List Ev) (dt : Nat) :
    ∀ p ∈ (step (run (init limit) evs) (.adv dt)).inflight,
      (run (init limit) evs).now + dt < p.deadline := by
  intro p hp
  generalize run (init limit) evs = s at *
  simp only [step] at hp
  split at hp
  · rename_i d hd
    split at hp
    · cases hp
    · rename_i hle
      have := earliest_le s.inflight d hd p hp
      unfold Time at *
      omega
  · rename_i hd
    rw [earliest_none s.inflight hd] at hp; cases hp

/-! ## each request completes at most once -/

/-- ids of the requests that are outstanding (in flight, then waiting) -/
def outIds (s : St) : List ReqId := s.inflight.map (·.id) ++ s.waiting

def doneId : Obs → Option ReqId
  | .done id _ _ => some id
  | _ => none

/-- ids of the requests that have completed, in completion order -/
def doneIds (s : St) : List ReqId := s.obs.filterMap doneId

/-- how often `j` occurs among outstanding and completed requests -/
def cnt (s : St) (j : ReqId) : Nat := (outIds s).count j + (doneIds s).count j

theorem letThrough_ids (fuel : Nat) (s : St) : outIds (letThrough fuel s) = outIds s ∧ doneIds (letThrough fuel s) = doneIds s := by
  induction fuel generalizing s with
  | zero => exact ⟨rfl, rfl⟩
  | succ n ih =>
    simp only [letThrough]
    split
    · exact ⟨rfl, rfl⟩
    · rename_i k ks hw
      split
      · obtain ⟨h1, h2⟩ := ih { s with waiting := ks, inflight := s.inflight ++ [⟨k, s.now + requestTimeout⟩],
                                         obs := s.obs ++ [.sent k s.epoch] }
        rw [h1, h2]
        constructor
        · simp [outIds, hw]
        · simp [doneIds, List.filterMap_append, doneId]
      · exact ⟨rfl, rfl⟩

theorem count_filter_ne_self (l : List Nat) (id : Nat) : (l.filter (· ≠ id)).count id = 0 := by
  induction l with
  | nil => rfl
  | cons a as ih => by_cases h : a = id <;> simp_all [List.filter_cons, List.count_cons]

theorem count_filter_ne_other (l : List Nat) (id j : Nat) (h : id ≠ j) :
    (l.filter (· ≠ id)).count j = l.count j := by
  induction l with
  | nil => rfl
  | cons a as ih => by_cases ha : a = id <;> simp_all [List.filter_cons, List.count_cons]

theorem fm_inflight (l : List Pending) (f : ReqId → Outcome) (t : Nat) :
    (List.filterMap doneId (l.map (fun p => Obs.done p.id (f p.id) t))) = l.map (·.id) := by
  induction l with
  | nil => rfl
  | cons a as ih => simp [doneId, ih]

theorem fm_waiting (l : List ReqId) (f : ReqId → Outcome) (t : Nat) :
    (List.filterMap doneId (l.map (fun id => Obs.done id (f id) t))) = l := by
  induction l with
  | nil => rfl
  | cons a as ih => simp [doneId, ih]

theorem abandon_cnt (s : St) (c : Option ReqId) (n : Time) (j : ReqId) :
    cnt ({ abandon s c with now := n } : St) j = cnt s j := by
  simp only [cnt, outIds, doneIds, abandon, List.map_nil, List.append_nil, List.count_nil, Nat.zero_add,
    List.filterMap_append, List.count_append]
  rw [fm_inflight s.inflight (fun id => if c = some id then .cancelled else .disconnected),
      fm_waiting s.waiting (fun id => if c = some id then .cancelled else .disconnected)]
  have : List.filterMap doneId [Obs.lost s.epoch s.now] = [] := rfl
  rw [this]
  simp only [List.count_nil]
  omega

theorem abandon_cnt' (s : St) (c : Option ReqId) (j : ReqId) : cnt (abandon s c) j = cnt s j :=
  abandon_cnt s c s.now j

theorem deliverResp_cnt (s : St) (x : Nat) (j : ReqId) : cnt (deliverResp s x) j = cnt s j := by
  unfold deliverResp
  split
  · exact abandon_cnt' s none j
  · rename_i p ps hq
    obtain ⟨h1, h2⟩ := letThrough_ids (s.waiting.length + 1)
      { s with inflight := ps, obs := s.obs ++ [.done p.id (.ok x) s.now] }
    simp only [cnt, h1, h2]
    have : List.filterMap doneId [Obs.done p.id (Outcome.ok x) s.now] = [p.id] := rfl
    simp only [outIds, doneIds, hq, List.map_cons, List.cons_append, List.filterMap_append, List.count_append,
      List.count_cons, this, List.count_nil]
    omega

theorem cnt_same (s s' : St) (j : ReqId) (h1 : s'.inflight = s.inflight) (h2 : s'.waiting = s.waiting)
    (h3 : doneIds s' = doneIds s) : cnt s' j = cnt s j := by
  simp only [cnt, outIds, h1, h2, h3]

/-- no step other than issuing request `j` increases the number of occurrences of `j`; issuing it adds one -/
theorem step_cnt (s : St) (e : Ev) (j : ReqId) :
    cnt (step s e) j ≤ cnt s j + (if e = .req j then 1 else 0) := by
  have hev : ∀ (s0 : St) (x : Nat), doneIds (emit s0 [.event x]) = doneIds s0 := by
    intro s0 x
    have : List.filterMap doneId [Obs.event x] = [] := rfl
    simp [doneIds, emit, List.filterMap_append, this]
  cases e with
  | req id =>
    have hne : id ≠ j → ¬ (Ev.req id = Ev.req j) := fun h hh => by cases hh; exact h rfl
    simp only [step]
    split
    · have : List.filterMap doneId [Obs.done id Outcome.disconnected s.now] = [id] := rfl
      simp only [cnt, outIds, doneIds, emit, List.filterMap_append, List.count_append, this,
        List.count_cons, List.count_nil]
      by_cases h : id = j
      · subst h; simp; omega
      · simp [hne h, h]
    · obtain ⟨h1, h2⟩ := letThrough_ids 1 { s with waiting := s.waiting ++ [id] }
      simp only [cnt, h1, h2]
      simp only [outIds, doneIds, List.count_append, List.count_cons, List.count_nil]
      by_cases h : id = j
      · subst h; simp; omega
      · simp [hne h, h]
  | resp x =>
    simp only [step]
    split
    · simp
    · rw [deliverResp_cnt]; simp
  | event x =>
    simp only [step]
    split
    · simp
    · rw [cnt_same s (emit s [.event x]) j rfl rfl (hev s x)]; simp
  | half p =>
    simp only [step]
    split
    · simp
    · exact Nat.le_trans (Nat.le_of_eq (cnt_same s _ j rfl rfl rfl)) (Nat.le_add_right _ _)
  | rest =>
    simp only [step]
    split
    · simp
    · split
      · simp
      · rw [deliverResp_cnt]; exact Nat.le_trans (Nat.le_of_eq (cnt_same s _ j rfl rfl rfl)) (Nat.le_add_right _ _)
      · rename_i x hp
        rw [cnt_same s (emit { s with part := none } [.event x]) j rfl rfl (hev _ x)]; simp
  | cancel id =>
    simp only [step]
    split
    · rw [abandon_cnt']; simp
    · split
      · rename_i hin
        have hin' : id ∈ s.waiting := by simpa using hin
        have hd : List.filterMap doneId [Obs.done id Outcome.cancelled s.now] = [id] := rfl
        simp only [cnt, outIds, doneIds, List.count_append, List.filterMap_append, hd, List.count_cons,
          List.count_nil]
        by_cases h : id = j
        · subst h
          have h0 := count_filter_ne_self s.waiting id
          have h1 : 0 < s.waiting.count id := List.count_pos_iff.mpr hin'
          rw [h0]; simp; omega
        · have h2 := count_filter_ne_other s.waiting id j h
          rw [h2]; simp [h]
      · simp
  | adv dt =>
    simp only [step]
    split
    · split
      · rw [abandon_cnt]; exact Nat.le_trans (Nat.le_of_eq (cnt_same s _ j rfl rfl rfl)) (Nat.le_add_right _ _)
      · exact Nat.le_trans (Nat.le_of_eq (cnt_same s _ j rfl rfl rfl)) (Nat.le_add_right _ _)
    · exact Nat.le_trans (Nat.le_of_eq (cnt_same s _ j rfl rfl rfl)) (Nat.le_add_right _ _)
  | peerClose =>
    simp only [step]
    split
    · rw [abandon_cnt']; simp
    · simp
  | reconnect =>
    simp only [step]
    split
    · simp
    · exact Nat.le_trans (Nat.le_of_eq (cnt_same s _ j rfl rfl rfl)) (Nat.le_add_right _ _)

/-- the number of times `id` is issued in a history -/
def issued (evs : List Ev) (id : ReqId) : Nat := evs.count (.req id)

theorem run_cnt (s : St) (evs : List Ev) (j : ReqId) : cnt (run s evs) j ≤ cnt s j + issued evs j := by
  induction evs generalizing s with
  | nil => simp [run, issued]
  | cons e es ih =>
    have h1 := ih (step s e)
    have h2 := step_cnt s e j
    simp only [run, List.foldl_cons] at h1 ⊢
    simp only [issued, List.count_cons] at h1 ⊢
    by_cases h : e = .req j
    · subst h; simp at h2 ⊢; omega
    · have : (e == Ev.req j) = false := by simpa using h
      simp [h, this] at h2 ⊢; omega

/-- if every caller uses its own request id, no request ever completes twice, and a completed request is no
    longer outstanding -/
theorem C08_at_most_once (limit : Nat) (evs : List Ev) (hfresh : ∀ id, issued evs id ≤ 1) (id : ReqId) :
    (doneIds (run (init limit) evs)).count id ≤ 1 ∧
    ((doneIds (run (init limit) evs)).count id = 1 → id ∉ outIds (run (init limit) evs)) := by
  have h := run_cnt (init limit) evs id
  have h0 : cnt (init limit) id = 0 := by simp [cnt, outIds, doneIds, init]
  have := hfresh id
  simp only [cnt] at h h0
  constructor
  · omega
  · intro h1 hm
    have : 0 < (outIds (run (init limit) evs)).count id := List.count_pos_iff.mpr hm
    omega

/-! ## attribution over whole histories -/

/-- the accessory answers in order: a response it starts to send is the one for the oldest request it has
    received on this connection and not yet answered -/
def answersInOrder (s : St) : Ev → Bool
  | .resp x => match s.inflight with
    | [] => true            -- nothing outstanding: an unsolicited response (the connection is abandoned)
    | p :: _ => x == p.id
  | .half (.resp x) => match s.inflight with
    | [] => false
    | p :: _ => x == p.id
  | _ => true

def InOrder : St → List Ev → Bool
  | _, [] => true
  | s, e :: es => answersInOrder s e && InOrder (step s e) es

theorem resp_in_order (s : St) (x : Nat) (h : answersInOrder s (.resp x) = true) :
    ∀ p ps, s.inflight = p :: ps → x = p.id := by
  intro p ps hq
  simp only [answersInOrder, hq] at h
  simpa using h

theorem half_in_order (s : St) (x : Nat) (h : answersInOrder s (.half (.resp x)) = true) :
    ∃ p ps, s.inflight = p :: ps ∧ x = p.id := by
  simp only [answersInOrder] at h
  split at h
  · cases h
  · rename_i p ps hq
    exact ⟨p, ps, hq, by simpa using h⟩

structure AInv (s : St) : Prop where
  part : ∀ x, s.part = some (.resp x) → ∃ p ps, s.inflight = p :: ps ∧ x = p.id
  oks : ∀ id x t, Obs.done id (.ok x) t ∈ s.obs → x = id

theorem not_ok_of_sent (o : Obs) (h : isSent o) : ∀ id x t, o ≠ .done id (.ok x) t := by
  intro id x t heq; subst heq; exact h

theorem letThrough_ainv (fuel : Nat) (s : St) (h : AInv s) : AInv (letThrough fuel s) := by
  obtain ⟨sents, h1, h2, h3, h4, h5, h6, h7, moved, h8, h9⟩ := letThrough_spec fuel s
  constructor
  · intro x hx
    rw [h5] at hx
    obtain ⟨p, ps, hq, hid⟩ := h.part x hx
    exact ⟨p, ps ++ moved.map (fun k => ⟨k, s.now + requestTimeout⟩), by rw [h9, hq]; rfl, hid⟩
  · intro id x t hm
    rw [h1] at hm
    rcases List.mem_append.mp hm with hm | hm
    · exact h.oks id x t hm
    · exact absurd rfl (not_ok_of_sent _ (h2 _ hm) id x t)

theorem abandon_ainv (s : St) (c : Option ReqId) (n : Time) (h : AInv s) :
    AInv ({ abandon s c with now := n } : St) := by
  constructor
  · intro x hx; simp [abandon] at hx
  · intro id x t hm
    simp only [abandon, List.mem_append, List.mem_map, List.mem_singleton] at hm
    rcases hm with ((hm | hm) | ⟨p, _, hm⟩) | ⟨k, _, hm⟩
    · exact h.oks id x t hm
    · cases hm
    · split at hm <;> cases hm
    · split at hm <;> cases hm

theorem deliverResp_ainv (s : St) (x : Nat) (h : AInv s) (hp : s.part = none)
    (hx : ∀ p ps, s.inflight = p :: ps → x = p.id) : AInv (deliverResp s x) := by
  unfold deliverResp
  split
  · exact abandon_ainv s none s.now h
  · rename_i p ps hq
    apply letThrough_ainv
    constructor
    · intro y hy; simp [hp] at hy
    · intro id y t hm
      simp only [List.mem_append, List.mem_singleton] at hm
      rcases hm with hm | hm
      · exact h.oks id y t hm
      · cases hm
        exact hx p ps hq

theorem step_ainv (s : St) (e : Ev) (h : AInv s) (ho : answersInOrder s e = true) : AInv (step s e) := by
  cases e with
  | req id =>
    simp only [step]
    split
    · refine ⟨h.part, ?_⟩
      intro id' x t hm
      simp only [emit, List.mem_append, List.mem_singleton] at hm
      rcases hm with hm | hm
      · exact h.oks id' x t hm
      · cases hm
    · exact letThrough_ainv 1 _ ⟨h.part, h.oks⟩
  | resp x =>
    simp only [step]
    split
    · exact h
    · rename_i hc
      simp only [Bool.or_eq_true, Bool.not_eq_true', not_or, Bool.not_eq_false] at hc
      have hp : s.part = none := by
        cases hx : s.part with
        | none => rfl
        | some _ => simp [hx] at hc
      exact deliverResp_ainv s x h hp (resp_in_order s x ho)
  | event x =>
    simp only [step]
    split
    · exact h
    · refine ⟨h.part, ?_⟩
      intro id y t hm
      simp only [emit, List.mem_append, List.mem_singleton] at hm
      rcases hm with hm | hm
      · exact h.oks id y t hm
      · cases hm
  | half p =>
    simp only [step]
    split
    · exact h
    · refine ⟨?_, h.oks⟩
      intro x hx
      simp only [Option.some.injEq] at hx
      subst hx
      exact half_in_order s x ho
  | rest =>
    simp only [step]
    split
    · exact h
    · split
      · exact h
      · rename_i x hp
        obtain ⟨p, ps, hq, hid⟩ := h.part x hp
        refine deliverResp_ainv { s with part := none } x ⟨by intro y hy; simp at hy, h.oks⟩ rfl ?_
        intro p' ps' hq'
        simp only at hq'
        rw [hq] at hq'
        cases hq'
        exact hid
      · refine ⟨by intro y hy; simp [emit] at hy, ?_⟩
        intro id y t hm
        simp only [emit, List.mem_append, List.mem_singleton] at hm
        rcases hm with hm | hm
        · exact h.oks id y t hm
        · cases hm
  | cancel id =>
    simp only [step]
    split
    · exact abandon_ainv s (some id) s.now h
    · split
      · refine ⟨h.part, ?_⟩
        intro id' y t hm
        simp only [List.mem_append, List.mem_singleton] at hm
        rcases hm with hm | hm
        · exact h.oks id' y t hm
        · cases hm
      · exact h
  | adv dt =>
    simp only [step]
    split
    · split
      · exact abandon_ainv { s with now := _ } none (s.now + dt) ⟨h.part, h.oks⟩
      · exact ⟨h.part, h.oks⟩
    · exact ⟨h.part, h.oks⟩
  | peerClose =>
    simp only [step]
    split
    · exact abandon_ainv s none s.now h
    · exact h
  | reconnect =>
    simp only [step]
    split
    · exact h
    · exact ⟨h.part, h.oks⟩

/-- **Attribution over whole histories.**  If the accessory answers in order, then in every history - any
    interleaving of requests, events, split messages, cancellations, timeouts, closes and reconnections - every
    request that completes with a response completes with the response that was sent for it -/
theorem C08_history_attribution (limit : Nat) (evs : List Ev) (h : InOrder (init limit) evs = true) :
    ∀ id x t, Obs.done id (.ok x) t ∈ (run (init limit) evs).obs → x = id := by
  have key : ∀ (l : List Ev) (s : St), AInv s → InOrder s l = true → AInv (run s l) := by
    intro l
    induction l with
    | nil => intro s hs _; exact hs
    | cons e es ih =>
      intro s hs ho
      simp only [InOrder, Bool.and_eq_true] at ho
      exact ih _ (step_ainv s e hs ho.1) ho.2
  exact (key evs _ ⟨by intro x hx; simp [init] at hx, by intro id x t hm; simp [init] at hm⟩ h).oks

/-- non-vacuity: the premise is met by a history with concurrent callers, an event and a split response -/
example : InOrder (init 2) [.req 1, .req 2, .event 7, .half (.resp 1), .req 3, .rest, .resp 2, .resp 3] = true := by
  decide +kernel


/-- non-vacuity: two callers on a connection with limit 1; an event between request and response; the first
    response completes caller 1, caller 2 is then sent; its timeout abandons the connection; a late response is
    ignored and a third request fails at once -/
example :
    (run (init 1) [.req 1, .req 2, .event 7, .resp 101, .adv (31 * 8192), .resp 102, .req 3]).obs =
    [.sent 1 0, .event 7, .done 1 (.ok 101) 0, .sent 2 0, .lost 0 245760, .done 2 .disconnected 245760,
     .done 3 .disconnected 253952] := by decide +kernel

end HapVerif.ReqConn

/-! ## Inside one loop iteration (`ReqConn.Micro`): position-based attribution survives cancellations that have not
been cleaned up yet -/

namespace HapVerif.ReqConn.Micro

/-- the invariant of the micro-step automaton -/
structure MInv (s : St) : Prop where
  idxs : s.fifo.map (·.idx) = List.range' s.nResp s.fifo.length
  count : s.up = true → s.nWritten = s.nResp + s.fifo.length
  fifoWrote : ∀ e ∈ s.fifo, (e.id, e.idx) ∈ s.wrote
  pendWrote : ∀ p ∈ s.pendingDone, p ∈ s.wrote
  logWrote : ∀ id k, (id, Outcome.ok k) ∈ s.log → (id, k) ∈ s.wrote
  wroteIdx : s.wrote.map (·.2) = List.range s.nWritten

theorem MInv_init : MInv {} := ⟨rfl, fun _ => rfl, by simp, by simp, by simp, rfl⟩

theorem settle_inv (s : St) (h : MInv s) : MInv (settle s) := by
  obtain ⟨h1, h2, h3, h4, h5, h6⟩ := h
  unfold settle
  simp only
  split
  · refine ⟨by simp, by simp, by simp, by simp, ?_, h6⟩
    intro id k hm
    simp only [List.mem_append, List.mem_map, Prod.mk.injEq] at hm
    rcases hm with (((hm | hm) | hm) | hm) | hm
    · exact h5 id k hm
    · obtain ⟨p, hp, rfl, hk⟩ := hm
      cases hk
      exact h4 p hp
    · obtain ⟨_, _, _, hk⟩ := hm; cases hk
    · obtain ⟨_, _, _, hk⟩ := hm; cases hk
    · obtain ⟨_, _, _, hk⟩ := hm; cases hk
  · refine ⟨h1, h2, h3, by simp, ?_, h6⟩
    intro id k hm
    simp only [List.mem_append, List.mem_map, Prod.mk.injEq] at hm
    rcases hm with hm | hm
    · exact h5 id k hm
    · obtain ⟨p, hp, rfl, hk⟩ := hm
      cases hk
      exact h4 p hp

theorem step_inv (s : St) (e : Ev) (h : MInv s) : MInv (step s e) := by
  cases e with
  | tick => exact settle_inv s h
  | write id =>
    have hs := settle_inv s h
    simp only [step]
    generalize settle s = s' at hs
    obtain ⟨h1, h2, h3, h4, h5, h6⟩ := hs
    split
    · rename_i hup
      have hc := h2 hup
      refine ⟨?_, ?_, ?_, ?_, ?_, ?_⟩
      · simp only [List.map_append, List.map_cons, List.map_nil, List.length_append, List.length_cons, List.length_nil]
        rw [h1, hc]
        simp [List.range'_concat]
      · intro _; simp only [List.length_append, List.length_cons, List.length_nil]; omega
      · intro e he
        simp only [List.mem_append, List.mem_singleton] at he
        rcases he with he | rfl
        · exact List.mem_append_left _ (h3 e he)
        · simp
      · intro p hp; exact List.mem_append_left _ (h4 p hp)
      · intro i k hm; exact List.mem_append_left _ (h5 i k hm)
      · simp only [List.map_append, List.map_cons, List.map_nil, h6]
        exact (List.range_succ (n := s'.nWritten)).symm
    · refine ⟨h1, h2, h3, h4, ?_, h6⟩
      intro i k hm
      simp only [List.mem_append, List.mem_singleton, Prod.mk.injEq] at hm
      rcases hm with hm | ⟨_, hk⟩
      · exact h5 i k hm
      · cases hk
  | deliver =>
    obtain ⟨h1, h2, h3, h4, h5, h6⟩ := h
    simp only [step]
    split
    · exact ⟨h1, h2, h3, h4, h5, h6⟩
    · split
      · rename_i hf
        refine ⟨by simp [hf], by simp, by simp [hf], h4, h5, h6⟩
      · rename_i e rest hf
        rw [hf] at h1 h3
        simp only [List.map_cons, List.length_cons, List.range'_succ, List.cons.injEq] at h1
        have hcount : s.up = true → s.nWritten = s.nResp + 1 + rest.length := by
          intro hu; have := h2 hu; rw [hf] at this; simp only [List.length_cons] at this; omega
        split
        · refine ⟨h1.2, hcount, fun x hx => h3 x (List.mem_cons_of_mem _ hx), h4, h5, h6⟩
        · refine ⟨h1.2, hcount, fun x hx => h3 x (List.mem_cons_of_mem _ hx), ?_, h5, h6⟩
          intro p hp
          simp only [List.mem_append, List.mem_singleton] at hp
          rcases hp with hp | rfl
          · exact h4 p hp
          · have := h3 e (by simp)
            rw [h1.1] at this; exact this
  | giveUp id =>
    obtain ⟨h1, h2, h3, h4, h5, h6⟩ := h
    simp only [step]
    split
    · refine ⟨h1, h2, h3, ?_, h5, h6⟩
      intro p hp
      exact h4 p (List.mem_filter.mp hp).1
    · refine ⟨?_, ?_, ?_, h4, h5, h6⟩
      · show List.map (fun x : Entry => x.idx) (List.map _ s.fifo) = List.range' s.nResp (List.map _ s.fifo).length
        rw [List.length_map, ← h1, List.map_map]
        apply List.map_congr_left
        intro e _
        simp only [Function.comp]
        split <;> rfl
      · intro hu; rw [List.length_map]; exact h2 hu
      · intro e he
        simp only [List.mem_map] at he
        obtain ⟨e0, he0, rfl⟩ := he
        have := h3 e0 he0
        split <;> exact this

theorem run_inv (evs : List Ev) (s : St) (h : MInv s) : MInv (run s evs) := by
  induction evs generalizing s with
  | nil => exact h
  | cons e es ih => exact ih _ (step_inv s e h)

end HapVerif.ReqConn.Micro

namespace HapVerif.ReqConn
open Micro (MInv MInv_init settle Entry)

/-- **Position-based attribution, at every instant**: in every history of writes, reads, cancellations that have
    not been cleaned up yet and loop iterations, a caller that completes with the k-th response read on the connection
    is the caller whose request was the k-th written on it. -/
theorem C08_micro_position (evs : List Micro.Ev) (id k : Nat) (h : (id, Micro.Outcome.ok k) ∈ (Micro.run {} evs).log) :
    (id, k) ∈ (Micro.run {} evs).wrote :=
  (Micro.run_inv evs {} MInv_init).logWrote id k h

/-- the positions of the written requests are distinct, so **no caller ever completes with the response that was
    sent for another caller's request** - in particular not the caller next in line when the head has been
    cancelled and its response arrives before its task has closed the transport -/
theorem C08_micro_no_stale (evs : List Micro.Ev) (a b k : Nat) (ha : (a, k) ∈ (Micro.run {} evs).wrote)
    (hb : (b, Micro.Outcome.ok k) ∈ (Micro.run {} evs).log) : ∃ i j : Nat, (Micro.run {} evs).wrote[i]? = some (a, k) ∧
      (Micro.run {} evs).wrote[j]? = some (b, k) ∧ i = j := by
  have hinv := Micro.run_inv evs {} MInv_init
  have hb' := hinv.logWrote b k hb
  generalize Micro.run {} evs = s at *
  obtain ⟨i, hi⟩ := List.getElem?_of_mem ha
  obtain ⟨j, hj⟩ := List.getElem?_of_mem hb'
  refine ⟨i, j, hi, hj, ?_⟩
  have hmi : (s.wrote.map (·.2))[i]? = some k := by simp [List.getElem?_map, hi]
  have hmj : (s.wrote.map (·.2))[j]? = some k := by simp [List.getElem?_map, hj]
  rw [hinv.wroteIdx] at hmi hmj
  obtain ⟨_, hi2⟩ := List.getElem?_eq_some_iff.mp hmi
  obtain ⟨_, hj2⟩ := List.getElem?_eq_some_iff.mp hmj
  simp only [List.getElem_range] at hi2 hj2
  omega

/-- a response read while the head of the queue has already given up **completes nobody**: it is discarded, and
    the caller that gave up will close the transport when its task runs -/
theorem C08_micro_stale_response_dropped (s : Micro.St) (e : Entry) (rest : List Entry) (hup : s.up = true)
    (hf : s.fifo = e :: rest) (hg : e.gaveUp = true) :
    (Micro.step s .deliver).pendingDone = s.pendingDone ∧ (Micro.step s .deliver).log = s.log ∧
    (Micro.step s .deliver).fifo = rest ∧ e.id ∈ (Micro.step s .deliver).closers := by
  simp [Micro.step, hup, hf, hg]

/-- and once the loop runs, everything still waiting fails with a disconnection error and the transport is closed -/
theorem C08_micro_give_up_closes (s : Micro.St) (h : (s.fifo.filter (·.gaveUp)) ≠ [] ∨ s.closers ≠ []) :
    (settle s).up = false ∧ (settle s).fifo = [] ∧
    ∀ e ∈ s.fifo, e.gaveUp = false → (e.id, Micro.Outcome.disconnected) ∈ (settle s).log := by
  have hc : (!s.closers.isEmpty || !(s.fifo.filter (·.gaveUp)).isEmpty || !s.up) = true := by
    rcases h with h | h
    · have : (s.fifo.filter (·.gaveUp)).isEmpty = false := by simpa using h
      simp [this]
    · have : s.closers.isEmpty = false := by simpa using h
      simp [this]
  unfold settle
  simp only [hc, ↓reduceIte]
  refine ⟨trivial, trivial, ?_⟩
  intro e he hg
  simp only [List.mem_append, List.mem_map, List.mem_filter]
  right
  exact ⟨e, ⟨he, by simp [hg]⟩, rfl⟩

/-- non-vacuity, the schedule of a stale hand-over: A and B are written, A is cancelled, A's response is read in the
    same loop iteration: nobody completes with it, and when the loop runs A is cancelled and B fails -/
example : (Micro.run {} [.write 1, .write 2, .giveUp 1, .deliver, .tick]).log = [(1, .cancelled), (2, .disconnected)] := by
  decide

end HapVerif.ReqConn

/-! ## The request slot across a reconnection (`ReqConn.Queue`) -/

namespace HapVerif.ReqConn.Queue

/-- everything written so far went out on the connection it was issued on -/
def SentOk (s : St) : Prop := ∀ p ∈ s.sent, p.2.1 = p.2.2

theorem grant_sentOk (q : List (Nat × Nat)) (s : St) (h : SentOk s) : SentOk (grant true q s) := by
  induction q generalizing s with
  | nil => simpa [grant, SentOk] using h
  | cons a rest ih =>
    obtain ⟨id, issuedOn⟩ := a
    unfold grant
    by_cases hu : s.up = true
    · by_cases hc : issuedOn = s.conn
      · simp only [hu, Bool.not_true, Bool.false_eq_true, ↓reduceIte, Bool.true_and, hc, bne_self_eq_false]
        intro p hp
        simp only [List.mem_append, List.mem_singleton] at hp
        rcases hp with hp | rfl
        · exact h p hp
        · rfl
      · have : (issuedOn != s.conn) = true := by simpa using hc
        simp only [hu, Bool.not_true, Bool.false_eq_true, ↓reduceIte, Bool.true_and, this]
        exact ih _ (by simpa [SentOk] using h)
    · have hu' : s.up = false := by simpa using hu
      simp only [hu', Bool.not_false, ↓reduceIte]
      exact ih _ (by simpa [SentOk] using h)

theorem settle_sentOk (s : St) (h : SentOk s) : SentOk (settle true s) := by
  unfold settle
  cases hf : s.failing with
  | none =>
    simp only
    cases hh : s.holder with
    | none => exact grant_sentOk _ _ h
    | some _ => exact h
  | some id =>
    simp only
    exact grant_sentOk _ _ (by simpa [SentOk] using h)

theorem step_sentOk (s : St) (e : Ev) (h : SentOk s) : SentOk (step true s e) := by
  cases e with
  | issue id =>
    simp only [step]
    have h1 := settle_sentOk s h
    split
    · simpa [SentOk] using h1
    · exact settle_sentOk _ (by simpa [SentOk] using h1)
  | answer =>
    simp only [step]
    have h1 := settle_sentOk s h
    split
    · split
      · exact settle_sentOk _ (by simpa [SentOk] using h1)
      · exact h1
    · exact h1
  | lose =>
    simp only [step]
    split
    · simpa [SentOk] using h
    · exact h
  | reconnect =>
    simp only [step]
    split
    · exact h
    · simpa [SentOk] using h
  | tick => exact settle_sentOk s h

/-- when no queued request was issued on the current connection, every one of them fails and nothing is written -/
theorem grant_all_fail (q : List (Nat × Nat)) (s : St) (hup : s.up = true) (h : ∀ x ∈ q, x.2 ≠ s.conn) :
    grant true q s = { s with queue := [], log := s.log ++ q.map (fun x => (x.1, Outcome.disconnected)) } := by
  induction q generalizing s with
  | nil => simp [grant]
  | cons a rest ih =>
    obtain ⟨id, issuedOn⟩ := a
    have hne : (issuedOn != s.conn) = true := by simpa using h (id, issuedOn) (by simp)
    unfold grant
    simp only [hup, Bool.not_true, Bool.false_eq_true, ↓reduceIte, Bool.true_and, hne]
    refine (ih { s with up := true, log := s.log ++ [(id, Outcome.disconnected)] } rfl
      (fun x hx => h x (List.mem_cons_of_mem _ hx))).trans ?_
    simp

/-- queued requests were issued on the current connection or an earlier one -/
def QLe (s : St) : Prop := ∀ x ∈ s.queue, x.2 ≤ s.conn

theorem grant_QLe (q : List (Nat × Nat)) (s : St) (h : ∀ x ∈ q, x.2 ≤ s.conn) : QLe (grant true q s) := by
  induction q generalizing s with
  | nil => simp [grant, QLe]
  | cons a rest ih =>
    obtain ⟨id, issuedOn⟩ := a
    unfold grant
    have hr : ∀ x ∈ rest, x.2 ≤ s.conn := fun x hx => h x (List.mem_cons_of_mem _ hx)
    split
    · exact ih _ hr
    · split
      · exact ih _ hr
      · exact hr

theorem settle_QLe (s : St) (h : QLe s) : QLe (settle true s) := by
  unfold settle
  cases hf : s.failing with
  | none =>
    simp only
    cases hh : s.holder with
    | none => exact grant_QLe _ _ h
    | some _ => exact h
  | some id =>
    simp only
    exact grant_QLe _ _ h

theorem step_QLe (s : St) (e : Ev) (h : QLe s) : QLe (step true s e) := by
  cases e with
  | issue id =>
    simp only [step]
    have h1 := settle_QLe s h
    split
    · exact h1
    · apply settle_QLe
      intro x hx
      simp only [List.mem_append, List.mem_singleton] at hx
      rcases hx with hx | rfl
      · exact h1 x hx
      · exact Nat.le_refl _
  | answer =>
    simp only [step]
    have h1 := settle_QLe s h
    split
    · split
      · exact settle_QLe _ h1
      · exact h1
    · exact h1
  | lose =>
    simp only [step]
    split
    · exact h
    · exact h
  | reconnect =>
    simp only [step]
    split
    · exact h
    · intro x hx
      have := h x hx
      dsimp only at hx ⊢
      omega
  | tick => exact settle_QLe s h

end HapVerif.ReqConn.Queue

namespace HapVerif.ReqConn
open Queue (SentOk)

/-- **A request is only ever written on the connection it was issued on** - in every history of callers, answers, session
    losses, reconnections by the supervisor and loop runs, with the slot handed from caller to caller in between: a request
    that was still queued when its connection was lost is never sent on the connection that replaces it (which, in the real
    library, is not even encrypted yet). -/
theorem C08_queue_sent_on_issue_connection (evs : List Queue.Ev) :
    ∀ p ∈ (Queue.run true {} evs).sent, p.2.1 = p.2.2 := by
  have h : ∀ (evs : List Queue.Ev) (s : Queue.St), SentOk s → SentOk (Queue.run true s evs) := by
    intro evs
    induction evs with
    | nil => intro s hs; exact hs
    | cons e es ih => intro s hs; exact ih _ (Queue.step_sentOk s e hs)
  exact h evs {} (by simp [SentOk])

/-- the code as found on the unchanged tree (it only asked whether SOME protocol exists) does not have this property:
    request 2, issued and queued on connection 0, goes out on connection 1 when the session is lost and the supervisor
    reconnects before the loop lets the queued caller run - kernel-checked witness of the defect repaired in /repo -/
theorem C08_queue_counterexample_unguarded :
    (Queue.run false {} [.issue 1, .issue 2, .lose, .reconnect, .tick]).sent = [(1, 0, 0), (2, 1, 0)] := by decide

/-- ... and with the guard the same history fails both requests with a disconnection error and writes nothing more -/
theorem C08_queue_lost_requests_fail :
    (Queue.run true {} [.issue 1, .issue 2, .lose, .reconnect, .tick]).sent = [(1, 0, 0)] ∧
    (Queue.run true {} [.issue 1, .issue 2, .lose, .reconnect, .tick]).log =
      [(1, Queue.Outcome.disconnected), (2, Queue.Outcome.disconnected)] := by decide

/-- **every outstanding request fails once the loop runs, however fast the supervisor reconnects**: in any reachable state
    with a live session, when the session is lost and the next connection is installed before any caller has run, then after
    the loop has run the request that was on the wire and every request that was queued for the slot have failed with a
    disconnection error, nothing has been written on the new connection, and the slot is free -/
theorem C08_queue_outstanding_fail (evs : List Queue.Ev) (hup : (Queue.run true {} evs).up = true)
    (hf : (Queue.run true {} evs).failing = none) :
    let s := Queue.run true {} evs
    let s' := Queue.settle true (Queue.step true (Queue.step true s .lose) .reconnect)
    s'.holder = none ∧ s'.queue = [] ∧ s'.sent = s.sent ∧
    (∀ q ∈ s.queue, (q.1, Queue.Outcome.disconnected) ∈ s'.log) ∧
    (∀ h, s.holder = some h → (h.1, Queue.Outcome.disconnected) ∈ s'.log) := by
  have hq : ∀ (evs : List Queue.Ev) (s : Queue.St), Queue.QLe s → Queue.QLe (Queue.run true s evs) := by
    intro evs
    induction evs with
    | nil => intro s hs; exact hs
    | cons e es ih => intro s hs; exact ih _ (Queue.step_QLe s e hs)
  have hle := hq evs {} (by simp [Queue.QLe])
  generalize Queue.run true {} evs = s at hup hf hle
  intro s0 s'
  have hne : ∀ x ∈ s.queue, x.2 ≠ s.conn + 1 := fun x hx => by have := hle x hx; omega
  cases hh : s.holder with
  | none =>
    have e : s' = { s with up := true, conn := s.conn + 1, queue := [],
                           log := s.log ++ s.queue.map (fun x => (x.1, Queue.Outcome.disconnected)) } := by
      simp only [s', s0, Queue.step, hup, hh, ↓reduceIte, Option.map_none, Bool.false_eq_true, Queue.settle]
      rw [Queue.grant_all_fail _ _ rfl (by simpa using hne)]
      simp [hf]
    rw [e]
    refine ⟨hh, rfl, rfl, ?_, ?_⟩
    · intro q hq'
      simp only [List.mem_append, List.mem_map]
      right; exact ⟨q, hq', rfl⟩
    · intro h hh'; cases hh'
  | some hd =>
    have e : s' = { s with up := true, conn := s.conn + 1, queue := [], holder := none, failing := none,
                           log := s.log ++ [(hd.1, Queue.Outcome.disconnected)] ++
                                  s.queue.map (fun x => (x.1, Queue.Outcome.disconnected)) } := by
      simp only [s', s0, Queue.step, hup, hh, ↓reduceIte, Option.map_some, Bool.false_eq_true, Queue.settle]
      rw [Queue.grant_all_fail _ _ rfl (by simpa using hne)]
    rw [e]
    refine ⟨rfl, rfl, rfl, ?_, ?_⟩
    · intro q hq'
      simp only [List.mem_append, List.mem_map]
      right; exact ⟨q, hq', rfl⟩
    · intro h hh'
      simp only [Option.some.injEq] at hh'
      subst hh'
      simp

/-- non-vacuity of the hypotheses: a live session with one request on the wire and two queued -/
example : (Queue.run true {} [.issue 1, .issue 2, .issue 3]).up = true ∧ (Queue.run true {} [.issue 1, .issue 2, .issue 3]).failing = none ∧
    (Queue.run true {} [.issue 1, .issue 2, .issue 3]).queue = [(2, 0), (3, 0)] := by decide

end HapVerif.ReqConn
