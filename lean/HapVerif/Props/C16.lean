import HapVerif.Model.Tlv8Struct
import HapVerif.Proofs.Tlv8Struct
import HapVerif.Proofs.Tlv8Array
import HapVerif.Gen.Schemas
import HapVerif.Gen.Scalars
import HapVerif.Proofs.Tlv

/-! # C16 - structured TLV8 messages round-trip for every defined message type

Proved here: which classes are inside the generic well-formedness predicate (the list of
exceptions is pinned, so a new class that breaks it breaks the theorem), the canonical form of the
encoder (declaration order, maximal 255-byte fragments, `00 00` between list items), and the two
known findings as counterexample theorems, and the **generic round-trip theorem**
(`C16_generic_roundtrip`): for every schema with distinct byte-sized TLV types and every value whose set
fields round-trip through a non-empty encoding, `decode (encode v) = v` - with the field-level
hypothesis discharged for every scalar type on its whole domain and inherited by struct-typed fields
(`C16_field_roundtrips`) and, for fields that are *lists* of structs, reduced to the items by
`C16_array_split` / `C16_list_field_roundtrip` (`tlv_array` at the `00 00` separators). -/

namespace HapVerif.C16
open HapVerif HapVerif.Tlv8

/-! ## well-formed schemas -/

mutual
/-- supported field types, distinct TLV types per struct, TLV types fit a byte, no field of type 0
    in a struct used as a sequence element (0 is the list separator), and no `Sequence[u16]`
    (decoded by the wrong splitter today - known finding) -/
def wfTy : FieldTy → Bool
  | .uint n => decide (0 < n)
  | .buint16 | .str | .bytes => true
  | .enum ms => ms.all (· < 256)
  | .struct s => wfS s
  | .seqStruct s => wfS s && noZero s
  | .seqU16 => false
def wfS : Schema → Bool
  | .mk fs => wfFields fs && distinctTypes fs
def wfFields : List (Nat × FieldTy) → Bool
  | [] => true
  | (t, ty) :: fs => decide (t < 256) && wfTy ty && wfFields fs
def distinctTypes : List (Nat × FieldTy) → Bool
  | [] => true
  | (t, _) :: fs => !(fs.any (·.1 = t)) && distinctTypes fs
def noZero : Schema → Bool
  | .mk fs => !(fs.any (·.1 = 0))
end

/-- **Every class**: of all `TLVStruct` subclasses found in the package by reflection, exactly
    these are outside the well-formed fragment - the BLE/CoAP service signatures and their
    containers (packed `Sequence[u16]` linked-service list) and `Meshcop` (TLV types 128 and 129
    declared twice).  Any other class, present or future, satisfies `wfS`. -/
theorem C16_all_classes :
    (Gen.Schemas.all.filter (fun p => !wfS p.2)).map (·.1) =
      ["aiohomekit.controller.ble.structs.Service",
       "aiohomekit.controller.coap.structs.Pdu09Accessory",
       "aiohomekit.controller.coap.structs.Pdu09AccessoryContainer",
       "aiohomekit.controller.coap.structs.Pdu09Database",
       "aiohomekit.controller.coap.structs.Pdu09Service",
       "aiohomekit.controller.coap.structs.Pdu09ServiceContainer",
       "aiohomekit.meshcop.Meshcop"] := by decide +kernel

/-! ## canonical encoding -/

/-- the fragment writer of `TLVStruct.encode` is the pairing codec's (C15) fragment writer ... -/
theorem frag_eq_encFrag (t : UInt8) : ∀ (n : Nat) (v : Bytes), frag t n v = Tlv.encFrag t n v := by
  intro n
  induction n with
  | zero => intro v; rfl
  | succ n ih => intro v; cases v with
    | nil => rfl
    | cons b v' => simp [frag, Tlv.encFrag, ih]

/-- ... hence every non-empty field value is written in maximal 255-byte fragments with a non-empty
    last fragment: the unique canonical TLV8 form of `(t, e)`. -/
theorem C16_fragments_canonical (t : UInt8) (e : Bytes) (he : e ≠ []) :
    Spec.Tlv8.Frags t e (frag t e.length e) := by
  rw [frag_eq_encFrag]; exact Tlv.encFrag_frags t _ e he (Nat.le_refl _)

/-- fields are written in declaration order; an unset field writes nothing -/
theorem C16_declaration_order (t : Nat) (ty : FieldTy) (fs : List (Nat × FieldTy)) (v : Val) (vs : List (Option Val))
    (e rest : Bytes) (he : encVal ty v = .ok e) (hr : encFields fs vs = .ok rest) :
    encStruct (.mk ((t, ty) :: fs)) (.mk (some v :: vs)) = .ok (frag (UInt8.ofNat t) e.length e ++ rest) ∧
    encStruct (.mk ((t, ty) :: fs)) (.mk (none :: vs)) = .ok rest := by
  constructor
  · simp [encStruct, encFields, he, hr, bind, Except.bind, pure, Except.pure]
  · simp [encStruct, encFields, hr]

/-- list items are separated by the zero-length TLV `00 00`, with no leading or trailing separator -/
theorem C16_list_separators (s : Schema) : ∀ (vs : List SVal) (es : List Bytes),
    vs.length = es.length → (∀ i (h : i < vs.length) (h' : i < es.length), encStruct s vs[i] = .ok es[i]) →
    encSeq s vs = .ok (([0, 0] : Bytes).intercalate es) := by
  intro vs
  induction vs with
  | nil => intro es hl _; cases es with
    | nil => simp [encSeq]
    | cons _ _ => simp at hl
  | cons v vs ih =>
    intro es hl h
    cases es with
    | nil => simp at hl
    | cons e es =>
      have h0 : encStruct s v = .ok e := by
        have := h 0 (by simp) (by simp)
        simp only [List.getElem_cons_zero] at this
        exact this
      cases vs with
      | nil =>
        have : es = [] := by cases es with
          | nil => rfl
          | cons _ _ => simp at hl
        subst this
        simp [encSeq, h0, List.intercalate]
      | cons v2 vs2 =>
        have hrest := ih es (by simpa using hl) (fun i hi hi' => by
          have := h (i + 1) (by simp at hi ⊢; omega) (by simp at hi' ⊢; omega)
          simp only [List.getElem_cons_succ] at this
          exact this)
        cases es with
        | nil => simp at hl
        | cons e2 es2 =>
          rw [encSeq]
          · simp only [h0, hrest, bind, Except.bind, pure, Except.pure]
            simp [List.intercalate, List.intersperse, List.append_assoc]
          · intro hv; cases hv


/-! ## the generic round trip -/

/-- **Any schema.**  For every schema whose TLV types are distinct and fit a byte, and every positional value: if
    each field that is set encodes to a non-empty value that its own type decodes back (`Enc`), then
    `TLVStruct.decode(TLVStruct.encode(v)) = v` - no bound on the number of fields, value lengths or fragments.
    (An empty encoding is the documented asymmetry: `encode` writes nothing for it and it comes back unset.) -/
theorem C16_generic_roundtrip (fs : List (Nat × FieldTy)) (vs : List (Option Val)) (es : List (Option Bytes))
    (h : Enc fs vs es) (hnd : (fs.map (·.1)).Nodup) (hlt : ∀ f ∈ fs, f.1 < 256) :
    ∃ enc, encStruct (.mk fs) (.mk vs) = .ok enc ∧ decStruct (.mk fs) enc = .ok (.mk vs) :=
  ⟨_, (struct_roundtrip fs vs es h hnd hlt).1, (struct_roundtrip fs vs es h hnd hlt).2⟩

/-- the iterator recovers exactly the (type, value) segments of a canonical encoding, however many 255-byte
    fragments each value needs -/
theorem C16_iterator_recovers_segments (segs : List (UInt8 × Bytes)) (h : GoodSegs segs) :
    ∃ items, iter (cat segs) = .ok items ∧ items.map (fun it => (it.2.1, it.2.2.2)) = segs :=
  iterAux_cat segs h _ 0 (Nat.lt_succ_self _)

/-- the hypothesis of the generic theorem holds for every scalar field type on its whole value domain, and a
    struct-typed field inherits it from its own schema (so nested structs follow by applying the theorem
    inside-out) -/
theorem C16_field_roundtrips :
    (∀ n x, 0 < n → x < 256 ^ n → encVal (.uint n) (.int x) = .ok (natToLe n x) ∧ natToLe n x ≠ [] ∧
      decVal (.uint n) (natToLe n x) = .ok (.int x)) ∧
    (∀ x, x < 65536 → encVal .buint16 (.int x) = .ok (natToLe 2 x).reverse ∧ (natToLe 2 x).reverse ≠ [] ∧
      decVal .buint16 (natToLe 2 x).reverse = .ok (.int x)) ∧
    (∀ b : Bytes, b ≠ [] → encVal .bytes (.raw b) = .ok b ∧ b ≠ [] ∧ decVal .bytes b = .ok (.raw b)) ∧
    (∀ b : Bytes, b ≠ [] → validUtf8 b.length b = true →
      encVal .str (.raw b) = .ok b ∧ b ≠ [] ∧ decVal .str b = .ok (.raw b)) ∧
    (∀ ms x, x ∈ ms → x < 256 → encVal (.enum ms) (.int x) = .ok (natToLe 1 x) ∧ natToLe 1 x ≠ [] ∧
      decVal (.enum ms) (natToLe 1 x) = .ok (.int x)) ∧
    (∀ fs vs es, Enc fs vs es → (fs.map (·.1)).Nodup → (∀ f ∈ fs, f.1 < 256) → cat (segsOf fs es) ≠ [] →
      encVal (.struct (.mk fs)) (.struct (.mk vs)) = .ok (cat (segsOf fs es)) ∧ cat (segsOf fs es) ≠ [] ∧
      decVal (.struct (.mk fs)) (cat (segsOf fs es)) = .ok (.struct (.mk vs))) :=
  ⟨field_uint, field_buint16, field_bytes, field_str, field_enum, field_struct⟩

/-- `tlv_array` splits a separator-joined list of canonical item encodings back into exactly the items: any
    number of items, each of any size (item schemas have no field of TLV type 0, the separator) -/
theorem C16_array_split (encs : List (List (UInt8 × Bytes))) (hne : encs ≠ []) (hg : ∀ e ∈ encs, GoodItem e) :
    tlvArray (joinItems (encs.map cat)) = .ok (encs.map cat) :=
  tlvArray_joinItems encs hne hg

/-- a list-of-structs field (`Sequence[TLVStruct]`) round-trips whenever each item does: together with
    `C16_generic_roundtrip` and `C16_field_roundtrips` this covers every field type of the package except the
    packed `Sequence[u16]` of the known finding -/
theorem C16_list_field_roundtrip (fs : List (Nat × FieldTy)) (hnd : (fs.map (·.1)).Nodup)
    (hlt : ∀ f ∈ fs, f.1 < 256) (hnz : ∀ f ∈ fs, f.1 ≠ 0)
    (items : List (List (Option Val) × List (Option Bytes))) (hne : items ≠ [])
    (henc : ∀ it ∈ items, Enc fs it.1 it.2 ∧ segsOf fs it.2 ≠ []) :
    encVal (.seqStruct (.mk fs)) (.seq (items.map (fun it => SVal.mk it.1))) =
      .ok (joinItems (items.map (fun it => cat (segsOf fs it.2)))) ∧
    joinItems (items.map (fun it => cat (segsOf fs it.2))) ≠ [] ∧
    decVal (.seqStruct (.mk fs)) (joinItems (items.map (fun it => cat (segsOf fs it.2)))) =
      .ok (.seq (items.map (fun it => SVal.mk it.1))) :=
  field_seqStruct fs hnd hlt hnz items hne henc

/-- non-vacuity and nesting: a struct with an integer, a byte string of ANY length and a nested struct -/
example (x y : Nat) (b : Bytes) (hx : x < 256) (hy : y < 65536) (hb : b ≠ []) :
    let inner : List (Nat × FieldTy) := [(1, .uint 2)]
    let outer : List (Nat × FieldTy) := [(1, .uint 1), (2, .bytes), (3, .struct (.mk inner))]
    let v : SVal := .mk [some (.int x), some (.raw b), some (.struct (.mk [some (.int y)]))]
    ∃ enc, encStruct (.mk outer) v = .ok enc ∧ decStruct (.mk outer) enc = .ok v := by
  intro inner outer v
  have hy' : y < 256 ^ 2 := by simpa using hy
  have hx' : x < 256 ^ 1 := by simpa using hx
  obtain ⟨i1, i2, i3⟩ := field_uint 2 y (by omega) hy'
  have hin : Enc inner [some (.int y)] [some (natToLe 2 y)] := Enc.some _ _ _ _ _ _ _ i1 i2 i3 Enc.nil
  have hcat : cat (segsOf inner [some (natToLe 2 y)]) ≠ [] := by
    obtain ⟨r, hr⟩ := cat_head (UInt8.ofNat 1) (natToLe 2 y) [] i2
    simp only [segsOf, inner]
    rw [hr]; simp
  obtain ⟨s1, s2, s3⟩ := field_struct inner _ _ hin (by decide) (by decide) hcat
  obtain ⟨u1, u2, u3⟩ := field_uint 1 x (by omega) hx'
  obtain ⟨b1, b2, b3⟩ := field_bytes b hb
  have hout : Enc outer [some (.int x), some (.raw b), some (.struct (.mk [some (.int y)]))]
      [some (natToLe 1 x), some b, some (cat (segsOf inner [some (natToLe 2 y)]))] :=
    Enc.some _ _ _ _ _ _ _ u1 u2 u3 (Enc.some _ _ _ _ _ _ _ b1 b2 b3 (Enc.some _ _ _ _ _ _ _ s1 s2 s3 Enc.nil))
  obtain ⟨r1, r2⟩ := struct_roundtrip outer _ _ hout (by decide) (by decide)
  exact ⟨_, r1, r2⟩

/-! ## known findings as theorems (model of the unchanged code) -/

def idsOf : SVal → List (List Nat)
  | .mk fs => fs.filterMap fun | some (.ids l) => some l | _ => none
def rawsOf : SVal → List (Option Bytes)
  | .mk fs => fs.map fun | some (.raw b) => some b | _ => none

/-- packed linked-service ids `[16, 32]` (bytes `10 00 20 00`) decode to the single id 2097168 -/
theorem C16_counterexample_seqU16 :
    (decStruct (.mk [(15, .uint 2), (16, .seqU16)]) [0x10, 4, 16, 0, 32, 0]).toOption.map idsOf
      = some [[2097168]] := by decide +kernel

/-- a TLV type declared by two fields comes back under the later one -/
theorem C16_counterexample_duplicate_type :
    ((encStruct (.mk [(128, .bytes), (128, .bytes)]) (.mk [some (.raw [7]), none])).toOption.bind
        (fun b => (decStruct (.mk [(128, .bytes), (128, .bytes)]) b).toOption)).map rawsOf
      = some [none, some [7]] := by decide +kernel

/-! ## The integer (de)serialisers of `tlv8.py` are what the schema translator assumes

`Gen/Schemas.lean` maps the field types `u8 … u128` to `.uint n` (n little-endian bytes) and `bu16` to `.buint16`.  The rows
below are lifted from the source on every run: which function the dispatch tables name for each integer type, and what that
function's single return statement does.  (`struct` formats without a byte-order prefix are native mode; native = little-endian
on the hosts the library supports - trusted base.) -/

/-- width of a `struct` format character that has the same size in native and standard mode -/
def fmtWidth (c : Char) : Option Nat :=
  if c = 'B' then some 1 else if c = 'H' then some 2 else if c = 'I' then some 4 else if c = 'Q' then some 8 else none

/-- what a serialiser row writes: (number of bytes, big-endian?) -/
def serShape (r : String × String × Nat × String × String) : Option (Nat × Bool) :=
  if r.2.1 = "struct" then
    match r.2.2.2.1.toList with
    | ['>', c] => (fmtWidth c).map (fun w => (w, true))
    | ['<', c] => (fmtWidth c).map (fun w => (w, false))
    | [c] => (fmtWidth c).map (fun w => (w, false))
    | _ => none
  else if r.2.1 = "to_bytes" then
    if r.2.2.2.1 = "little" then some (r.2.2.1, false) else if r.2.2.2.1 = "big" then some (r.2.2.1, true) else none
  else none

/-- the byte order `int.from_bytes` reads with -/
def deserBig (r : String × String × Nat × String × String) : Option Bool :=
  if r.2.2.2.2 = "little" then some false else if r.2.2.2.2 = "big" then some true else none

/-- what the schema translator maps each integer type to: `.uint n` = (n, little), `.buint16` = (2, big) -/
def modelShape (ty : String) : Option (Nat × Bool) :=
  if ty = "u8" then some (1, false) else if ty = "u16" then some (2, false) else if ty = "bu16" then some (2, true)
  else if ty = "u32" then some (4, false) else if ty = "u64" then some (8, false) else if ty = "u128" then some (16, false) else none

/-- **every integer type is written with the width and byte order the model uses, and read back with the same byte order**;
    all six types are present -/
theorem C16_gen_scalar_tie :
    (∀ r ∈ Gen.Scalars.rows, serShape r = modelShape r.1 ∧ deserBig r = (modelShape r.1).map (·.2) ∧ (modelShape r.1).isSome) ∧
    Gen.Scalars.rows.map (·.1) = ["u8", "u16", "bu16", "u32", "u64", "u128"] := by decide

/-- ... and this is what `.uint n` / `.buint16` do in the model -/
theorem C16_scalar_model (n x : Nat) :
    Tlv8.encVal (.uint n) (.int x) = Tlv8.leBytes? n x ∧
    Tlv8.encVal .buint16 (.int x) = (Tlv8.leBytes? 2 x).map List.reverse := ⟨by simp [Tlv8.encVal], by simp [Tlv8.encVal]⟩

end HapVerif.C16
