import HapVerif.Model.Tlv8Struct
import HapVerif.Gen.Schemas
import HapVerif.Proofs.Tlv

/-! # C16 - structured TLV8 messages round-trip for every defined message type

Proved here: which classes are inside the generic well-formedness predicate (the list of
exceptions is pinned, so a new class that breaks it breaks the theorem), the canonical form of the
encoder (declaration order, maximal 255-byte fragments, `00 00` between list items), and the two
known findings as counterexample theorems.  The generic round-trip theorem
(`decStruct s (encStruct s v) = ok v` for every `WFS` schema and `WFV` value, by induction on the
nesting depth) is **not yet proved** - it is the `_partial` part of this property and is covered by
the per-class differential streams and the round-trip oracle on the implementation. -/

namespace HapVerif.C16
open HapVerif HapVerif.Tlv8

/-! ## well-formed schemas -/

mutual
/-- supported field types, distinct TLV types per struct, TLV types fit a byte, no field of type 0
    in a struct used as a sequence element (0 is the list separator), and no `Sequence[u16]`
    (decoded by the wrong splitter today - known finding) -/
def wfTy : FieldTy → Bool
  | .uint n => decide (0 < n)
  | .buint16 | .str | .bytes => true
  | .enum ms => ms.all (· < 256)
  | .struct s => wfS s
  | .seqStruct s => wfS s && noZero s
  | .seqU16 => false
def wfS : Schema → Bool
  | .mk fs => wfFields fs && distinctTypes fs
def wfFields : List (Nat × FieldTy) → Bool
  | [] => true
  | (t, ty) :: fs => decide (t < 256) && wfTy ty && wfFields fs
def distinctTypes : List (Nat × FieldTy) → Bool
  | [] => true
  | (t, _) :: fs => !(fs.any (·.1 = t)) && distinctTypes fs
def noZero : Schema → Bool
  | .mk fs => !(fs.any (·.1 = 0))
end

/-- **Every class**: of all `TLVStruct` subclasses found in the package by reflection, exactly
    these are outside the well-formed fragment - the BLE/CoAP service signatures and their
    containers (packed `Sequence[u16]` linked-service list) and `Meshcop` (TLV types 128 and 129
    declared twice).  Any other class, present or future, satisfies `wfS`. -/
theorem C16_all_classes :
    (Gen.Schemas.all.filter (fun p => !wfS p.2)).map (·.1) =
      ["aiohomekit.controller.ble.structs.Service",
       "aiohomekit.controller.coap.structs.Pdu09Accessory",
       "aiohomekit.controller.coap.structs.Pdu09AccessoryContainer",
       "aiohomekit.controller.coap.structs.Pdu09Database",
       "aiohomekit.controller.coap.structs.Pdu09Service",
       "aiohomekit.controller.coap.structs.Pdu09ServiceContainer",
       "aiohomekit.meshcop.Meshcop"] := by decide +kernel

/-! ## canonical encoding -/

/-- the fragment writer of `TLVStruct.encode` is the pairing codec's (C15) fragment writer ... -/
theorem frag_eq_encFrag (t : UInt8) : ∀ (n : Nat) (v : Bytes), frag t n v = Tlv.encFrag t n v := by
  intro n
  induction n with
  | zero => intro v; rfl
  | succ n ih => intro v; cases v with
    | nil => rfl
    | cons b v' => simp [frag, Tlv.encFrag, ih]

/-- ... hence every non-empty field value is written in maximal 255-byte fragments with a non-empty
    last fragment: the unique canonical TLV8 form of `(t, e)`. -/
theorem C16_fragments_canonical (t : UInt8) (e : Bytes) (he : e ≠ []) :
    Spec.Tlv8.Frags t e (frag t e.length e) := by
  rw [frag_eq_encFrag]; exact Tlv.encFrag_frags t _ e he (Nat.le_refl _)

/-- fields are written in declaration order; an unset field writes nothing -/
theorem C16_declaration_order (t : Nat) (ty : FieldTy) (fs : List (Nat × FieldTy)) (v : Val) (vs : List (Option Val))
    (e rest : Bytes) (he : encVal ty v = .ok e) (hr : encFields fs vs = .ok rest) :
    encStruct (.mk ((t, ty) :: fs)) (.mk (some v :: vs)) = .ok (frag (UInt8.ofNat t) e.length e ++ rest) ∧
    encStruct (.mk ((t, ty) :: fs)) (.mk (none :: vs)) = .ok rest := by
  constructor
  · simp [encStruct, encFields, he, hr, bind, Except.bind, pure, Except.pure]
  · simp [encStruct, encFields, hr]

/-- list items are separated by the zero-length TLV `00 00`, with no leading or trailing separator -/
theorem C16_list_separators (s : Schema) : ∀ (vs : List SVal) (es : List Bytes),
    vs.length = es.length → (∀ i (h : i < vs.length) (h' : i < es.length), encStruct s vs[i] = .ok es[i]) →
    encSeq s vs = .ok (([0, 0] : Bytes).intercalate es) := by
  intro vs
  induction vs with
  | nil => intro es hl _; cases es with
    | nil => simp [encSeq]
    | cons _ _ => simp at hl
  | cons v vs ih =>
    intro es hl h
    cases es with
    | nil => simp at hl
    | cons e es =>
      have h0 : encStruct s v = .ok e := by
        have := h 0 (by simp) (by simp)
        simp only [List.getElem_cons_zero] at this
        exact this
      cases vs with
      | nil =>
        have : es = [] := by cases es with
          | nil => rfl
          | cons _ _ => simp at hl
        subst this
        simp [encSeq, h0, List.intercalate]
      | cons v2 vs2 =>
        have hrest := ih es (by simpa using hl) (fun i hi hi' => by
          have := h (i + 1) (by simp at hi ⊢; omega) (by simp at hi' ⊢; omega)
          simp only [List.getElem_cons_succ] at this
          exact this)
        cases es with
        | nil => simp at hl
        | cons e2 es2 =>
          rw [encSeq]
          · simp only [h0, hrest, bind, Except.bind, pure, Except.pure]
            simp [List.intercalate, List.intersperse, List.append_assoc]
          · intro hv; cases hv

/-! ## known findings as theorems (model of the unchanged code) -/

def idsOf : SVal → List (List Nat)
  | .mk fs => fs.filterMap fun | some (.ids l) => some l | _ => none
def rawsOf : SVal → List (Option Bytes)
  | .mk fs => fs.map fun | some (.raw b) => some b | _ => none

/-- packed linked-service ids `[16, 32]` (bytes `10 00 20 00`) decode to the single id 2097168 -/
theorem C16_counterexample_seqU16 :
    (decStruct (.mk [(15, .uint 2), (16, .seqU16)]) [0x10, 4, 16, 0, 32, 0]).toOption.map idsOf
      = some [[2097168]] := by decide +kernel

/-- a TLV type declared by two fields comes back under the later one -/
theorem C16_counterexample_duplicate_type :
    ((encStruct (.mk [(128, .bytes), (128, .bytes)]) (.mk [some (.raw [7]), none])).toOption.bind
        (fun b => (decStruct (.mk [(128, .bytes), (128, .bytes)]) b).toOption)).map rawsOf
      = some [none, some [7]] := by decide +kernel

end HapVerif.C16
