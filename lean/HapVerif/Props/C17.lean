import HapVerif.Model.Pdu
import HapVerif.Spec.Pdu
import HapVerif.Gen.Pdu

/-! # C17 - HAP PDUs are fragmented, reassembled and attributed correctly (BLE, CoAP) -/

namespace HapVerif.C17
open HapVerif HapVerif.Pdu HapVerif.Spec.Pdu

/-! ## BLE requests -/

theorem conts_fit (tid : UInt8) (sz : Nat) : ∀ (fuel : Nat) (d : Bytes) (f : Bytes),
    f ∈ conts tid sz fuel d → f.length ≤ sz + 2 := by
  intro fuel
  induction fuel with
  | zero => intro d f h; simp [conts] at h
  | succ n ih =>
    intro d f h
    match d, h with
    | [], h => simp [conts] at h
    | b :: d', h =>
      simp only [conts, List.mem_cons] at h
      rcases h with rfl | h
      · simp [List.length_take]; omega
      · exact ih _ _ h

theorem conts_join (tid : UInt8) (sz : Nat) (hsz : 0 < sz) : ∀ (fuel : Nat) (d : Bytes), d.length ≤ fuel →
    joinConts tid (conts tid sz fuel d) = some d := by
  intro fuel
  induction fuel with
  | zero => intro d h; have : d = [] := by cases d <;> simp_all
            subst this; simp [conts, joinConts]
  | succ n ih =>
    intro d h
    match d, h with
    | [], _ => simp [conts, joinConts]
    | b :: d', h =>
      simp only [conts, joinConts, and_self, if_true]
      rw [ih]
      · simp [List.take_append_drop]
      · simp [List.length_drop] at h ⊢; omega

/-- every fragment fits the negotiated size (any size ≥ 8, any body). -/
theorem C17_ble_fragments_fit (opcode tid : UInt8) (iid : Nat) (data : Bytes) (fs : Nat) (hfs : 8 ≤ fs) :
    ∀ f ∈ encodePdu opcode tid iid data fs, f.length ≤ fs := by
  intro f hf
  unfold encodePdu at hf
  split at hf
  · simp at hf; subst hf; simp [Pdu.le16b]; omega
  · simp only [List.mem_cons] at hf
    rcases hf with rfl | hf
    · simp [Pdu.le16b, List.length_take]; omega
    · have := conts_fit tid (fs - 2) _ _ _ hf; omega

/-- header fields and body are recovered by a conformant accessory. -/
theorem C17_ble_request_roundtrip (opcode tid : UInt8) (iid : Nat) (data : Bytes) (fs : Nat) (hfs : 8 ≤ fs)
    (hne : data ≠ []) :
    ∃ first rest, encodePdu opcode tid iid data fs = first :: rest ∧
      first.take 5 = [0, opcode, tid] ++ Spec.Pdu.le16b iid ∧
      (first.drop 5).take 2 = Spec.Pdu.le16b data.length ∧
      (joinConts tid rest).map (first.drop 7 ++ ·) = some data := by
  refine ⟨[0, opcode, tid] ++ Pdu.le16b iid ++ Pdu.le16b data.length ++ data.take (fs - 7),
          conts tid (fs - 2) data.length (data.drop (fs - 7)), by simp [encodePdu, hne], ?_, ?_, ?_⟩
  · simp [Pdu.le16b, Spec.Pdu.le16b]
  · simp [Pdu.le16b, Spec.Pdu.le16b]
  · rw [conts_join tid (fs - 2) (by omega) _ _ (by simp)]
    simp [Pdu.le16b, List.take_append_drop]

/-- a body-less request is the bare 5-byte header -/
theorem C17_ble_request_empty (opcode tid : UInt8) (iid : Nat) (fs : Nat) :
    encodePdu opcode tid iid [] fs = [[0, opcode, tid] ++ Spec.Pdu.le16b iid] := by
  simp [encodePdu, Pdu.le16b, Spec.Pdu.le16b]

/-! ## BLE responses -/

theorem le16_le16b (n : Nat) (h : n < 65536) : Pdu.le16 (Spec.Pdu.le16b n) = n := by
  simp only [Spec.Pdu.le16b, Pdu.le16]
  have h1 : n % 256 < 256 := Nat.mod_lt _ (by omega)
  have h2 : n / 256 % 256 < 256 := Nat.mod_lt _ (by omega)
  simp [Nat.mod_eq_of_lt h1, Nat.mod_eq_of_lt h2]
  omega

/-- the continuation loop over genuine continuation fragments with non-empty pieces -/
theorem readLoop_pieces (tid cc : UInt8) (hcc : cc.toNat &&& 0x80 ≠ 0) : ∀ (ps : List Bytes) (data : Bytes) (exp n : Nat),
    (∀ p ∈ ps, p ≠ []) → (data ++ ps.flatten).length = exp →
    readLoop tid exp (ps.map (fun p => some (cc :: tid :: p))) data n = (.ok (data ++ ps.flatten), n + ps.length) := by
  intro ps
  induction ps with
  | nil =>
    intro data exp n _ hlen
    simp at hlen
    simp [readLoop, hlen]
  | cons p ps ih =>
    intro data exp n hne hlen
    have hp : p ≠ [] := hne p (by simp)
    have hppos : 0 < p.length := List.length_pos_iff.mpr hp
    have hlt : ¬ data.length ≥ exp := by
      simp at hlen; omega
    simp only [List.map_cons]
    rw [readLoop]
    simp only [hlt, if_false, decodeCont, hcc, ne_eq, not_true_eq_false]
    rw [ih (data ++ p) exp (n + 1) (fun q hq => hne q (List.mem_cons_of_mem _ hq)) (by simpa [List.append_assoc] using hlen)]
    simp [List.append_assoc]; omega

/-- **Responses**: whatever first piece `p0` and non-empty continuation pieces `ps` a conformant
    accessory cuts `p0 ++ ps.flatten` into, the controller returns the accessory's status and the
    whole body, having consumed every fragment exactly once. -/
theorem C17_ble_response (control cc tid status : UInt8) (p0 : Bytes) (ps : List Bytes)
    (hst : status.toNat < 7) (hcc : cc.toNat &&& 0x80 ≠ 0) (hne : ∀ p ∈ ps, p ≠ [])
    (hlen : (p0 ++ ps.flatten).length < 65536) :
    readPdu tid ((respond control cc tid status (p0 ++ ps.flatten).length p0 ps).map some)
      = (.ok (status.toNat, p0 ++ ps.flatten), 1 + ps.length) := by
  simp only [respond, List.map_cons, List.map_map, readPdu]
  have hfirst : decodeFirst tid ([control, tid, status] ++ Spec.Pdu.le16b (p0 ++ ps.flatten).length ++ p0)
      = .ok (status.toNat, (p0 ++ ps.flatten).length, p0) := by
    have h5 : ¬ ([control, tid, status] ++ Spec.Pdu.le16b (p0 ++ ps.flatten).length ++ p0).length < 5 := by
      simp [Spec.Pdu.le16b]
    have hs : ¬ status.toNat ≥ bleStatusCount := by simp [bleStatusCount]; omega
    have htake : (Spec.Pdu.le16b (p0 ++ ps.flatten).length ++ p0).take 2 = Spec.Pdu.le16b (p0 ++ ps.flatten).length := by
      simp [Spec.Pdu.le16b]
    have hdrop : (Spec.Pdu.le16b (p0 ++ ps.flatten).length ++ p0).drop 2 = p0 := by
      simp [Spec.Pdu.le16b]
    simp only [List.cons_append, List.nil_append, decodeFirst, hs, if_false, ne_eq, not_true_eq_false]
    rw [if_neg (by simpa using h5), htake, hdrop, le16_le16b _ hlen]
  rw [hfirst]
  simp only
  have := readLoop_pieces tid cc hcc ps p0 (p0 ++ ps.flatten).length 1 hne rfl
  simp only [Function.comp_def] at this ⊢
  rw [this]

example : readPdu 9 ((respond 2 0x82 9 0 5 [1, 2] [[3], [4, 5]]).map some) = (.ok (0, [1, 2, 3, 4, 5]), 3) := by
  decide

/-- a 3-byte response (no length field) is a status with an empty body -/
theorem C17_ble_response_short (control tid status : UInt8) (hst : status.toNat < 7) :
    readPdu tid [some [control, tid, status]] = (.ok (status.toNat, []), 1) := by
  have hs : ¬ status.toNat ≥ bleStatusCount := by simp [bleStatusCount]; omega
  simp [readPdu, decodeFirst, hs, readLoop]

/-- **Rejects**: a first fragment with another transaction id, and a continuation fragment with
    another transaction id or without the continuation flag, are errors. -/
theorem C17_ble_rejects_first (tid t control status : UInt8) (rest : Bytes) (ht : t ≠ tid) :
    ∃ e, decodeFirst tid (control :: t :: status :: rest) = .error e := by
  simp only [decodeFirst]
  split
  · exact ⟨_, rfl⟩
  · simp [ht]

theorem C17_ble_rejects_cont (tid t control : UInt8) (rest : Bytes) (h : t ≠ tid ∨ control.toNat &&& 0x80 = 0) :
    decodeCont tid (control :: t :: rest) = .error .value := by
  simp only [decodeCont]
  rcases h with h | h
  · split
    · rfl
    · simp [h]
  · simp [h]

/-- ... and the error surfaces from the read loop: nothing is returned for the request. -/
theorem C17_ble_rejects (tid : UInt8) (exp : Nat) (data bad : Bytes) (rest : List (Option Bytes)) (n : Nat)
    (hneed : data.length < exp) (hbad : decodeCont tid bad = .error .value) :
    readLoop tid exp (some bad :: rest) data n = (.error .value, n + 1) := by
  rw [readLoop]
  have : ¬ data.length ≥ exp := by omega
  simp [this, hbad]

/-! ## CoAP batches -/

/-- what the controller must report for each accessory outcome -/
def expected : Outcome → Res
  | .ok b => .body b
  | .errStatus s _ => .status s.toNat
  | .wrongTid _ _ => .status 256
  | .badControl _ _ => .status 257

theorem toNat_ofNat_lt (i : Nat) (h : i < 256) : (UInt8.ofNat i).toNat = i := by
  simp [Nat.mod_eq_of_lt h]

theorem le16b_val (n : Nat) (h : n < 65536) :
    (UInt8.ofNat (n % 256)).toNat + 256 * (UInt8.ofNat (n / 256 % 256)).toNat = n := by
  have h1 : n % 256 < 256 := Nat.mod_lt _ (by omega)
  have h2 : n / 256 % 256 < 256 := Nat.mod_lt _ (by omega)
  simp [Nat.mod_eq_of_lt h1, Nat.mod_eq_of_lt h2]
  omega

theorem drop5 (a b c d e : UInt8) (body tail : Bytes) :
    (a :: b :: c :: d :: e :: (body ++ tail)).drop (5 + body.length) = tail := by
  rw [Nat.add_comm]
  simp [List.drop_succ_cons]

/-- decoding one item at the head of the stream -/
theorem coapDecodeOne_outcome (i : Nat) (hi : i < 256) (o : Outcome) (h : o.WF i) (tail : Bytes) :
    coapDecodeOne i (o.bytes i ++ tail) = .ok (o.body.length, expected o) ∧
      (o.bytes i ++ tail).length = 5 + o.body.length + tail.length ∧
      (o.bytes i ++ tail).drop (5 + o.body.length) = tail := by
  cases o with
  | ok b =>
    simp only [Outcome.WF] at h
    refine ⟨?_, by simp [Outcome.bytes, Spec.Pdu.le16b, Outcome.body]; omega, ?_⟩
    · simp only [Outcome.bytes, Spec.Pdu.le16b, List.cons_append, List.nil_append, coapDecodeOne, le16b_val _ h,
        toNat_ofNat_lt i hi, Outcome.body, expected]
      simp
    · simp only [Outcome.bytes, Spec.Pdu.le16b, Outcome.body, List.cons_append, List.nil_append]
      exact drop5 _ _ _ _ _ _ _
  | errStatus s b =>
    simp only [Outcome.WF] at h
    obtain ⟨h0, h7, hb⟩ := h
    refine ⟨?_, by simp [Outcome.bytes, Spec.Pdu.le16b, Outcome.body]; omega, ?_⟩
    · simp only [Outcome.bytes, Spec.Pdu.le16b, List.cons_append, List.nil_append, coapDecodeOne, le16b_val _ hb,
        toNat_ofNat_lt i hi, Outcome.body, expected]
      have h1 : ¬ s.toNat ≥ 7 := by omega
      have h2 : s ≠ 0 := by intro h; subst h; simp at h0
      simp [h1, h2]
    · simp only [Outcome.bytes, Spec.Pdu.le16b, Outcome.body, List.cons_append, List.nil_append]
      exact drop5 _ _ _ _ _ _ _
  | wrongTid t b =>
    simp only [Outcome.WF] at h
    obtain ⟨ht, hb⟩ := h
    refine ⟨?_, by simp [Outcome.bytes, Spec.Pdu.le16b, Outcome.body]; omega, ?_⟩
    · simp only [Outcome.bytes, Spec.Pdu.le16b, List.cons_append, List.nil_append, coapDecodeOne, le16b_val _ hb,
        Outcome.body, expected]
      simp [ht]
    · simp only [Outcome.bytes, Spec.Pdu.le16b, Outcome.body, List.cons_append, List.nil_append]
      exact drop5 _ _ _ _ _ _ _
  | badControl c b =>
    simp only [Outcome.WF] at h
    obtain ⟨hc, hb⟩ := h
    refine ⟨?_, by simp [Outcome.bytes, Spec.Pdu.le16b, Outcome.body]; omega, ?_⟩
    · simp only [Outcome.bytes, Spec.Pdu.le16b, List.cons_append, List.nil_append, coapDecodeOne, le16b_val _ hb,
        toNat_ofNat_lt i hi, Outcome.body, expected]
      simp [hc]
    · simp only [Outcome.bytes, Spec.Pdu.le16b, Outcome.body, List.cons_append, List.nil_append]
      exact drop5 _ _ _ _ _ _ _

/-- **CoAP, positional**: for every non-empty batch and every combination of per-item outcomes
    (ok with any body, each error status with any body, wrong tid, wrong control bits), the decoded
    list has one entry per item and its i-th entry is the i-th item's outcome - nothing is shifted
    or hidden. -/
theorem C17_coap_positional : ∀ (os : List Outcome) (k fuel : Nat), os ≠ [] → k + os.length ≤ 256 →
    (∀ j (h : j < os.length), (os[j]).WF (k + j)) → os.length ≤ fuel →
    coapDecodeAll fuel k (respondAll k os) = .ok (os.map expected) := by
  intro os
  induction os with
  | nil => intro k fuel h; exact absurd rfl h
  | cons o os ih =>
    intro k fuel _ hk hwf hfuel
    obtain ⟨f, rfl⟩ : ∃ f, fuel = f + 1 := ⟨fuel - 1, by simp at hfuel; omega⟩
    have hwf0 : o.WF k := by
      have := hwf 0 (by simp)
      simpa using this
    obtain ⟨hdec, hlen, hdrop⟩ := coapDecodeOne_outcome k (by simp at hk; omega) o hwf0 (respondAll (k + 1) os)
    simp only [respondAll, coapDecodeAll, hdec]
    by_cases hos : os = []
    · subst hos
      simp only [respondAll, List.append_nil, List.map_cons, List.map_nil] at hlen ⊢
      have : 5 + o.body.length ≥ (o.bytes k).length := by simp [respondAll] at hlen; omega
      simp [this]
    · have hpos : 0 < (respondAll (k + 1) os).length := by
        cases os with
        | nil => exact absurd rfl hos
        | cons o2 os2 =>
          simp only [respondAll, List.length_append]
          have : 0 < (o2.bytes (k + 1)).length := by cases o2 <;> simp [Outcome.bytes]
          omega
      have hnot : ¬ 5 + o.body.length ≥ (o.bytes k ++ respondAll (k + 1) os).length := by omega
      simp only [hnot, if_false, hdrop]
      rw [ih (k + 1) f hos (by simp at hk ⊢; omega) ?_ (by simp at hfuel; omega)]
      · simp
      · intro j hj
        have := hwf (j + 1) (by simp; omega)
        simpa [Nat.add_assoc, Nat.add_comm 1 j] using this

/-- the public entry point `decode_all_pdus(0, data)` -/
theorem C17_coap_positional_public (os : List Outcome) (hne : os ≠ []) (hn : os.length ≤ 256)
    (hwf : ∀ j (h : j < os.length), (os[j]).WF j) :
    coapDecode 0 (respondAll 0 os) = .ok (os.map expected) := by
  unfold coapDecode
  apply C17_coap_positional os 0 _ hne (by omega) (by simpa using hwf)
  -- every item occupies at least 5 bytes, so the byte length bounds the item count
  have : ∀ (os : List Outcome) (k : Nat), os.length ≤ (respondAll k os).length := by
    intro os
    induction os with
    | nil => intro k; simp
    | cons o os ih =>
      intro k
      simp only [respondAll, List.length_append, List.length_cons]
      have : 0 < (o.bytes k).length := by cases o <;> simp [Outcome.bytes]
      have := ih (k + 1)
      omega
  have := this os 0
  omega

example : coapDecode 0 (respondAll 0 [.ok [1, 2], .errStatus 6 [9], .wrongTid 7 [], .badControl 0 [5], .ok []])
    = .ok [.body [1, 2], .status 6, .status 256, .status 257, .body []] := by decide

/-- **CoAP, attribution**: with as many results as requested ids, the i-th result is keyed by the
    i-th requested id. -/
theorem C17_coap_mapping {α} (ids : List α) (rs : List Res) (h : rs.length = ids.length) :
    attributeTo ids rs = .ok (ids.zip rs) ∧ (ids.zip rs).length = ids.length ∧
      ∀ i (hi : i < (ids.zip rs).length), (ids.zip rs)[i] = (ids[i]'(by simp at hi; omega), rs[i]'(by simp at hi; omega)) := by
  refine ⟨by simp [attributeTo, h], by simp [h], ?_⟩
  intro i hi
  simp

/-- tie to the source: struct formats, status table sizes, fragment header sizes -/
theorem C17_gen_tie : Gen.Pdu.bleFirstOverhead = 7 ∧ Gen.Pdu.bleContOverhead = 2 ∧
    Gen.Pdu.bleStatusValues = [0, 1, 2, 3, 4, 5, 6] ∧ Gen.Pdu.coapStatusValues = [0, 1, 2, 3, 4, 5, 6, 256, 257] ∧
    Gen.Pdu.bleFormats = ["<BBBH", "<BBB", "<BBB", "<H", "<H", "<BB", "<BB"] ∧
    Gen.Pdu.coapFormats = ["<BBBHH", "<BBBH"] ∧ Gen.Pdu.contFlag = 128 ∧
    Gen.Pdu.coapControlMask = 14 ∧ Gen.Pdu.coapControlValue = 2 := by decide

/-! ## CoAP batch REQUESTS: what the accessory receives for the i-th requested characteristic -/

/-- a conformant accessory reading one request PDU off the front of a batch: (opcode, tid, iid, body) and the rest -/
def reqReadOne (data : Bytes) : Option ((UInt8 × Nat × Nat × Bytes) × Bytes) :=
  match data with
  | _control :: op :: tid :: i0 :: i1 :: l0 :: l1 :: rest =>
    let n := l0.toNat + 256 * l1.toNat
    if rest.length < n then none
    else some ((op, tid.toNat, i0.toNat + 256 * i1.toNat, rest.take n), rest.drop n)
  | _ => none

def reqReadAll : Nat → Bytes → Option (List (UInt8 × Nat × Nat × Bytes))
  | 0, _ => none
  | fuel + 1, data =>
    if data = [] then some []
    else match reqReadOne data with
      | none => none
      | some (r, rest) => (reqReadAll fuel rest).map (r :: ·)

/-- `encode_all_pdus` from transaction id `k` on -/
def encFrom (opcode : UInt8) (k : Nat) (items : List (Nat × Bytes)) : Bytes :=
  ((items.zipIdx k).map fun ((iid, data), idx) => coapEncodeOne opcode idx iid data).flatten

theorem encFrom_zero (opcode : UInt8) (items : List (Nat × Bytes)) : coapEncodeAll opcode items = encFrom opcode 0 items := rfl

theorem reqReadOne_encode (op : UInt8) (tid iid : Nat) (body tail : Bytes) (ht : tid < 256) (hi : iid < 65536)
    (hb : body.length < 65536) :
    reqReadOne (coapEncodeOne op tid iid body ++ tail) = some ((op, tid, iid, body), tail) := by
  simp only [coapEncodeOne, Pdu.le16b, List.cons_append, List.nil_append, List.append_assoc, reqReadOne,
    le16b_val _ hb, le16b_val _ hi, toNat_ofNat_lt tid ht]
  have h1 : ¬ (body ++ tail).length < body.length := by simp
  simp [h1]

/-- **CoAP, request side**: for every batch of (instance id, value) pairs - any number up to 256, any values - a
    conformant accessory reading the emitted bytes receives exactly one request per item, in order, under transaction
    ids k, k+1, ..., each carrying ITS OWN instance id and ITS OWN value: nothing is shifted, dropped or re-paired. -/
theorem C17_coap_request_attribution (op : UInt8) : ∀ (items : List (Nat × Bytes)) (k fuel : Nat),
    k + items.length ≤ 256 → (∀ it ∈ items, it.1 < 65536 ∧ it.2.length < 65536) → items.length < fuel →
    reqReadAll fuel (encFrom op k items) =
      some ((items.zipIdx k).map fun ((iid, data), idx) => (op, idx, iid, data)) := by
  intro items
  induction items with
  | nil =>
    intro k fuel _ _ hf
    obtain ⟨f, rfl⟩ : ∃ f, fuel = f + 1 := ⟨fuel - 1, by simp at hf; omega⟩
    simp [encFrom, reqReadAll]
  | cons it items ih =>
    intro k fuel hk hwf hf
    obtain ⟨f, rfl⟩ : ∃ f, fuel = f + 1 := ⟨fuel - 1, by simp at hf; omega⟩
    obtain ⟨iid, body⟩ := it
    have hw := hwf (iid, body) (by simp)
    have henc : encFrom op k ((iid, body) :: items) = coapEncodeOne op k iid body ++ encFrom op (k + 1) items := by
      simp [encFrom, List.zipIdx_cons]
    have hne : coapEncodeOne op k iid body ++ encFrom op (k + 1) items ≠ [] := by simp [coapEncodeOne]
    rw [henc]
    simp only [reqReadAll, hne, if_false,
      reqReadOne_encode op k iid body _ (by simp at hk; omega) hw.1 hw.2]
    rw [ih (k + 1) f (by simp at hk ⊢; omega) (fun x hx => hwf x (by simp [hx])) (by simp at hf; omega)]
    simp [List.zipIdx_cons]

/-- the public entry point `encode_all_pdus(opcode, iids, data)` zips its two lists: when the caller passes one value
    per requested id (`write_characteristics`: the ids of ALL items and the values of ALL items) the accessory
    receives, for the i-th requested characteristic, exactly the i-th value -/
theorem C17_coap_write_batch (op : UInt8) (req : List (Nat × Bytes)) (hn : req.length ≤ 256)
    (hwf : ∀ it ∈ req, it.1 < 65536 ∧ it.2.length < 65536) :
    reqReadAll (req.length + 1) (coapEncodeAll op ((req.map (·.1)).zip (req.map (·.2)))) =
      some ((req.zipIdx 0).map fun ((iid, data), idx) => (op, idx, iid, data)) := by
  have hz : (req.map (·.1)).zip (req.map (·.2)) = req := by
    induction req with
    | nil => rfl
    | cons x xs ih => simp [List.zip_cons_cons, ih (by simp at hn; omega) (fun y hy => hwf y (by simp [hy]))]
  rw [hz, encFrom_zero]
  exact C17_coap_request_attribution op req 0 _ (by omega) hwf (by omega)

/-- what goes wrong when the two lists do NOT have one entry per requested item (a value list that skipped an item):
    `zip` re-pairs the remaining values with the wrong instance ids and drops the last id - kernel-checked witness of
    why the hypothesis matters -/
example : reqReadAll 4 (coapEncodeAll 2 ([51, 50, 52].zip [[1], [25]])) =
    some [(2, 0, 51, [1]), (2, 1, 50, [25])] := by decide

end HapVerif.C17
