import HapVerif.Model.Broadcast
import HapVerif.Gen.Misc

/-! # C18 - BLE broadcast notifications are accepted only if authentic and fresh -/

namespace HapVerif.C18
open HapVerif HapVerif.Broadcast

theorem mem_candidates (s g : Nat) : g ∈ candidates s ↔ s ≤ g ∧ g < s + 100 := by
  simp only [candidates, List.mem_append, List.mem_cons, List.mem_range', List.mem_nil_iff, or_false]
  constructor
  · rintro (h | h | ⟨i, hi, rfl⟩) <;> omega
  · intro ⟨h1, h2⟩
    by_cases e1 : g = s + 1
    · left; left; exact e1
    by_cases e2 : g = s
    · left; right; exact e2
    · right; exact ⟨g - (s + 2), by omega, by omega⟩

/-- **Accepted ⇒ authentic and fresh**: a value reaches listeners only for a genuine sealing under
    this pairing's key and advertising identifier whose nonce counter `g` is strictly newer than
    the last accepted state number (and within the window), and whose inner counter equals the
    nonce counter; it is delivered under the characteristic id inside it, and the state number
    becomes `g`. -/
theorem C18_accept_implies_authentic_fresh (s : St) (a : Adv) (iid : Nat) (value : Bytes)
    (h : (step s a).2 = .delivered iid value) :
    ∃ g, a = .genuine s.advId g g iid value ∧ s.stateNum < g ∧ g < s.stateNum + 100 ∧ (step s a).1.stateNum = g ∧
      (step s a).1.advId = s.advId := by
  unfold step at h ⊢
  by_cases h1 : a.advId ≠ s.advId
  · simp [h1] at h
  · simp only [h1, if_false] at h ⊢
    by_cases hk : s.hasKey = true
    · simp only [hk, Bool.not_true, Bool.false_eq_true, if_false] at h ⊢
      cases a with
      | foreign x => simp at h
      | short x => simp at h
      | genuine ad g inner i v =>
        simp only at h ⊢
        by_cases hc : g ∈ candidates s.stateNum
        · simp only [hc, if_true] at h ⊢
          by_cases hs : g = s.stateNum
          · simp [hs] at h
          · simp only [hs, if_false] at h ⊢
            by_cases hi : inner ≠ g
            · simp [hi] at h
            · simp only [hi, if_false] at h ⊢
              have hi' : inner = g := Decidable.of_not_not hi
              have had : ad = s.advId := by simpa [Adv.advId] using h1
              injection h with e1 e2
              have := (mem_candidates _ _).mp hc
              exact ⟨g, by rw [had, hi', e1, e2], by omega, by omega, by simp⟩
        · simp [hc] at h
    · simp [hk] at h

/-- **Rejected ⇒ nothing changes**: whenever nothing is delivered the pairing's state is exactly
    what it was (stale, older, beyond the window, wrong key, wrong identifier, altered bytes, inner
    counter ≠ nonce counter). -/
theorem C18_rejected_unchanged (s : St) (a : Adv) (h : ∀ iid value, (step s a).2 ≠ .delivered iid value) :
    (step s a).1 = s := by
  unfold step at h ⊢
  by_cases h1 : a.advId ≠ s.advId
  · simp [h1]
  · simp only [h1, if_false] at h ⊢
    cases hk : s.hasKey
    · simp
    · simp only [hk, Bool.not_true, Bool.false_eq_true, if_false] at h ⊢
      cases a with
      | foreign x => simp
      | short x => simp
      | genuine ad g inner i v =>
        simp only at h ⊢
        by_cases hc : g ∈ candidates s.stateNum
        · simp only [hc, if_true] at h ⊢
          by_cases hs : g = s.stateNum
          · simp [hs]
          · simp only [hs, if_false] at h ⊢
            by_cases hi : inner ≠ g
            · simp [hi]
            · simp only [hi, if_false] at h
              exact absurd rfl (h i v)
        · simp [hc]

/-- the state number never goes backwards and the identity never changes -/
theorem step_mono (s : St) (a : Adv) : s.stateNum ≤ (step s a).1.stateNum ∧ (step s a).1.advId = s.advId ∧
    (step s a).1.hasKey = s.hasKey := by
  by_cases h : ∃ iid value, (step s a).2 = .delivered iid value
  · obtain ⟨iid, value, hd⟩ := h
    obtain ⟨g, _, hlt, _, hst, had⟩ := C18_accept_implies_authentic_fresh s a iid value hd
    refine ⟨by omega, had, ?_⟩
    unfold step
    repeat' split
    all_goals rfl
  · have : (step s a).1 = s := C18_rejected_unchanged s a (by
      intro i v hv; exact h ⟨i, v, hv⟩)
    rw [this]; exact ⟨Nat.le_refl _, rfl, rfl⟩

theorem finalState_mono : ∀ (as : List Adv) (s : St), s.stateNum ≤ (finalState s as).stateNum ∧ (finalState s as).advId = s.advId := by
  intro as
  induction as with
  | nil => intro s; exact ⟨Nat.le_refl _, rfl⟩
  | cons a as ih =>
    intro s
    obtain ⟨h1, h2, _⟩ := step_mono s a
    obtain ⟨h3, h4⟩ := ih (step s a).1
    exact ⟨Nat.le_trans h1 h3, by rw [finalState, h4, h2]⟩

/-- **No replay, over whole histories**: a notification that was accepted is rejected whenever it
    is presented again, after any number of other advertisements in between. -/
theorem C18_no_replay (s : St) (a : Adv) (between : List Adv) (iid : Nat) (value : Bytes)
    (h : (step s a).2 = .delivered iid value) :
    ∀ iid' value', (step (finalState (step s a).1 between) a).2 ≠ .delivered iid' value' := by
  intro iid' value' h2
  obtain ⟨g, ha, _, _, hst, had⟩ := C18_accept_implies_authentic_fresh s a iid value h
  obtain ⟨g', ha', hlt', _, _, _⟩ := C18_accept_implies_authentic_fresh _ a iid' value' h2
  obtain ⟨hm, hid⟩ := finalState_mono between (step s a).1
  rw [ha] at ha'
  injection ha' with _ e2
  omega

/-- stale (current) and older state numbers are ignored even when authentic -/
theorem C18_stale_ignored (s : St) (ad g inner iid : Nat) (v : Bytes) (h : g ≤ s.stateNum) :
    ∀ i w, (step s (.genuine ad g inner iid v)).2 ≠ .delivered i w := by
  intro i w hd
  obtain ⟨g', ha, hlt, _, _, _⟩ := C18_accept_implies_authentic_fresh s _ i w hd
  injection ha with _ e2
  omega

/-- and so is anything 100 or more ahead -/
theorem C18_beyond_window_ignored (s : St) (ad g inner iid : Nat) (v : Bytes) (h : s.stateNum + 100 ≤ g) :
    ∀ i w, (step s (.genuine ad g inner iid v)).2 ≠ .delivered i w := by
  intro i w hd
  obtain ⟨g', ha, _, hlt, _, _⟩ := C18_accept_implies_authentic_fresh s _ i w hd
  injection ha with _ e2
  omega

/-- an accepted notification for an instance id the cached database does not know calls nobody - and everything
    else is observed as it is; since the state number advanced (the step itself is the same), the replay
    protection of `C18_no_replay` covers it too -/
theorem C18_unknown_iid_silent (unknown : List Nat) (o : Out) :
    (∀ iid value, observe unknown o = .delivered iid value → o = .delivered iid value ∧ iid ∉ unknown) ∧
    (∀ iid value, o = .delivered iid value → iid ∈ unknown → observe unknown o = .silent) ∧
    ((∀ iid value, o ≠ .delivered iid value) → observe unknown o = o) := by
  refine ⟨?_, ?_, ?_⟩
  · intro iid value h
    cases o with
    | delivered i v =>
      simp only [observe] at h
      split at h
      · cases h
      · rename_i hn; cases h; exact ⟨rfl, hn⟩
    | ignored => simp [observe] at h
    | fallback => simp [observe] at h
    | notRouted => simp [observe] at h
    | noDelivery => simp [observe] at h
    | silent => simp [observe] at h
  · intro iid value h hm
    subst h
    simp [observe, hm]
  · intro h
    cases o with
    | delivered i v => exact absurd rfl (h i v)
    | _ => rfl

example : run ⟨7, 10, true⟩ [.genuine 7 11 11 5 [1], .genuine 7 11 11 5 [1], .genuine 7 16 16 5 [2], .genuine 7 12 12 5 [3],
    .genuine 7 16 16 5 [2], .genuine 7 116 116 5 [4], .genuine 7 115 115 5 [4], .foreign 7, .genuine 7 117 118 5 [9], .genuine 8 116 116 5 [1]]
    = [.delivered 5 [1], .ignored, .delivered 5 [2], .fallback, .ignored, .fallback, .delivered 5 [4], .fallback, .ignored, .notRouted] := by
  decide

/-! ## value decoding -/

theorem le_take (k n : Nat) (h : n < 256 ^ k) (pad : Nat) :
    leToNat ((natToLe k n ++ List.replicate pad 0).take k) = n := by
  rw [List.take_left' (natToLe_length k n)]
  induction k generalizing n with
  | zero => have : n = 0 := by simpa using h
            subst this; rfl
  | succ k ih =>
    simp only [natToLe, leToNat, List.foldr_cons]
    have h1 : n % 256 < 256 := Nat.mod_lt _ (by decide)
    have h2 : n / 256 < 256 ^ k := by
      rw [Nat.div_lt_iff_lt_mul (by decide)]; rw [Nat.pow_succ] at h; exact h
    have := ih (n / 256) h2
    unfold leToNat at this
    rw [this]
    simp [Nat.mod_eq_of_lt h1]
    omega

/-- **Value decoding**: an unsigned value of width `k` that the accessory wrote little-endian into
    the 8-byte value field (zero padded) is delivered as that number -/
theorem C18_value_decoding_uint (n : Nat) :
    (n < 256 → decodeValue .uint8 (natToLe 1 n ++ List.replicate 7 0) = .n n) ∧
    (n < 256 ^ 2 → decodeValue .uint16 (natToLe 2 n ++ List.replicate 6 0) = .n n) ∧
    (n < 256 ^ 4 → decodeValue .uint32 (natToLe 4 n ++ List.replicate 4 0) = .n n) ∧
    (n < 256 ^ 8 → decodeValue .uint64 (natToLe 8 n ++ List.replicate 0 0) = .n n) := by
  refine ⟨fun h => ?_, fun h => ?_, fun h => ?_, fun h => ?_⟩ <;>
  · simp only [decodeValue]
    rw [le_take _ _ (by simpa using h)]

/-- the candidate state numbers the generated table describes, relative to the last accepted one -/
def candByTable (t : List (String × Nat × Nat)) (s : Nat) : List Nat :=
  t.flatMap (fun r => if r.1 = "at" then [s + r.2.1] else if r.1 = "range" then List.range' (s + r.2.1) (r.2.2 - r.2.1) else [])

/-- tie to the source (regenerated on every run from `_async_notification`): for every last accepted state number
    the model tries exactly the candidates the source lists, in the source's order (next, current, then +2 .. +99),
    and the wrap-around bound is the source's `MAX_GSN` -/
theorem C18_gen_tie (s : Nat) :
    candidates s = candByTable Gen.Misc.gsnCandidates s ∧ Gen.Misc.maxGsn = 65535 := by
  constructor
  · simp [candidates, candByTable, Gen.Misc.gsnCandidates]
  · decide

end HapVerif.C18
