import HapVerif.Model.Convert
import Mathlib.Data.Rat.Floor
import Mathlib.Tactic.Linarith
import Mathlib.Tactic.Ring
import Mathlib.Tactic.FieldSimp
import Mathlib.Tactic.Positivity

/-! # C14 - values prepared for writing respect format, range and step -/

namespace HapVerif.C14
open HapVerif.Convert

theorem C14_bool (s : String) : convertBool s = none ∨ convertBool s = some 0 ∨ convertBool s = some 1 := by
  unfold convertBool
  simp only
  split
  · right; right; rfl
  · split
    · right; left; rfl
    · left; rfl

/-! ## rounding lemmas -/

theorem floor_bounds (a : ℚ) : (a.floor : ℚ) ≤ a ∧ a < (a.floor : ℚ) + 1 := by
  refine ⟨Rat.floor_le a, ?_⟩
  have := Rat.lt_floor_add_one a
  push_cast at this
  exact this

/-- ROUND_HALF_UP on a non-negative number: the result `n` satisfies `n - 1/2 ≤ x < n + 1/2`
    (a tie `x = k + 1/2` goes to `k + 1`, upward) -/
theorem rhu_bounds (x : ℚ) (hx : 0 ≤ x) :
    ((roundHalfUpInt x : ℤ) : ℚ) - 1 / 2 ≤ x ∧ x < ((roundHalfUpInt x : ℤ) : ℚ) + 1 / 2 := by
  unfold roundHalfUpInt
  have hneg : ¬ x < 0 := not_lt.mpr hx
  simp only [hneg, if_false]
  obtain ⟨h1, h2⟩ := floor_bounds x
  by_cases h : x - (x.floor : ℚ) ≥ 1 / 2
  · simp only [h, if_true]
    push_cast
    constructor <;> linarith
  · simp only [h, if_false]
    have : x - (x.floor : ℚ) < 1 / 2 := not_le.mp h
    constructor <;> linarith

/-- an integer is its own half-even rounding -/
theorem rhe_int (z : ℤ) : roundHalfEvenInt (z : ℚ) = z := by
  unfold roundHalfEvenInt
  have hf : (z : ℚ).floor = z := Rat.floor_intCast z
  simp only [hf, sub_self]
  norm_num

/-! ## the step grid (integer formats: exact arithmetic) -/

/-- **On the grid**: the stepped value is `offset + k * step` for an integer `k`. -/
theorem C14_on_grid (v off step : ℚ) : ∃ k : ℤ, stepRound true v off step = off + k * step :=
  ⟨roundHalfUpInt ((v - off) / step), by simp [stepRound, ctxRound]⟩

/-- **Nearest, ties upward**: for a value at or above the offset the stepped value `g` satisfies
    `g - step/2 ≤ v < g + step/2` - it is a grid point nearest to `v`, and a value exactly
    between two grid points goes to the upper one. -/
theorem C14_nearest (v off step : ℚ) (hs : 0 < step) (hv : off ≤ v) :
    stepRound true v off step - step / 2 ≤ v ∧ v < stepRound true v off step + step / 2 := by
  have hx : 0 ≤ (v - off) / step := div_nonneg (by linarith) hs.le
  obtain ⟨h1, h2⟩ := rhu_bounds _ hx
  simp only [stepRound, ctxRound, if_true]
  have e : v = off + ((v - off) / step) * step := by field_simp; ring
  constructor
  · have := mul_le_mul_of_nonneg_right h1 hs.le
    nlinarith [this]
  · have := mul_lt_mul_of_pos_right h2 hs
    nlinarith [this]

/-- no other grid point is strictly nearer -/
theorem C14_no_nearer (v off step : ℚ) (hs : 0 < step) (hv : off ≤ v) (k : ℤ) :
    |v - stepRound true v off step| ≤ |v - (off + k * step)| := by
  obtain ⟨h1, h2⟩ := C14_nearest v off step hs hv
  obtain ⟨n, hn⟩ := C14_on_grid v off step
  rw [hn] at h1 h2 ⊢
  -- |v - (off + n step)| ≤ step/2; any other grid point differs by at least one step
  have hle : |v - (off + n * step)| ≤ step / 2 := by
    rw [abs_le]; constructor <;> linarith
  by_cases hk : k = n
  · subst hk; exact le_refl _
  · have hd : (1 : ℚ) ≤ |((k - n : ℤ) : ℚ)| := by
      have : (1 : ℤ) ≤ |k - n| := Int.one_le_abs (sub_ne_zero.mpr hk)
      exact_mod_cast this
    have hgap : step ≤ |(off + k * step) - (off + n * step)| := by
      have : (off + k * step) - (off + n * step) = ((k - n : ℤ) : ℚ) * step := by push_cast; ring
      rw [this, abs_mul, abs_of_pos hs]
      nlinarith [hd]
    have tri : |(off + k * step) - (off + n * step)| ≤ |v - (off + n * step)| + |v - (off + k * step)| := by
      have : (off + k * step) - (off + n * step) = (v - (off + n * step)) - (v - (off + k * step)) := by ring
      rw [this]; exact abs_sub _ _
    linarith

/-- **Within the range** whenever the bounds are themselves on the grid. -/
theorem C14_in_range (v mn step : ℚ) (m : ℕ) (hs : 0 < step) (h1 : mn ≤ v) (h2 : v ≤ mn + m * step) :
    mn ≤ stepRound true v mn step ∧ stepRound true v mn step ≤ mn + m * step := by
  have hx : 0 ≤ (v - mn) / step := div_nonneg (by linarith) hs.le
  obtain ⟨b1, b2⟩ := rhu_bounds _ hx
  simp only [stepRound, ctxRound, if_true]
  have hxm : (v - mn) / step ≤ m := by
    rw [div_le_iff₀ hs]; linarith
  set n := roundHalfUpInt ((v - mn) / step) with hn
  have hn0 : (0 : ℤ) ≤ n := by
    have : (-1 : ℚ) / 2 < (n : ℚ) := by linarith
    have : (-1 : ℚ) < (n : ℚ) := by linarith
    have : (-1 : ℤ) < n := by exact_mod_cast this
    omega
  have hnm : n ≤ (m : ℤ) := by
    have : (n : ℚ) < (m : ℚ) + 1 := by linarith
    have : (n : ℚ) < ((m + 1 : ℤ) : ℚ) := by push_cast; linarith
    have : n < (m : ℤ) + 1 := by exact_mod_cast this
    omega
  constructor
  · have : (0 : ℚ) ≤ (n : ℚ) * step := mul_nonneg (by exact_mod_cast hn0) hs.le
    linarith
  · have : (n : ℚ) * step ≤ (m : ℚ) * step := mul_le_mul_of_nonneg_right (by exact_mod_cast hnm) hs.le
    linarith

theorem clamp_range (mn mx v : ℚ) (h : mn ≤ mx) : mn ≤ clamp (some mn) (some mx) v ∧ clamp (some mn) (some mx) v ≤ mx := by
  unfold clamp
  simp only
  split <;> split <;> constructor <;> linarith

/-- **Integer formats, integer inputs of any magnitude**: with an integral minimum, step and
    (clamped) input the conversion returns exactly the nearest grid point - an integer, with no
    loss of digits whatever the magnitude. -/
theorem C14_int_exact (mn mx s z : ℤ) (hs : 0 < s) (h1 : mn ≤ z) (h2 : z ≤ mx) :
    ∃ g : ℤ, convert true (some (mn : ℚ)) (some (mx : ℚ)) (some (s : ℚ)) (z : ℚ) = (g : ℚ) ∧
      (∃ k : ℤ, g = mn + k * s) ∧ 2 * g - s ≤ 2 * z ∧ 2 * z < 2 * g + s := by
  have hsq : (0 : ℚ) < (s : ℚ) := by exact_mod_cast hs
  have hclamp : clamp (some (mn : ℚ)) (some (mx : ℚ)) (z : ℚ) = (z : ℚ) := by
    unfold clamp
    have a : ¬ ((mn : ℚ) > (z : ℚ)) := by push_neg; exact_mod_cast h1
    have b : ¬ ((mx : ℚ) < (z : ℚ)) := by push_neg; exact_mod_cast h2
    simp [a, b]
  have hne : ¬ ((s : ℚ) = 0) := ne_of_gt hsq
  set n := roundHalfUpInt (((z : ℚ) - (mn : ℚ)) / (s : ℚ)) with hn
  refine ⟨mn + n * s, ?_, ⟨n, rfl⟩, ?_, ?_⟩
  · unfold convert
    simp only [hclamp, hne, if_false, Option.getD_some, if_true]
    have : stepRound true (z : ℚ) (mn : ℚ) (s : ℚ) = ((mn + n * s : ℤ) : ℚ) := by
      simp only [stepRound, ctxRound, if_true]; push_cast; rfl
    rw [this, rhe_int]
  · obtain ⟨b1, _⟩ := C14_nearest (z : ℚ) (mn : ℚ) (s : ℚ) hsq (by exact_mod_cast h1)
    have e : stepRound true (z : ℚ) (mn : ℚ) (s : ℚ) = ((mn + n * s : ℤ) : ℚ) := by
      simp only [stepRound, ctxRound, if_true]; push_cast; rfl
    rw [e] at b1
    have : (2 * ((mn + n * s : ℤ) : ℚ) - (s : ℚ)) ≤ 2 * (z : ℚ) := by linarith
    exact_mod_cast this
  · obtain ⟨_, b2⟩ := C14_nearest (z : ℚ) (mn : ℚ) (s : ℚ) hsq (by exact_mod_cast h1)
    have e : stepRound true (z : ℚ) (mn : ℚ) (s : ℚ) = ((mn + n * s : ℤ) : ℚ) := by
      simp only [stepRound, ctxRound, if_true]; push_cast; rfl
    rw [e] at b2
    have : 2 * (z : ℚ) < 2 * ((mn + n * s : ℤ) : ℚ) + (s : ℚ) := by linarith
    exact_mod_cast this

/-- integer formats yield integers, always -/
theorem C14_int_format_integer (mn mx st : Option ℚ) (v : ℚ) : ∃ g : ℤ, convert true mn mx st v = (g : ℚ) := by
  unfold convert
  exact ⟨_, rfl⟩

/-- **Fractional values (six significant digits), partial**: when the four intermediate
    quantities are representable in six significant digits, the float path computes exactly what
    the exact path computes - hence the nearest grid point with ties upward.  The general bound
    (distance from the nearest grid point after four 6-digit roundings) is not proved; it is
    covered by the exact-rational oracle on samples. -/
theorem C14_nearest_6digits_partial (v off step : ℚ)
    (h1 : roundSig 6 (v - off) = v - off) (h2 : roundSig 6 ((v - off) / step) = (v - off) / step)
    (h3 : roundSig 6 ((roundHalfUpInt ((v - off) / step) : ℚ) * step) = (roundHalfUpInt ((v - off) / step) : ℚ) * step)
    (h4 : roundSig 6 (off + (roundHalfUpInt ((v - off) / step) : ℚ) * step) = off + (roundHalfUpInt ((v - off) / step) : ℚ) * step) :
    stepRound false v off step = stepRound true v off step := by
  simp only [stepRound, ctxRound, if_true, Bool.false_eq_true, if_false, h1, h2, h3, h4]

/-- non-vacuity and the unchanged-tree findings as regression facts: 1234567 and 2^32-1 stay exact;
    a tie goes upward; the float path reproduces 27.25 -> 27.5 on a 0.5 grid from 10 -/
example : convert true (some 0) (some 4294967295) (some 1) 1234567 = 1234567 := by decide +kernel
example : convert true (some 0) (some 4294967295) (some 1) 4294967295 = 4294967295 := by decide +kernel
example : convert true (some 0) (some 100) (some 5) (25 / 2) = 15 := by decide +kernel
example : convert false (some 10) (some 38) (some (1 / 2)) (109 / 4) = 55 / 2 := by decide +kernel

end HapVerif.C14
