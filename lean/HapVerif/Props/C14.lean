import HapVerif.Model.Convert
import HapVerif.Gen.Misc
import HapVerif.Proofs.BleMeta
import Mathlib.Data.Rat.Floor
import Mathlib.Tactic.Linarith
import Mathlib.Tactic.Ring
import Mathlib.Tactic.FieldSimp
import Mathlib.Tactic.Positivity
import Mathlib.Algebra.Order.Field.Power
import Mathlib.Tactic.NormNum

/-! # C14 - values prepared for writing respect format, range and step -/

namespace HapVerif.C14
open HapVerif.Convert

theorem C14_bool (s : String) : convertBool s = none ∨ convertBool s = some 0 ∨ convertBool s = some 1 := by
  unfold convertBool
  simp only
  split
  · right; right; rfl
  · split
    · right; left; rfl
    · left; rfl

/-! ## rounding lemmas -/

theorem floor_bounds (a : ℚ) : (a.floor : ℚ) ≤ a ∧ a < (a.floor : ℚ) + 1 := by
  refine ⟨Rat.floor_le a, ?_⟩
  have := Rat.lt_floor_add_one a
  push_cast at this
  exact this

/-- ROUND_HALF_UP on a non-negative number: the result `n` satisfies `n - 1/2 ≤ x < n + 1/2`
    (a tie `x = k + 1/2` goes to `k + 1`, upward) -/
theorem rhu_bounds (x : ℚ) (hx : 0 ≤ x) :
    ((roundHalfUpInt x : ℤ) : ℚ) - 1 / 2 ≤ x ∧ x < ((roundHalfUpInt x : ℤ) : ℚ) + 1 / 2 := by
  unfold roundHalfUpInt
  have hneg : ¬ x < 0 := not_lt.mpr hx
  simp only [hneg, if_false]
  obtain ⟨h1, h2⟩ := floor_bounds x
  by_cases h : x - (x.floor : ℚ) ≥ 1 / 2
  · simp only [h, if_true]
    push_cast
    constructor <;> linarith
  · simp only [h, if_false]
    have : x - (x.floor : ℚ) < 1 / 2 := not_le.mp h
    constructor <;> linarith

/-- an integer is its own half-even rounding -/
theorem rhe_int (z : ℤ) : roundHalfEvenInt (z : ℚ) = z := by
  unfold roundHalfEvenInt
  have hf : (z : ℚ).floor = z := Rat.floor_intCast z
  simp only [hf, sub_self]
  norm_num

/-! ## the step grid (integer formats: exact arithmetic) -/

/-- **On the grid**: the stepped value is `offset + k * step` for an integer `k`. -/
theorem C14_on_grid (v off step : ℚ) : ∃ k : ℤ, stepRound true v off step = off + k * step :=
  ⟨roundHalfUpInt ((v - off) / step), by simp [stepRound, ctxRound]⟩

/-- **Nearest, ties upward**: for a value at or above the offset the stepped value `g` satisfies
    `g - step/2 ≤ v < g + step/2` - it is a grid point nearest to `v`, and a value exactly
    between two grid points goes to the upper one. -/
theorem C14_nearest (v off step : ℚ) (hs : 0 < step) (hv : off ≤ v) :
    stepRound true v off step - step / 2 ≤ v ∧ v < stepRound true v off step + step / 2 := by
  have hx : 0 ≤ (v - off) / step := div_nonneg (by linarith) hs.le
  obtain ⟨h1, h2⟩ := rhu_bounds _ hx
  simp only [stepRound, ctxRound, if_true]
  have e : v = off + ((v - off) / step) * step := by field_simp; ring
  constructor
  · have := mul_le_mul_of_nonneg_right h1 hs.le
    nlinarith [this]
  · have := mul_lt_mul_of_pos_right h2 hs
    nlinarith [this]

/-- no other grid point is strictly nearer -/
theorem C14_no_nearer (v off step : ℚ) (hs : 0 < step) (hv : off ≤ v) (k : ℤ) :
    |v - stepRound true v off step| ≤ |v - (off + k * step)| := by
  obtain ⟨h1, h2⟩ := C14_nearest v off step hs hv
  obtain ⟨n, hn⟩ := C14_on_grid v off step
  rw [hn] at h1 h2 ⊢
  -- |v - (off + n step)| ≤ step/2; any other grid point differs by at least one step
  have hle : |v - (off + n * step)| ≤ step / 2 := by
    rw [abs_le]; constructor <;> linarith
  by_cases hk : k = n
  · subst hk; exact le_refl _
  · have hd : (1 : ℚ) ≤ |((k - n : ℤ) : ℚ)| := by
      have : (1 : ℤ) ≤ |k - n| := Int.one_le_abs (sub_ne_zero.mpr hk)
      exact_mod_cast this
    have hgap : step ≤ |(off + k * step) - (off + n * step)| := by
      have : (off + k * step) - (off + n * step) = ((k - n : ℤ) : ℚ) * step := by push_cast; ring
      rw [this, abs_mul, abs_of_pos hs]
      nlinarith [hd]
    have tri : |(off + k * step) - (off + n * step)| ≤ |v - (off + n * step)| + |v - (off + k * step)| := by
      have : (off + k * step) - (off + n * step) = (v - (off + n * step)) - (v - (off + k * step)) := by ring
      rw [this]; exact abs_sub _ _
    linarith

/-- **Within the range** whenever the bounds are themselves on the grid. -/
theorem C14_in_range (v mn step : ℚ) (m : ℕ) (hs : 0 < step) (h1 : mn ≤ v) (h2 : v ≤ mn + m * step) :
    mn ≤ stepRound true v mn step ∧ stepRound true v mn step ≤ mn + m * step := by
  have hx : 0 ≤ (v - mn) / step := div_nonneg (by linarith) hs.le
  obtain ⟨b1, b2⟩ := rhu_bounds _ hx
  simp only [stepRound, ctxRound, if_true]
  have hxm : (v - mn) / step ≤ m := by
    rw [div_le_iff₀ hs]; linarith
  set n := roundHalfUpInt ((v - mn) / step) with hn
  have hn0 : (0 : ℤ) ≤ n := by
    have : (-1 : ℚ) / 2 < (n : ℚ) := by linarith
    have : (-1 : ℚ) < (n : ℚ) := by linarith
    have : (-1 : ℤ) < n := by exact_mod_cast this
    omega
  have hnm : n ≤ (m : ℤ) := by
    have : (n : ℚ) < (m : ℚ) + 1 := by linarith
    have : (n : ℚ) < ((m + 1 : ℤ) : ℚ) := by push_cast; linarith
    have : n < (m : ℤ) + 1 := by exact_mod_cast this
    omega
  constructor
  · have : (0 : ℚ) ≤ (n : ℚ) * step := mul_nonneg (by exact_mod_cast hn0) hs.le
    linarith
  · have : (n : ℚ) * step ≤ (m : ℚ) * step := mul_le_mul_of_nonneg_right (by exact_mod_cast hnm) hs.le
    linarith

theorem clamp_range (mn mx v : ℚ) (h : mn ≤ mx) : mn ≤ clamp (some mn) (some mx) v ∧ clamp (some mn) (some mx) v ≤ mx := by
  unfold clamp
  simp only
  split <;> split <;> constructor <;> linarith

/-- **Integer formats, integer inputs of any magnitude**: with an integral minimum, step and
    (clamped) input the conversion returns exactly the nearest grid point - an integer, with no
    loss of digits whatever the magnitude. -/
theorem C14_int_exact (mn mx s z : ℤ) (hs : 0 < s) (h1 : mn ≤ z) (h2 : z ≤ mx) :
    ∃ g : ℤ, convert true (some (mn : ℚ)) (some (mx : ℚ)) (some (s : ℚ)) (z : ℚ) = (g : ℚ) ∧
      (∃ k : ℤ, g = mn + k * s) ∧ 2 * g - s ≤ 2 * z ∧ 2 * z < 2 * g + s := by
  have hsq : (0 : ℚ) < (s : ℚ) := by exact_mod_cast hs
  have hclamp : clamp (some (mn : ℚ)) (some (mx : ℚ)) (z : ℚ) = (z : ℚ) := by
    unfold clamp
    have a : ¬ ((mn : ℚ) > (z : ℚ)) := by push_neg; exact_mod_cast h1
    have b : ¬ ((mx : ℚ) < (z : ℚ)) := by push_neg; exact_mod_cast h2
    simp [a, b]
  have hne : ¬ ((s : ℚ) = 0) := ne_of_gt hsq
  set n := roundHalfUpInt (((z : ℚ) - (mn : ℚ)) / (s : ℚ)) with hn
  refine ⟨mn + n * s, ?_, ⟨n, rfl⟩, ?_, ?_⟩
  · unfold convert
    simp only [hclamp, hne, if_false, Option.getD_some, if_true]
    have : stepRound true (z : ℚ) (mn : ℚ) (s : ℚ) = ((mn + n * s : ℤ) : ℚ) := by
      simp only [stepRound, ctxRound, if_true]; push_cast; rfl
    rw [this, rhe_int]
  · obtain ⟨b1, _⟩ := C14_nearest (z : ℚ) (mn : ℚ) (s : ℚ) hsq (by exact_mod_cast h1)
    have e : stepRound true (z : ℚ) (mn : ℚ) (s : ℚ) = ((mn + n * s : ℤ) : ℚ) := by
      simp only [stepRound, ctxRound, if_true]; push_cast; rfl
    rw [e] at b1
    have : (2 * ((mn + n * s : ℤ) : ℚ) - (s : ℚ)) ≤ 2 * (z : ℚ) := by linarith
    exact_mod_cast this
  · obtain ⟨_, b2⟩ := C14_nearest (z : ℚ) (mn : ℚ) (s : ℚ) hsq (by exact_mod_cast h1)
    have e : stepRound true (z : ℚ) (mn : ℚ) (s : ℚ) = ((mn + n * s : ℤ) : ℚ) := by
      simp only [stepRound, ctxRound, if_true]; push_cast; rfl
    rw [e] at b2
    have : 2 * (z : ℚ) < 2 * ((mn + n * s : ℤ) : ℚ) + (s : ℚ) := by linarith
    exact_mod_cast this

/-- integer formats yield integers, always -/
theorem C14_int_format_integer (mn mx st : Option ℚ) (v : ℚ) : ∃ g : ℤ, convert true mn mx st v = (g : ℚ) := by
  unfold convert
  exact ⟨_, rfl⟩

/-- **Fractional values, the exact case**: when the four intermediate quantities are representable in six significant
    digits, the float path computes exactly what the exact path computes - hence the nearest grid point with ties
    upward.  The general case is `C14_float_within_six_digits` below. -/
theorem C14_nearest_6digits_exact (v off step : ℚ)
    (h1 : roundSig 6 (v - off) = v - off) (h2 : roundSig 6 ((v - off) / step) = (v - off) / step)
    (h3 : roundSig 6 ((roundHalfUpInt ((v - off) / step) : ℚ) * step) = (roundHalfUpInt ((v - off) / step) : ℚ) * step)
    (h4 : roundSig 6 (off + (roundHalfUpInt ((v - off) / step) : ℚ) * step) = off + (roundHalfUpInt ((v - off) / step) : ℚ) * step) :
    stepRound false v off step = stepRound true v off step := by
  simp only [stepRound, ctxRound, if_true, Bool.false_eq_true, if_false, h1, h2, h3, h4]

/-! ## the float path in general: six significant digits -/

/-- digits of a positive natural: `10^(d-1) ≤ n < 10^d` -/
theorem ndigits_spec : ∀ (n fuel : ℕ), n < fuel → 0 < n →
    10 ^ (ndigits fuel n - 1) ≤ n ∧ n < 10 ^ (ndigits fuel n) ∧ 0 < ndigits fuel n := by
  intro n
  induction n using Nat.strong_induction_on with
  | _ n ih =>
    intro fuel hf hn
    obtain ⟨f, rfl⟩ : ∃ f, fuel = f + 1 := ⟨fuel - 1, by omega⟩
    have hn0 : n ≠ 0 := by omega
    simp only [ndigits, hn0, if_false]
    by_cases hq : n / 10 = 0
    · have hlt : n < 10 := by omega
      cases f with
      | zero => omega
      | succ f' =>
        simp [ndigits, hq]
        omega
    · have hq0 : 0 < n / 10 := Nat.pos_of_ne_zero hq
      obtain ⟨h1, h2, h3⟩ := ih (n / 10) (by omega) f (by omega) hq0
      refine ⟨?_, ?_, by omega⟩
      · have : 1 + ndigits f (n / 10) - 1 = (ndigits f (n / 10) - 1) + 1 := by omega
        rw [this, pow_succ]
        have := Nat.div_mul_le_self n 10
        nlinarith
      · rw [show 1 + ndigits f (n / 10) = ndigits f (n / 10) + 1 by omega, pow_succ]
        have := Nat.lt_succ_iff.mp (Nat.lt_succ_of_le (Nat.le_refl (n / 10)))
        have h10 : n < (n / 10 + 1) * 10 := by omega
        nlinarith

theorem pow10_eq (e : ℤ) : pow10 e = (10 : ℚ) ^ e := by
  unfold pow10
  split
  · rename_i h
    have : e = (e.toNat : ℤ) := (Int.toNat_of_nonneg h).symm
    conv_rhs => rw [this]
    push_cast
    rw [zpow_natCast]
  · rename_i h
    have hneg : 0 ≤ -e := by omega
    have : e = -((-e).toNat : ℤ) := by rw [Int.toNat_of_nonneg hneg]; ring
    conv_rhs => rw [this]
    push_cast
    rw [zpow_neg, zpow_natCast]
    simp

/-- the adjusted exponent is a lower bound: `10^adjExp q ≤ |q|` -/
theorem adjExp_le (q : ℚ) (hq : q ≠ 0) : pow10 (adjExp q) ≤ |q| := by
  unfold adjExp
  have habs : (if q < 0 then -q else q) = |q| := by
    split
    · rename_i h; rw [abs_of_neg h]
    · rename_i h; rw [abs_of_nonneg (not_lt.mp h)]
  simp only [habs]
  have hpos : 0 < |q| := abs_pos.mpr hq
  generalize |q| = a at hpos ⊢
  split
  · split
    · rename_i _ h; exact h
    · rename_i h _; exact h
  · -- the digit-count estimate was one too high
    have hnum : 0 < a.num := Rat.num_pos.mpr hpos
    have hn : 0 < a.num.toNat := by omega
    have hd : 0 < a.den := a.den_pos
    obtain ⟨n1, _, n3⟩ := ndigits_spec a.num.toNat (a.num.toNat + 1) (by omega) hn
    obtain ⟨_, d2, d3⟩ := ndigits_spec a.den (a.den + 1) (by omega) hd
    set i := ndigits (a.num.toNat + 1) a.num.toNat
    set j := ndigits (a.den + 1) a.den
    rw [pow10_eq]
    have ha : a = (a.num.toNat : ℚ) / (a.den : ℚ) := by
      have h1 : ((a.num.toNat : ℕ) : ℤ) = a.num := Int.toNat_of_nonneg hnum.le
      have h2 : ((a.num.toNat : ℕ) : ℚ) = (a.num : ℚ) := by exact_mod_cast h1
      rw [h2]; exact (Rat.num_div_den a).symm
    have e : ((i : ℤ) - (j : ℤ) - 1) = ((i - 1 : ℕ) : ℤ) - (j : ℤ) := by
      have : 1 ≤ i := n3
      push_cast [Nat.cast_sub this]; ring
    rw [e, zpow_sub₀ (by norm_num : (10 : ℚ) ≠ 0), zpow_natCast, zpow_natCast]
    rw [ha, div_le_div_iff₀ (by positivity) (by exact_mod_cast hd)]
    have h1 : ((10 ^ (i - 1) : ℕ) : ℚ) ≤ (a.num.toNat : ℚ) := by exact_mod_cast n1
    have h2 : ((a.den : ℕ) : ℚ) ≤ ((10 ^ j : ℕ) : ℚ) := by exact_mod_cast d2.le
    push_cast at h1 h2
    have h3 : (0 : ℚ) ≤ (a.den : ℚ) := by positivity
    have h4 : (0 : ℚ) ≤ (10 : ℚ) ^ (i - 1) := by positivity
    calc (10 : ℚ) ^ (i - 1) * (a.den : ℚ) ≤ (10 : ℚ) ^ (i - 1) * (10 : ℚ) ^ j := by
          exact mul_le_mul_of_nonneg_left h2 h4
      _ ≤ (a.num.toNat : ℚ) * (10 : ℚ) ^ j := by
          exact mul_le_mul_of_nonneg_right h1 (by positivity)

theorem rhu_abs (z : ℚ) : |((roundHalfUpInt z : ℤ) : ℚ) - z| ≤ 1 / 2 := by
  by_cases hz : z < 0
  · have hneg : roundHalfUpInt z = - roundHalfUpInt (-z) := by
      have h2 : ¬ (-z < 0) := by linarith
      unfold roundHalfUpInt
      simp only [hz, h2, if_true, if_false]
    obtain ⟨b1, b2⟩ := rhu_bounds (-z) (by linarith)
    rw [hneg]
    push_cast
    rw [abs_le]
    constructor <;> linarith
  · obtain ⟨b1, b2⟩ := rhu_bounds z (not_lt.mp hz)
    rw [abs_le]
    constructor <;> linarith

/-- rounding to six significant digits: relative error at most 5·10⁻⁶ -/
theorem roundSig6_rel (q : ℚ) : |roundSig 6 q - q| * 200000 ≤ |q| := by
  unfold roundSig
  by_cases hq : q = 0
  · simp [hq]
  · simp only [hq, if_false]
    have hle := adjExp_le q hq
    rw [pow10_eq] at hle
    set e := adjExp q
    have hs : pow10 (e - ((6 : ℕ) : ℤ) + 1) = (10 : ℚ) ^ e / 100000 := by
      rw [pow10_eq]
      have : e - ((6 : ℕ) : ℤ) + 1 = e - 5 := by push_cast; ring
      rw [this, zpow_sub₀ (by norm_num : (10 : ℚ) ≠ 0)]
      norm_num
    rw [hs]
    set sc := (10 : ℚ) ^ e / 100000 with hsc
    have hpos : 0 < sc := by positivity
    have hr := rhu_abs (q / sc)
    have : ((roundHalfUpInt (q / sc) : ℤ) : ℚ) * sc - q = (((roundHalfUpInt (q / sc) : ℤ) : ℚ) - q / sc) * sc := by
      field_simp
    rw [this, abs_mul, abs_of_pos hpos]
    have h1 : |((roundHalfUpInt (q / sc) : ℤ) : ℚ) - q / sc| * sc ≤ 1 / 2 * sc :=
      mul_le_mul_of_nonneg_right hr hpos.le
    have h2 : sc * 100000 = (10 : ℚ) ^ e := by rw [hsc]; field_simp
    nlinarith

theorem rhu_nonneg (x : ℚ) (hx : 0 ≤ x) : 0 ≤ roundHalfUpInt x := by
  obtain ⟨_, b2⟩ := rhu_bounds x hx
  by_contra h
  have : roundHalfUpInt x ≤ -1 := by omega
  have : ((roundHalfUpInt x : ℤ) : ℚ) ≤ -1 := by exact_mod_cast this
  linarith

theorem roundSig_nonneg (q : ℚ) (hq : 0 ≤ q) : 0 ≤ roundSig 6 q := by
  unfold roundSig
  split
  · exact le_refl _
  · have hp : 0 < pow10 (adjExp q - ((6 : ℕ) : ℤ) + 1) := by rw [pow10_eq]; positivity
    have := rhu_nonneg (q / pow10 (adjExp q - ((6 : ℕ) : ℤ) + 1)) (div_nonneg hq hp.le)
    have h2 : (0 : ℚ) ≤ ((roundHalfUpInt (q / pow10 (adjExp q - ((6 : ℕ) : ℤ) + 1)) : ℤ) : ℚ) := by exact_mod_cast this
    exact mul_nonneg h2 hp.le

/-- **Fractional values, in general**: the float path (every arithmetic result kept to six significant digits) returns
    the six-digit rendering of a grid point `off + k·step` whose index `k` is the exact quotient rounded half-up, up to
    the relative slack 1/99999 that the two roundings before `to_integral_value` can introduce; the two roundings after it
    move the result by at most a relative 1/199999 of the magnitudes involved. -/
theorem C14_float_within_six_digits (v off step : ℚ) (hs : 0 < step) (hv : off ≤ v) :
    ∃ k : ℤ, |(k : ℚ) - (v - off) / step| ≤ 1 / 2 + ((v - off) / step) / 99999 ∧
      |stepRound false v off step - (off + k * step)| ≤ (|off + k * step| + |(k : ℚ) * step|) / 199999 := by
  have ha : 0 ≤ v - off := by linarith
  set a := v - off with hadef
  set d := roundSig 6 a with hddef
  set q := roundSig 6 (d / step) with hqdef
  set k := roundHalfUpInt q with hkdef
  set m := roundSig 6 ((k : ℚ) * step) with hmdef
  have hg : stepRound false v off step = roundSig 6 (off + m) := by
    simp [stepRound, ctxRound, ← hadef, ← hddef, ← hqdef, ← hkdef, ← hmdef]
  refine ⟨k, ?_, ?_⟩
  · have hd := roundSig6_rel a
    rw [abs_of_nonneg ha] at hd
    have hd0 : 0 ≤ d := roundSig_nonneg a ha
    have hy0 : 0 ≤ d / step := div_nonneg hd0 hs.le
    have hq := roundSig6_rel (d / step)
    rw [abs_of_nonneg hy0] at hq
    have hk := rhu_abs q
    have hx0 : 0 ≤ a / step := div_nonneg ha hs.le
    -- |y - x| ≤ x / 200000
    have hyx : |d / step - a / step| * 200000 ≤ a / step := by
      have : d / step - a / step = (d - a) / step := by ring
      rw [this, abs_div, abs_of_pos hs, div_mul_eq_mul_div]
      exact div_le_div_of_nonneg_right hd hs.le
    rw [abs_le] at hk ⊢
    have h1 := abs_le.mp (show |q - d / step| ≤ (d / step) / 200000 by
      rw [le_div_iff₀ (by norm_num)]; exact hq)
    have h2 := abs_le.mp (show |d / step - a / step| ≤ (a / step) / 200000 by
      rw [le_div_iff₀ (by norm_num)]; exact hyx)
    constructor <;> linarith [h1.1, h1.2, h2.1, h2.2, hk.1, hk.2]
  · rw [hg]
    have hm := roundSig6_rel ((k : ℚ) * step)
    have hgm := roundSig6_rel (off + m)
    have t1 : |roundSig 6 (off + m) - (off + k * step)| ≤ |roundSig 6 (off + m) - (off + m)| + |m - (k : ℚ) * step| := by
      have := abs_sub_le (roundSig 6 (off + m)) (off + m) (off + k * step)
      have e : off + m - (off + (k : ℚ) * step) = m - (k : ℚ) * step := by ring
      rw [e] at this; exact this
    have t2 : |off + m| ≤ |off + (k : ℚ) * step| + |m - (k : ℚ) * step| := by
      have := abs_add_le (off + (k : ℚ) * step) (m - (k : ℚ) * step)
      have e : off + (k : ℚ) * step + (m - (k : ℚ) * step) = off + m := by ring
      rw [e] at this; exact this
    have n1 : 0 ≤ |off + (k : ℚ) * step| := abs_nonneg _
    have n2 : 0 ≤ |(k : ℚ) * step| := abs_nonneg _
    have n3 : 0 ≤ |m - (k : ℚ) * step| := abs_nonneg _
    rw [le_div_iff₀ (by norm_num)]
    nlinarith

/-- the same as a distance: the result is within half a step of the input, plus a relative 10⁻⁵ of the magnitudes
    involved (the price of six significant digits) -/
theorem C14_float_distance (v off step : ℚ) (hs : 0 < step) (hv : off ≤ v) :
    ∃ k : ℤ, |stepRound false v off step - v| ≤
      step / 2 + (v - off) / 99999 + (|off + k * step| + |(k : ℚ) * step|) / 199999 := by
  obtain ⟨k, h1, h2⟩ := C14_float_within_six_digits v off step hs hv
  refine ⟨k, ?_⟩
  have t := abs_sub_le (stepRound false v off step) (off + k * step) v
  have e : off + (k : ℚ) * step - v = ((k : ℚ) - (v - off) / step) * step := by
    field_simp; ring
  have h3 : |off + (k : ℚ) * step - v| ≤ (1 / 2 + (v - off) / step / 99999) * step := by
    rw [e, abs_mul, abs_of_pos hs]
    exact mul_le_mul_of_nonneg_right h1 hs.le
  have e2 : (1 / 2 + (v - off) / step / 99999) * step = step / 2 + (v - off) / 99999 := by
    field_simp
  rw [e2] at h3
  linarith

/-- non-vacuity and the unchanged-tree findings as regression facts: 1234567 and 2^32-1 stay exact;
    a tie goes upward; the float path reproduces 27.25 -> 27.5 on a 0.5 grid from 10 -/
example : convert true (some 0) (some 4294967295) (some 1) 1234567 = 1234567 := by decide +kernel
example : convert true (some 0) (some 4294967295) (some 1) 4294967295 = 4294967295 := by decide +kernel
example : convert true (some 0) (some 100) (some 5) (25 / 2) = 15 := by decide +kernel
example : convert false (some 10) (some 38) (some (1 / 2)) (109 / 4) = 55 / 2 := by decide +kernel

/-- tie to the source (regenerated on every run from `check_convert_value`): six significant digits, only outside
    the integer formats, rounding half up; the integer formats; the final conversions -/
theorem C14_gen_tie :
    (∀ q, HapVerif.Convert.ctxRound false q = HapVerif.Convert.roundSig Gen.Misc.convertPrec q) ∧
    (∀ q, HapVerif.Convert.ctxRound true q = q) ∧
    Gen.Misc.convertPrecGuard = "char.format not in INTEGER_TYPES" ∧
    Gen.Misc.convertRounding = "ROUND_HALF_UP" ∧
    Gen.Misc.integerTypes = ["uint64", "uint32", "uint16", "uint8", "int"] ∧
    Gen.Misc.convertFinals = ["int(val.to_integral_value())", "float(val)"] :=
  ⟨fun _ => rfl, fun _ => rfl, by decide, by decide, by decide, by decide⟩

/-! ## The BLE signature route: how the declared range and step reach the characteristic model -/

section BleRoute
open HapVerif HapVerif.BleMeta HapVerif.BleMetaP

/-- **The declared range reaches the model exactly, over the BLE signature route** (`min_max_value`): for every integer
    presentation format and every pair of bounds the format can express - negative minima of `int` down to -2^31
    included - the valid-range descriptor a conformant accessory writes (both bounds little-endian in the
    characteristic's format, two's complement) is read back as exactly those bounds. -/
theorem C14_ble_range_roundtrip (code : Nat) (f : IntFmt) (hf : intFmt code = some f) (lo hi : Int)
    (hlo : inRange f lo) (hhi : inRange f hi) :
    minMax code (encodeInt f lo ++ encodeInt f hi) = .ints lo hi := by
  have hw := intFmt_width_pos code f hf
  have hl : (encodeInt f lo ++ encodeInt f hi).length = 2 * f.width := by
    rw [List.length_append, encodeInt_length, encodeInt_length]; omega
  have hne : (encodeInt f lo ++ encodeInt f hi).isEmpty = false := by
    cases h : (encodeInt f lo ++ encodeInt f hi) with
    | nil => rw [h] at hl; simp at hl; omega
    | cons _ _ => rfl
  unfold minMax
  rw [hne]
  simp only [Bool.false_eq_true, ↓reduceIte, hf, hl]
  have ht : (encodeInt f lo ++ encodeInt f hi).take f.width = encodeInt f lo := by
    rw [List.take_append_of_le_length (by rw [encodeInt_length]), List.take_of_length_le (by rw [encodeInt_length])]
  have hd : (encodeInt f lo ++ encodeInt f hi).drop f.width = encodeInt f hi := by
    rw [List.drop_append_of_le_length (by rw [encodeInt_length]), List.drop_of_length_le (by rw [encodeInt_length]), List.nil_append]
  rw [ht, hd]
  obtain ⟨w, s⟩ := f
  rw [ble_decode_encode w hw s lo hlo, ble_decode_encode w hw s hi hhi]

/-- the same for the step descriptor (`min_step`) -/
theorem C14_ble_step_roundtrip (code : Nat) (f : IntFmt) (hf : intFmt code = some f) (st : Int) (hst : inRange f st) :
    minStep code (encodeInt f st) = .int st := by
  have hw := intFmt_width_pos code f hf
  have hne : (encodeInt f st).isEmpty = false := by
    cases h : encodeInt f st with
    | nil => have := encodeInt_length f st; rw [h] at this; simp at this; omega
    | cons _ _ => rfl
  unfold minStep
  rw [hne]
  simp only [Bool.false_eq_true, ↓reduceIte, hf, encodeInt_length]
  obtain ⟨w, s⟩ := f
  rw [ble_decode_encode w hw s st hst]

/-- non-vacuity, and the point a signed/unsigned mix-up gets wrong: a tilt range of -90..90 on an `int` characteristic -/
example : minMax 0x10 (encodeInt ⟨4, true⟩ (-90) ++ encodeInt ⟨4, true⟩ 90) = .ints (-90) 90 :=
  C14_ble_range_roundtrip 0x10 ⟨4, true⟩ rfl (-90) 90 (by unfold inRange; norm_num) (by unfold inRange; norm_num)
example : encodeInt ⟨4, true⟩ (-90) = [0xA6, 0xFF, 0xFF, 0xFF] := by decide

/-- **`min_max_value` and `min_step` of the model are the source's if-chains** (`C14_ble_gen_tie`): the rows the translator
    lifts out of `Characteristic.min_max_value` / `_unpack_value` on every run (format code, `struct` format string),
    interpreted with Python's `struct` semantics, give the model's result for EVERY format code and EVERY descriptor. -/
theorem C14_ble_gen_tie (code : Nat) (b : Bytes) :
    BleMetaGen.rangeByTable Gen.BleMeta.rangeRows code b = minMax code b ∧
    BleMetaGen.stepByTable Gen.BleMeta.unpackRows code b = minStep code b := by
  unfold BleMetaGen.rangeByTable BleMetaGen.stepByTable minMax minStep
  by_cases he : b.isEmpty = true
  · simp only [he, ↓reduceIte, and_self]
  simp only [he, Bool.false_eq_true, ↓reduceIte]
  by_cases h4 : code = 4
  · subst h4
    have l1 : BleMetaGen.lookup Gen.BleMeta.rangeRows 4 = some ("<BB", "tuple") := by decide
    have l2 : BleMetaGen.lookup Gen.BleMeta.unpackRows 4 = some ("<B", "first") := by decide
    have i1 : BleMetaGen.items "<BB" = some [.int ⟨1, false⟩, .int ⟨1, false⟩] := by decide
    have i2 : BleMetaGen.items "<B" = some [.int ⟨1, false⟩] := by decide
    have f : intFmt 4 = some ⟨1, false⟩ := by decide
    have c : (decide (("<B" : String) = "") || ("first" : String) != "first") = false := by decide
    simp only [l1, l2, i1, i2, f, c, unpack_pair_int, unpack_one_int, Bool.false_eq_true, ↓reduceIte]
    constructor <;> split_ifs <;> rfl
  by_cases h6 : code = 6
  · subst h6
    have l1 : BleMetaGen.lookup Gen.BleMeta.rangeRows 6 = some ("<HH", "tuple") := by decide
    have l2 : BleMetaGen.lookup Gen.BleMeta.unpackRows 6 = some ("<H", "first") := by decide
    have i1 : BleMetaGen.items "<HH" = some [.int ⟨2, false⟩, .int ⟨2, false⟩] := by decide
    have i2 : BleMetaGen.items "<H" = some [.int ⟨2, false⟩] := by decide
    have f : intFmt 6 = some ⟨2, false⟩ := by decide
    have c : (decide (("<H" : String) = "") || ("first" : String) != "first") = false := by decide
    simp only [l1, l2, i1, i2, f, c, unpack_pair_int, unpack_one_int, Bool.false_eq_true, ↓reduceIte]
    constructor <;> split_ifs <;> rfl
  by_cases h8 : code = 8
  · subst h8
    have l1 : BleMetaGen.lookup Gen.BleMeta.rangeRows 8 = some ("<LL", "tuple") := by decide
    have l2 : BleMetaGen.lookup Gen.BleMeta.unpackRows 8 = some ("<L", "first") := by decide
    have i1 : BleMetaGen.items "<LL" = some [.int ⟨4, false⟩, .int ⟨4, false⟩] := by decide
    have i2 : BleMetaGen.items "<L" = some [.int ⟨4, false⟩] := by decide
    have f : intFmt 8 = some ⟨4, false⟩ := by decide
    have c : (decide (("<L" : String) = "") || ("first" : String) != "first") = false := by decide
    simp only [l1, l2, i1, i2, f, c, unpack_pair_int, unpack_one_int, Bool.false_eq_true, ↓reduceIte]
    constructor <;> split_ifs <;> rfl
  by_cases h10 : code = 10
  · subst h10
    have l1 : BleMetaGen.lookup Gen.BleMeta.rangeRows 10 = some ("<QQ", "tuple") := by decide
    have l2 : BleMetaGen.lookup Gen.BleMeta.unpackRows 10 = some ("<Q", "first") := by decide
    have i1 : BleMetaGen.items "<QQ" = some [.int ⟨8, false⟩, .int ⟨8, false⟩] := by decide
    have i2 : BleMetaGen.items "<Q" = some [.int ⟨8, false⟩] := by decide
    have f : intFmt 10 = some ⟨8, false⟩ := by decide
    have c : (decide (("<Q" : String) = "") || ("first" : String) != "first") = false := by decide
    simp only [l1, l2, i1, i2, f, c, unpack_pair_int, unpack_one_int, Bool.false_eq_true, ↓reduceIte]
    constructor <;> split_ifs <;> rfl
  by_cases h16 : code = 16
  · subst h16
    have l1 : BleMetaGen.lookup Gen.BleMeta.rangeRows 16 = some ("<ll", "tuple") := by decide
    have l2 : BleMetaGen.lookup Gen.BleMeta.unpackRows 16 = some ("<l", "first") := by decide
    have i1 : BleMetaGen.items "<ll" = some [.int ⟨4, true⟩, .int ⟨4, true⟩] := by decide
    have i2 : BleMetaGen.items "<l" = some [.int ⟨4, true⟩] := by decide
    have f : intFmt 16 = some ⟨4, true⟩ := by decide
    have c : (decide (("<l" : String) = "") || ("first" : String) != "first") = false := by decide
    simp only [l1, l2, i1, i2, f, c, unpack_pair_int, unpack_one_int, Bool.false_eq_true, ↓reduceIte]
    constructor <;> split_ifs <;> rfl
  by_cases h20 : code = 20
  · subst h20
    have l1 : BleMetaGen.lookup Gen.BleMeta.rangeRows 20 = some ("<ff", "tuple") := by decide
    have l2 : BleMetaGen.lookup Gen.BleMeta.unpackRows 20 = some ("<f", "first") := by decide
    have i1 : BleMetaGen.items "<ff" = some [.f32, .f32] := by decide
    have i2 : BleMetaGen.items "<f" = some [.f32] := by decide
    have f : intFmt 20 = none := by decide
    have c : (decide (("<f" : String) = "") || ("first" : String) != "first") = false := by decide
    simp only [l1, l2, i1, i2, f, c, floatCode, unpack_pair_f32, unpack_one_f32, Bool.false_eq_true, ↓reduceIte]
    constructor <;> split_ifs <;> rfl
  -- every other code: no range row; the value rows that exist (bool, text, opaque) are not numeric
  have e4 : (4 == code) = false := by simpa using Ne.symm h4
  have e6 : (6 == code) = false := by simpa using Ne.symm h6
  have e8 : (8 == code) = false := by simpa using Ne.symm h8
  have e10 : (10 == code) = false := by simpa using Ne.symm h10
  have e16 : (16 == code) = false := by simpa using Ne.symm h16
  have e20 : (20 == code) = false := by simpa using Ne.symm h20
  have f : intFmt code = none := by
    unfold intFmt
    simp only [h4, h6, h8, h10, h16, ↓reduceIte]
  have nf : ¬ code = floatCode := h20
  have l1 : BleMetaGen.lookup Gen.BleMeta.rangeRows code = none := by
    simp only [BleMetaGen.lookup, Gen.BleMeta.rangeRows, List.find?, e4, e6, e8, e10, e16, e20]
  constructor
  · simp only [l1, f, nf, ↓reduceIte]
  · simp only [f, nf, ↓reduceIte]
    by_cases h1 : code = 1
    · subst h1
      have l2 : BleMetaGen.lookup Gen.BleMeta.unpackRows 1 = some ("<B", "bool") := by decide
      have c : (decide (("<B" : String) = "") || ("bool" : String) != "first") = true := by decide
      simp only [l2, c, ↓reduceIte]
    by_cases h25 : code = 25
    · subst h25
      have l2 : BleMetaGen.lookup Gen.BleMeta.unpackRows 25 = some ("", "return bytes.decode(value)") := by decide
      simp only [l2, decide_true, Bool.true_or, ↓reduceIte]
    by_cases h27 : code = 27
    · subst h27
      have l2 : BleMetaGen.lookup Gen.BleMeta.unpackRows 27 = some ("", "return value.hex()") := by decide
      simp only [l2, decide_true, Bool.true_or, ↓reduceIte]
    have e1 : (1 == code) = false := by simpa using Ne.symm h1
    have e25 : (25 == code) = false := by simpa using Ne.symm h25
    have e27 : (27 == code) = false := by simpa using Ne.symm h27
    have l2 : BleMetaGen.lookup Gen.BleMeta.unpackRows code = none := by
      simp only [BleMetaGen.lookup, Gen.BleMeta.unpackRows, List.find?, e1, e4, e6, e8, e10, e16, e20, e25, e27]
    simp only [l2]


/-- the CoAP accessory database (`Pdu09Characteristic` in `controller/coap/structs.py`) decodes range and step by the
    same rows - so the same theorem holds for metadata arriving over CoAP/Thread -/
theorem C14_coap_gen_tie (code : Nat) (b : Bytes) :
    BleMetaGen.rangeByTable Gen.BleMeta.coapRangeRows code b = minMax code b ∧
    BleMetaGen.stepByTable Gen.BleMeta.coapUnpackRows code b = minStep code b := by
  have h1 : Gen.BleMeta.coapRangeRows = Gen.BleMeta.rangeRows := by decide
  have h2 : Gen.BleMeta.coapUnpackRows = Gen.BleMeta.unpackRows := by decide
  rw [h1, h2]
  exact C14_ble_gen_tie code b

/-- what is written is read back: per format code the library packs a value with the format it unpacks it with
    (BLE and CoAP) -/
theorem C14_ble_pack_unpack_same_format :
    (Gen.BleMeta.packRows.filter (fun r => r.2.1 != "")).map (fun r => (r.1, r.2.1)) =
      ((Gen.BleMeta.unpackRows.filter (fun r => r.2.1 != "" && r.1 != 1)).map (fun r => (r.1, r.2.1))) ∧
    Gen.BleMeta.coapPackRows = Gen.BleMeta.packRows := by decide

end BleRoute

end HapVerif.C14
