import HapVerif.Model.Protocol
import HapVerif.Model.BleReassembly
import HapVerif.Gen.BleReassembly

/-! # C04 - an accessory error or out-of-sequence reply never completes as success -/

namespace HapVerif.C04
open HapVerif HapVerif.Tlv HapVerif.Protocol

/-- HAP Table 5-5 / the documented mapping: 2 → authentication, 3 → back-off, 4 → max-peers,
    5 → max-tries, 6 → unavailable, 7 → busy, anything else → invalid -/
def classOf (code : Bytes) : PErr :=
  if code = [2] then .auth else if code = [3] then .backoff else if code = [4] then .maxPeers
  else if code = [5] then .maxTries else if code = [6] then .unavailable else if code = [7] then .busy
  else .invalid

/-- the generated `if error == ...: raise ...` chain is the documented table, for every code
    value (any length, any bytes) -/
theorem C04_table (code : Bytes) : errorHandler code = classOf code := by
  unfold errorHandler classOf
  simp only [Gen.Protocol.errorTable, Gen.Protocol.errorDefault, List.find?]
  by_cases h6 : code = [6]
  · subst h6; decide
  by_cases h2 : code = [2]
  · subst h2; decide
  by_cases h3 : code = [3]
  · subst h3; decide
  by_cases h4 : code = [4]
  · subst h4; decide
  by_cases h5 : code = [5]
  · subst h5; decide
  by_cases h7 : code = [7]
  · subst h7; decide
  have e6 : (([6] : Bytes) = code) = False := by simp [eq_comm, h6]
  have e2 : (([2] : Bytes) = code) = False := by simp [eq_comm, h2]
  have e3 : (([3] : Bytes) = code) = False := by simp [eq_comm, h3]
  have e4 : (([4] : Bytes) = code) = False := by simp [eq_comm, h4]
  have e5 : (([5] : Bytes) = code) = False := by simp [eq_comm, h5]
  have e7 : (([7] : Bytes) = code) = False := by simp [eq_comm, h7]
  simp [e6, e2, e3, e4, e5, e7, h2, h3, h4, h5, h6, h7, classOfName]

/-- every step's expectation list admits the State and Error types (so that transports which
    decode with the list still see them) -/
theorem C04_expectations_cover (s : Step) : s.expectations.contains 6 = true ∧ s.expectations.contains 7 = true := by
  cases s <;> decide

/-- a reply made only of the step's protocol fields passes the transport filter unchanged -/
theorem view_of_expected (s : Step) (filtered : Bool) (reply : Items)
    (h : ∀ it ∈ reply, s.expectations.contains it.1.toNat = true) : s.view filtered reply = reply := by
  unfold Step.view applyFilter
  cases filtered with
  | false => rfl
  | true =>
    simp only [if_true]
    split
    · rfl
    · exact List.filter_eq_self.mpr h

/-- **Error code**: whatever else the reply carries and in whatever order, if the dict the generator
    sees holds an Error item and its State is absent or the expected one, the step raises the
    documented class for that code and nothing runs after it (no pairing data, no session keys). -/
theorem C04_error_fails {α} (s : Step) (filtered : Bool) (reply : Items) (post : Items → Except PErr α) (code : Bytes)
    (herr : lookup tError (s.view filtered reply) = some code)
    (hst : lookup tState (s.view filtered reply) = none ∨ lookup tState (s.view filtered reply) = some s.state) :
    runStep s filtered reply post = .error (classOf code) := by
  unfold runStep handleStateStep
  rcases hst with h | h
  · simp [h, herr, C04_table]
  · simp [h, herr, C04_table]

/-- the same, stated on the reply itself for replies made of the step's protocol fields -/
theorem C04_error_fails_reply {α} (s : Step) (filtered : Bool) (reply : Items) (post : Items → Except PErr α) (code : Bytes)
    (hdom : ∀ it ∈ reply, s.expectations.contains it.1.toNat = true)
    (herr : lookup tError reply = some code)
    (hst : lookup tState reply = none ∨ lookup tState reply = some s.state) :
    runStep s filtered reply post = .error (classOf code) := by
  apply C04_error_fails
  · rw [view_of_expected s filtered reply hdom]; exact herr
  · rw [view_of_expected s filtered reply hdom]; exact hst

/-- **Wrong step number**: a State other than the expected one raises the invalid-reply error,
    with or without an Error item, and nothing runs after it. -/
theorem C04_wrong_state_fails {α} (s : Step) (filtered : Bool) (reply : Items) (post : Items → Except PErr α) (st : Bytes)
    (hst : lookup tState (s.view filtered reply) = some st) (hne : st ≠ s.state) :
    runStep s filtered reply post = .error .invalid := by
  unfold runStep handleStateStep
  simp [hst, hne]

/-- success of a step implies there was no Error item and no foreign State in what the generator saw -/
theorem C04_success_implies_clean {α} (s : Step) (filtered : Bool) (reply : Items) (post : Items → Except PErr α) (a : α)
    (h : runStep s filtered reply post = .ok a) :
    lookup tError (s.view filtered reply) = none ∧
      (lookup tState (s.view filtered reply) = none ∨ lookup tState (s.view filtered reply) = some s.state) := by
  unfold runStep handleStateStep at h
  cases hs : lookup tState (s.view filtered reply) with
  | none =>
    cases he : lookup tError (s.view filtered reply) with
    | none => exact ⟨rfl, Or.inl rfl⟩
    | some code => simp [hs, he] at h
  | some st =>
    by_cases hne : st ≠ s.state
    · simp [hs, hne] at h
    · have : st = s.state := by simpa using hne
      subst this
      cases he : lookup tError (s.view filtered reply) with
      | none => exact ⟨rfl, Or.inr rfl⟩
      | some code => simp [hs, he] at h

/-- **Add pairing (IP)**: an error or a foreign step number is a library error, never "done". -/
theorem C04_pairings_ip_add (reply : Items) :
    (∀ code, lookup tError reply = some code → ∃ e, ipAddPairing reply = .error e) ∧
    (∀ st, lookup tState reply = some st → st ≠ [2] → ipAddPairing reply = .error .invalid) ∧
    (∀ code, lookup tError reply = some code → (lookup tState reply = none ∨ lookup tState reply = some [2]) →
        ipAddPairing reply = .error (classOf code)) := by
  refine ⟨?_, ?_, ?_⟩
  · intro code h
    unfold ipAddPairing
    split
    · exact ⟨_, rfl⟩
    · simp [h]
  · intro st h hne
    unfold ipAddPairing
    simp [h, hne]
  · intro code h hst
    unfold ipAddPairing
    rcases hst with h2 | h2 <;> simp [h2, h, C04_table]

/-- **Remove pairing (IP), add/remove pairing (BLE)** -/
theorem C04_pairings_remove_like (reply : Items) :
    (∀ code, lookup tError reply = some code → ∃ e, removeLike reply = .error e) ∧
    (∀ st, lookup tState reply = some st → st ≠ [2] → removeLike reply = .error .invalid) := by
  refine ⟨?_, ?_⟩
  · intro code h
    unfold removeLike
    split
    · exact ⟨_, rfl⟩
    · simp only [h]
      split <;> exact ⟨_, rfl⟩
  · intro st h hne
    unfold removeLike
    simp [h, hne]

/-- an Error item is seen by the generator wherever it stands in the reply, also behind items of
    types the step does not expect (which the filtering transports drop) -/
theorem C04_error_survives_filter (s : Step) (reply : Items) (code : Bytes)
    (h : (tError, code) ∈ reply) : ∃ c, lookup tError (s.view true reply) = some c := by
  have hmem : (tError, code) ∈ s.view true reply := by
    unfold Step.view applyFilter
    simp only [if_true]
    split
    · exact h
    · apply List.mem_filter.mpr
      refine ⟨h, ?_⟩
      have := (C04_expectations_cover s).2
      simpa [tError] using this
  unfold lookup
  have : ∃ x, (s.view true reply).reverse.find? (fun it => it.1 = tError) = some x := by
    cases hf : (s.view true reply).reverse.find? (fun it => it.1 = tError) with
    | some x => exact ⟨x, rfl⟩
    | none =>
      have := List.find?_eq_none.mp hf (tError, code) (by simpa using hmem)
      simp at this
  obtain ⟨x, hx⟩ := this
  exact ⟨x.2, by simp [hx]⟩

/-- non-vacuity: the reply that used to slip through (`Error` without `State`), on every step -/
example : ∀ s : Step, runStep s true [(7, [2]), (3, [1]), (2, [9])] (fun _ => (.ok () : Except PErr Unit)) = .error .auth := by
  intro s; cases s <;> decide

/-- tie to the TLV constants the model hard-codes -/
theorem C04_gen_tie : Gen.Tlv.kTLVType_State = 6 ∧ Gen.Tlv.kTLVType_Error = 7 ∧ Gen.Tlv.M2 = [2] ∧ Gen.Tlv.M4 = [4] ∧
    Gen.Tlv.M6 = [6] ∧ Gen.Tlv.kTLVType_PublicKey = 3 ∧ Gen.Tlv.kTLVType_Salt = 2 ∧ Gen.Tlv.kTLVType_Proof = 4 ∧
    Gen.Tlv.kTLVType_EncryptedData = 5 := by decide


/-! ## Over BLE: what the state machine is handed when the accessory's reply arrives in fragments -/

section BleDelivery
open HapVerif.BleReassembly

theorem loop_datas (chunks : List Bytes) (buf : Bytes) (rest : List Reply) (fuel : Nat) :
    loop (chunks.length + fuel) buf (chunks.map .data ++ rest) = loop fuel (buf ++ chunks.flatten) rest := by
  induction chunks generalizing buf with
  | nil => simp
  | cons c cs ih =>
    have : (c :: cs).length + fuel = (cs.length + fuel) + 1 := by simp; omega
    rw [this]
    simp only [List.map_cons, List.cons_append, loop]
    rw [ih]
    simp [List.append_assoc]

/-- **a complete transfer is reassembled to exactly the bytes the accessory cut up** - any number of `FragmentData` chunks
    below the bound, of any sizes (empty ones included), then `FragmentLast`: the state machine is handed the decoding of
    the concatenation, i.e. of the reply itself, so everything C04 proves about a reply holds for it however it was cut -/
theorem C04_ble_transfer_reassembled (chunks : List Bytes) (last : Bytes) (more : List Reply) (mx : Nat)
    (h : chunks.length < mx) :
    run mx (chunks.map .data ++ [.last last] ++ more) = .assembled (chunks.flatten ++ last) := by
  unfold run
  obtain ⟨k, hk⟩ : ∃ k, mx = chunks.length + (k + 1) := ⟨mx - chunks.length - 1, by omega⟩
  rw [hk, List.append_assoc, loop_datas]
  simp [loop]

/-- **an unfragmented reply stands alone**: when, after any number of `FragmentData` chunks, the accessory answers with a
    reply that carries no fragment item - its error reply, a reply of another step - THAT reply is what the state machine is
    handed, whatever has been buffered and whatever would follow; the buffered chunks never stand in for it -/
theorem C04_ble_plain_reply_wins (chunks : List Bytes) (p : Nat) (more : List Reply) (mx : Nat) (h : chunks.length < mx) :
    run mx (chunks.map .data ++ [.plain p] ++ more) = .plain p := by
  unfold run
  obtain ⟨k, hk⟩ : ∃ k, mx = chunks.length + (k + 1) := ⟨mx - chunks.length - 1, by omega⟩
  rw [hk, List.append_assoc, loop_datas]
  simp [loop]

/-- non-vacuity: three chunks then an error reply (the history seed C04-11 turned into a success) -/
example : run 50 [.data [1, 2], .data [3], .data [], .plain 7, .last [9]] = .plain 7 :=
  C04_ble_plain_reply_wins [[1, 2], [3], []] 7 [.last [9]] 50 (by decide)

/-- a transfer that never ends is refused after `maxReassembly` replies -/
theorem C04_ble_too_many (chunks : List Bytes) (more : List Reply) (mx : Nat) (h : mx ≤ chunks.length) :
    run mx (chunks.map .data ++ more) = .tooMany := by
  unfold run
  induction chunks generalizing mx with
  | nil =>
    have : mx = 0 := by simpa using h
    subst this; rfl
  | cons c cs ih =>
    cases mx with
    | zero => rfl
    | succ m =>
      simp only [List.map_cons, List.cons_append, loop]
      have hm : m ≤ cs.length := by simpa using h
      -- the buffer's content is irrelevant to the outcome
      have gen : ∀ (b : Bytes) (m : Nat) (cs : List Bytes), m ≤ cs.length → loop m b (cs.map .data ++ more) = .tooMany := by
        intro b m cs
        induction cs generalizing b m with
        | nil => intro h; have : m = 0 := by simpa using h
                 subst this; rfl
        | cons c cs ih2 =>
          intro h
          cases m with
          | zero => rfl
          | succ m => simp only [List.map_cons, List.cons_append, loop]; exact ih2 _ _ (by simpa using h)
      exact gen _ m cs hm

/-- **the loop of the model is the loop of the source** (`C04_gen_ble_reassembly_tie`): the bound, the ORDER of the two tests
    (`FragmentLast` first), what each branch does (extend + decode the buffer + return; extend + acknowledge; otherwise
    `return decoded` - the unfragmented reply as it is), the empty initial buffer and the `ValueError` after the loop, lifted
    from `_pairing_char_write` on every run -/
theorem C04_gen_ble_reassembly_tie :
    Gen.BleReassembly.maxReassembly = 50 ∧
    Gen.BleReassembly.test1 = "TLV.kTLVType_FragmentLast in decoded" ∧
    Gen.BleReassembly.do1 = ["extend:decoded[TLV.kTLVType_FragmentLast]", "return:dict(TLV.decode_bytes(buffer))"] ∧
    Gen.BleReassembly.else1 = [] ∧
    Gen.BleReassembly.test2 = "TLV.kTLVType_FragmentData in decoded" ∧
    Gen.BleReassembly.do2 = ["extend:decoded[TLV.kTLVType_FragmentData]", "ack"] ∧
    Gen.BleReassembly.else2 = ["return:decoded"] ∧
    Gen.BleReassembly.bufferInit = ["bytearray()"] ∧ Gen.BleReassembly.afterLoop = "ValueError" := by decide

end BleDelivery

end HapVerif.C04
