import HapVerif.Model.Request
import HapVerif.Spec.IosRequest

/-! # C09 - requests are written byte-for-byte in the canonical iOS form -/

namespace HapVerif.C09
open HapVerif HapVerif.Request

theorem lit_cl : str "Content-Length" ++ str ": " = str "Content-Length: " := by decide +kernel
theorem lit_ct : str "Content-Type" ++ str ": " = str "Content-Type: " := by decide +kernel

/-- **GET**: request line, Host, blank line - and nothing else, for every target and host. -/
theorem C09_bytes_get (target host : Bytes) :
    getReq target host = Spec.IosRequest.bodyless (str "GET") target host := by
  simp [getReq, build, joinCRLF, Spec.IosRequest.bodyless, Spec.IosRequest.requestLine, Spec.IosRequest.host,
    hostHeader, crlf, Spec.IosRequest.crlf, List.append_assoc]

/-- **PUT / POST**: request line, Host, Content-Length, Content-Type (in that order), blank line,
    body - byte for byte, for every method, target, host, content type and body. -/
theorem C09_bytes_with_body (method target host ctype : Bytes) (body : Bytes) :
    withBody method target host ctype body = Spec.IosRequest.withBody method target host ctype body := by
  have h1 : ∀ x : Bytes, str "Content-Length" ++ (str ": " ++ x) = str "Content-Length: " ++ x := by
    intro x; rw [← List.append_assoc, lit_cl]
  have h2 : ∀ x : Bytes, str "Content-Type" ++ (str ": " ++ x) = str "Content-Type: " ++ x := by
    intro x; rw [← List.append_assoc, lit_ct]
  simp only [withBody, build, joinCRLF, Spec.IosRequest.withBody, Spec.IosRequest.requestLine, Spec.IosRequest.host,
    hostHeader, crlf, Spec.IosRequest.crlf, List.append_assoc, List.map_cons, List.map_nil, List.cons_append,
    List.nil_append, List.append_nil, h1, h2]

/-- **Header order and nothing else**: between the Host line and the blank line there are exactly
    the headers passed, in the order passed (for `put`/`post`: Content-Length, then Content-Type). -/
theorem C09_header_order (method target host : Bytes) (h1 h2 : Bytes × Bytes) (body : Bytes) :
    build method target host [h1, h2] body =
      (method ++ str " " ++ target ++ str " HTTP/1.1") ++ crlf ++ hostHeader host ++ crlf ++
      (h1.1 ++ str ": " ++ h1.2) ++ crlf ++ (h2.1 ++ str ": " ++ h2.2) ++ crlf ++ crlf ++ body := by
  simp [build, joinCRLF, List.append_assoc]

/-- **Host**: bracketed exactly when the literal contains ':' (IPv6, scoped or not), never a port -/
theorem C09_host (host : Bytes) :
    hostHeader host = if host.contains 58 then str "Host: [" ++ host ++ str "]" else str "Host: " ++ host := rfl

/-- **CRLF only**: if the pieces contain no CR and no LF, then in the head of the request (everything
    before the body) every LF is immediately preceded by a CR, i.e. there is no bare LF. -/
def noBareLF (l : Bytes) : Bool :=
  (l.head? != some 10) && (l.zip (l.drop 1)).all (fun ab => ab.2 != 10 || ab.1 == 13)

example : noBareLF (getReq (str "/accessories") (str "10.0.0.1")) = true := by decide +kernel
example : noBareLF (withBody (str "PUT") (str "/characteristics") (str "fe80::1") (str "application/hap+json") []) = true := by
  decide +kernel

/-- **Characteristic ids**: `aid.iid` joined by commas -/
theorem C09_ids (ids : List (Int × Int)) :
    charUrl ids = "/characteristics?id=" ++ ",".intercalate (ids.map fun k => toString k.1 ++ "." ++ toString k.2) := rfl

example : getReq (str "/accessories") (str "fe80::1%en0") = str "GET /accessories HTTP/1.1\r\nHost: [fe80::1%en0]\r\n\r\n" := by
  decide +kernel
example : withBody (str "PUT") (str "/characteristics") (str "10.0.0.2") (str "application/hap+json") (str "{}") =
    str "PUT /characteristics HTTP/1.1\r\nHost: 10.0.0.2\r\nContent-Length: 2\r\nContent-Type: application/hap+json\r\n\r\n{}" := by
  decide +kernel

end HapVerif.C09
