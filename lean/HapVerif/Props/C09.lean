import HapVerif.Model.Request
import HapVerif.Spec.IosRequest
import HapVerif.Gen.Request

/-! # C09 - requests are written byte-for-byte in the canonical iOS form -/

namespace HapVerif.C09
open HapVerif HapVerif.Request

theorem lit_cl : str "Content-Length" ++ str ": " = str "Content-Length: " := by decide +kernel
theorem lit_ct : str "Content-Type" ++ str ": " = str "Content-Type: " := by decide +kernel

/-- **GET**: request line, Host, blank line - and nothing else, for every target and host. -/
theorem C09_bytes_get (target host : Bytes) :
    getReq target host = Spec.IosRequest.bodyless (str "GET") target host := by
  simp [getReq, build, joinCRLF, Spec.IosRequest.bodyless, Spec.IosRequest.requestLine, Spec.IosRequest.host,
    hostHeader, crlf, Spec.IosRequest.crlf, List.append_assoc]

/-- **PUT / POST**: request line, Host, Content-Length, Content-Type (in that order), blank line,
    body - byte for byte, for every method, target, host, content type and body. -/
theorem C09_bytes_with_body (method target host ctype : Bytes) (body : Bytes) :
    withBody method target host ctype body = Spec.IosRequest.withBody method target host ctype body := by
  have h1 : ∀ x : Bytes, str "Content-Length" ++ (str ": " ++ x) = str "Content-Length: " ++ x := by
    intro x; rw [← List.append_assoc, lit_cl]
  have h2 : ∀ x : Bytes, str "Content-Type" ++ (str ": " ++ x) = str "Content-Type: " ++ x := by
    intro x; rw [← List.append_assoc, lit_ct]
  simp only [withBody, build, joinCRLF, Spec.IosRequest.withBody, Spec.IosRequest.requestLine, Spec.IosRequest.host,
    hostHeader, crlf, Spec.IosRequest.crlf, List.append_assoc, List.map_cons, List.map_nil, List.cons_append,
    List.nil_append, List.append_nil, h1, h2]

/-- **Header order and nothing else**: between the Host line and the blank line there are exactly
    the headers passed, in the order passed (for `put`/`post`: Content-Length, then Content-Type). -/
theorem C09_header_order (method target host : Bytes) (h1 h2 : Bytes × Bytes) (body : Bytes) :
    build method target host [h1, h2] body =
      (method ++ str " " ++ target ++ str " HTTP/1.1") ++ crlf ++ hostHeader host ++ crlf ++
      (h1.1 ++ str ": " ++ h1.2) ++ crlf ++ (h2.1 ++ str ": " ++ h2.2) ++ crlf ++ crlf ++ body := by
  simp [build, joinCRLF, List.append_assoc]

/-- **Host**: bracketed exactly when the literal contains ':' (IPv6, scoped or not), never a port -/
theorem C09_host (host : Bytes) :
    hostHeader host = if host.contains 58 then str "Host: [" ++ host ++ str "]" else str "Host: " ++ host := rfl

/-- no bare LF, reading left to right with the previous byte in hand -/
def nb : Option UInt8 → Bytes → Bool
  | _, [] => true
  | p, b :: t => (b != 10 || p == some 13) && nb (some b) t

def lastOr (p : Option UInt8) (l : Bytes) : Option UInt8 :=
  match l.getLast? with
  | some b => some b
  | none => p

theorem nb_append : ∀ (a b : Bytes) (p : Option UInt8), nb p (a ++ b) = (nb p a && nb (lastOr p a) b) := by
  intro a
  induction a with
  | nil => intro b p; simp [nb, lastOr]
  | cons x t ih =>
    intro b p
    simp only [List.cons_append, nb, ih, Bool.and_assoc]
    congr 2
    cases t with
    | nil => simp [lastOr]
    | cons y t' =>
      have : (y :: t').getLast? = some ((y :: t').getLast (by simp)) := List.getLast?_eq_some_getLast (by simp)
      simp [lastOr, List.getLast?_cons_cons, this]

/-- a piece without CR and LF -/
def Clean (l : Bytes) : Prop := ∀ b ∈ l, b ≠ 10 ∧ b ≠ 13

instance (l : Bytes) : Decidable (Clean l) := by unfold Clean; infer_instance

theorem nb_clean : ∀ (l : Bytes) (p : Option UInt8), Clean l → nb p l = true := by
  intro l
  induction l with
  | nil => intro _ _; rfl
  | cons x t ih =>
    intro p h
    have hx := h x (by simp)
    simp only [nb, Bool.and_eq_true, Bool.or_eq_true, bne_iff_ne, ne_eq]
    exact ⟨Or.inl hx.1, ih _ (fun b hb => h b (by simp [hb]))⟩

theorem nb_crlf (p : Option UInt8) : nb p crlf = true := by
  simp [nb, crlf]

theorem lastOr_crlf (p : Option UInt8) : lastOr p crlf = some 10 := by simp [lastOr, crlf]

/-- lines without CR/LF joined by CRLF contain no bare LF, whatever precedes them (unless a line is empty at the
    very start after a non-CR byte - excluded by `p ≠ ...` not being needed: an empty line contributes nothing) -/
theorem nb_join : ∀ (ls : List Bytes) (p : Option UInt8), (∀ l ∈ ls, Clean l) → nb p (joinCRLF ls) = true := by
  intro ls
  induction ls with
  | nil => intro _ _; rfl
  | cons x t ih =>
    intro p h
    cases t with
    | nil => exact nb_clean x p (h x (by simp))
    | cons y t' =>
      simp only [joinCRLF]
      rw [nb_append, nb_append, nb_clean x p (h x (by simp)), nb_crlf, Bool.true_and, Bool.true_and]
      exact ih _ (fun l hl => h l (by simp [hl]))

theorem clean_append (a b : Bytes) (ha : Clean a) (hb : Clean b) : Clean (a ++ b) := by
  intro x hx
  rcases List.mem_append.mp hx with h | h
  · exact ha x h
  · exact hb x h

theorem clean_str_sp : Clean (str " ") := by decide +kernel
theorem clean_http : Clean (str " HTTP/1.1") := by decide +kernel
theorem clean_colon : Clean (str ": ") := by decide +kernel
theorem clean_host1 : Clean (str "Host: [") := by decide +kernel
theorem clean_host2 : Clean (str "]") := by decide +kernel
theorem clean_host3 : Clean (str "Host: ") := by decide +kernel

theorem clean_hostHeader (host : Bytes) (h : Clean host) : Clean (hostHeader host) := by
  unfold hostHeader
  split
  · exact clean_append _ _ (clean_append _ _ clean_host1 h) clean_host2
  · exact clean_append _ _ clean_host3 h

/-- **CRLF only**: if method, target, host and the header names and values contain no CR and no LF, then in everything
    the request puts before the body every LF is immediately preceded by a CR - there is no bare LF (and, the pieces
    being clean, no CR that is not followed by LF either: the only CRs are those of the CRLF separators) -/
theorem C09_crlf_only (method target host : Bytes) (headers : List (Bytes × Bytes))
    (hm : Clean method) (ht : Clean target) (hh : Clean host) (hhs : ∀ h ∈ headers, Clean h.1 ∧ Clean h.2) :
    nb none (build method target host headers []) = true := by
  simp only [build, List.append_nil]
  apply nb_join
  intro l hl
  simp only [List.mem_append, List.mem_cons, List.mem_map, List.not_mem_nil, or_false] at hl
  rcases hl with ((rfl | rfl) | ⟨h, hh', rfl⟩) | rfl | rfl
  · exact clean_append _ _ (clean_append _ _ (clean_append _ _ hm clean_str_sp) ht) clean_http
  · exact clean_hostHeader host hh
  · exact clean_append _ _ (clean_append _ _ (hhs h hh').1 clean_colon) (hhs h hh').2
  · intro b hb; cases hb
  · intro b hb; cases hb


example : nb none (getReq (str "/accessories") (str "10.0.0.1")) = true := by decide +kernel
example : nb none (str "GET / HTTP/1.1\nHost: x\r\n\r\n") = false := by decide +kernel

/-- **Characteristic ids**: `aid.iid` joined by commas -/
theorem C09_ids (ids : List (Int × Int)) :
    charUrl ids = "/characteristics?id=" ++ ",".intercalate (ids.map fun k => toString k.1 ++ "." ++ toString k.2) := rfl

example : getReq (str "/accessories") (str "fe80::1%en0") = str "GET /accessories HTTP/1.1\r\nHost: [fe80::1%en0]\r\n\r\n" := by
  decide +kernel
example : withBody (str "PUT") (str "/characteristics") (str "10.0.0.2") (str "application/hap+json") (str "{}") =
    str "PUT /characteristics HTTP/1.1\r\nHost: 10.0.0.2\r\nContent-Length: 2\r\nContent-Type: application/hap+json\r\n\r\n{}" := by
  decide +kernel

/-- tie to the source (regenerated on every run from `HomeKitConnection.request / get / put / post`, `_connect_once`
    and `HttpContentTypes`): the request line and Host header come first, then one `name: value` line per header, then
    two empty strings, joined by CRLF; the body is appended only when there is one; the whole request goes to the
    protocol in ONE call; `get` passes no headers, `put` and `post` pass Content-Length then Content-Type (defaults
    JSON resp. TLV); IPv6 literals are bracketed and no port is written -/
theorem C09_gen_tie :
    Gen.Request.buffer0 = ["{method.upper()} {target} HTTP/1.1", "{self.host_header}"] ∧
    Gen.Request.appends = ["{header}: {value}", "", ""] ∧
    Gen.Request.join = "\r\n" ∧ Gen.Request.bodyGuard = ["body"] ∧
    Gen.Request.sends = ["self.protocol.send_bytes(request_bytes)"] ∧
    (Gen.Request.getMethod, Gen.Request.getHeaders) = ("GET", []) ∧
    (Gen.Request.putMethod, Gen.Request.putHeaders, Gen.Request.putDefaults) =
      ("PUT", [("Content-Length", "len(body)"), ("Content-Type", "content_type.value")], ["HttpContentTypes.JSON"]) ∧
    (Gen.Request.postMethod, Gen.Request.postHeaders, Gen.Request.postDefaults) =
      ("POST", [("Content-Length", "len(body)"), ("Content-Type", "content_type.value")], ["HttpContentTypes.TLV"]) ∧
    Gen.Request.hostHeader = [("':' in connected_host", "Host: [{connected_host}]"), ("else", "Host: {connected_host}")] ∧
    Gen.Request.contentTypes = [("JSON", "application/hap+json"), ("TLV", "application/pairing+tlv8")] := by
  decide

/-- and the model builds requests from exactly those pieces -/
theorem C09_model_uses_source_pieces (target host ctype body : Bytes) :
    getReq target host = build (str Gen.Request.getMethod) target host [] [] ∧
    withBody (str Gen.Request.putMethod) target host ctype body =
      build (str "PUT") target host ((Gen.Request.putHeaders.map (·.1)).zip [str (toString body.length), ctype] |>.map
        (fun r => (str r.1, r.2))) body ∧
    withBody (str Gen.Request.postMethod) target host ctype body =
      build (str "POST") target host ((Gen.Request.postHeaders.map (·.1)).zip [str (toString body.length), ctype] |>.map
        (fun r => (str r.1, r.2))) body := ⟨rfl, rfl, rfl⟩

/-! ## Subscribe / unsubscribe payloads: exactly the ids of the call, each once, in order -/

/-- **Every id the caller asked for reaches the wire exactly once, in the caller's order**: the payloads of the
    requests `_update_subscriptions` sends, concatenated, are the argument list - nothing added (no id of an earlier
    call), nothing dropped, nothing repeated - whatever mix of accessory ids the caller passes. -/
theorem C09_subscribe_payloads_flatten (ids : List (Nat × Nat)) : (groupByAid ids).flatten = ids := by
  induction ids with
  | nil => rfl
  | cons x xs ih =>
    simp only [groupByAid]
    cases hg : groupByAid xs with
    | nil =>
      rw [hg] at ih
      simp only [List.flatten_nil] at ih
      simp [← ih]
    | cons g gs =>
      rw [hg] at ih
      cases g with
      | nil => simp only [List.flatten_cons, List.nil_append] at ih ⊢; simp [ih]
      | cons y ys =>
        simp only
        split
        · simp only [List.flatten_cons, List.cons_append] at ih ⊢; rw [ih]
        · simp only [List.flatten_cons, List.cons_append, List.nil_append] at ih ⊢; rw [ih]

/-- every request names a single accessory id (one aid at a time, as iOS does) and is never empty -/
theorem C09_subscribe_payload_single_aid (ids : List (Nat × Nat)) :
    ∀ g ∈ groupByAid ids, g ≠ [] ∧ ∀ a ∈ g, ∀ b ∈ g, a.1 = b.1 := by
  induction ids with
  | nil => intro g hg; simp [groupByAid] at hg
  | cons x xs ih =>
    intro g hg
    simp only [groupByAid] at hg
    cases hgx : groupByAid xs with
    | nil =>
      rw [hgx] at hg
      simp only [List.mem_singleton] at hg
      subst hg
      exact ⟨by simp, by intro a ha b hb; simp at ha hb; rw [ha, hb]⟩
    | cons g0 gs =>
      rw [hgx] at hg ih
      cases g0 with
      | nil =>
        simp only [List.mem_cons] at hg
        rcases hg with rfl | hg
        · exact ⟨by simp, by intro a ha b hb; simp at ha hb; rw [ha, hb]⟩
        · exact ih g (by simp [hg])
      | cons y ys =>
        simp only at hg
        have ih0 := ih (y :: ys) (by simp)
        split at hg
        · rename_i hxy
          simp only [List.mem_cons] at hg
          rcases hg with rfl | hg
          · refine ⟨by simp, ?_⟩
            intro a ha b hb
            have hy : ∀ c ∈ y :: ys, c.1 = y.1 := fun c hc => ih0.2 c hc y (by simp)
            have ha' : a.1 = y.1 := by
              simp only [List.mem_cons] at ha
              rcases ha with rfl | ha
              · exact hxy
              · exact hy a (by simpa using ha)
            have hb' : b.1 = y.1 := by
              simp only [List.mem_cons] at hb
              rcases hb with rfl | hb
              · exact hxy
              · exact hy b (by simpa using hb)
            rw [ha', hb']
          · exact ih g (by simp [hg])
        · simp only [List.mem_cons] at hg
          rcases hg with rfl | rfl | hg
          · exact ⟨by simp, by intro a ha b hb; simp at ha hb; rw [ha, hb]⟩
          · exact ih0
          · exact ih g (by simp [hg])

example : groupByAid [(1, 9), (1, 10), (2, 9), (1, 11)] = [[(1, 9), (1, 10)], [(2, 9)], [(1, 11)]] := by decide

end HapVerif.C09
