import HapVerif.Model.PairSetup
import HapVerif.Spec.SetupAccessory
import HapVerif.Proofs.CryptoIdeal
import HapVerif.Props.C15
import HapVerif.Gen.Protocol

/-! # C03 - pair-setup returns pairing data only after a fully authenticated exchange -/

namespace HapVerif.C03
open HapVerif HapVerif.Tlv HapVerif.Protocol HapVerif.PairSetup

/-- **Return implies the checks** (any crypto): a record is returned only if M6 opened under the
    exchange key `HKDF(K, "Pair-Setup-Encrypt-…")` with nonce "PS-Msg06", and the long-term key the
    accessory presents verifies the signature over `AccessoryX ‖ id ‖ LTPK`; the returned
    identifier and key are exactly those authenticated bytes. -/
theorem C03_return_implies_checks (C : Crypto) (K iosId ltsk : Bytes) (m6 : Items) (r : Record)
    (h : processM6 C K iosId ltsk m6 = .ok r) :
    ∃ enc plain d sig,
      lookup 5 m6 = some enc ∧
      C.aeadOpen (encKey C K) (PairSetup.noncePad ++ str "PS-Msg06") [] enc = some plain ∧
      decode none plain = .ok d ∧ lookup 10 d = some sig ∧ lookup 1 d = some r.accessoryId ∧
      lookup 3 d = some r.accessoryLTPK ∧ r.accessoryLTPK.length = 32 ∧
      C.edVerify r.accessoryLTPK (accX C K ++ r.accessoryId ++ r.accessoryLTPK) sig = true := by
  unfold processM6 at h
  simp only [bind, Except.bind, pure, Except.pure, lift] at h
  split at h; · cases h
  split at h <;> try cases h
  rename_i enc henc
  split at h <;> try cases h
  rename_i plain hopen
  split at h
  · rename_i d hd
    split at h <;> try cases h
    rename_i sig hsig
    split at h <;> try cases h
    rename_i ident hid
    split at h <;> try cases h
    rename_i ltpk hpk
    split at h; · cases h
    rename_i hlen
    split at h; · cases h
    rename_i hver
    split at h; · cases h
    cases h
    have hd' : decode none plain = .ok d := by
      cases hdd : decode none plain with
      | ok d0 => rw [hdd] at hd; first | (cases hd; rfl) | (simp only at hd; cases hd; rfl)
      | error e => rw [hdd] at hd; cases hd
    exact ⟨enc, plain, d, sig, henc, hopen, hd', hsig, hid, hpk, Decidable.of_not_not hlen, by simpa using hver⟩
  · cases h

/-- **The accessory must have proven the code**: part 2 returns only if the SRP client accepted
    the accessory's proof in M4 -/
theorem C03_return_requires_proof (C : Crypto) (s : SrpView) (iosId ltsk : Bytes) (m4 m6 : Items) (r : Record)
    (h : part2 C s iosId ltsk m4 m6 = .ok r) :
    (∃ proof, lookup 4 m4 = some proof ∧ s.accepts proof = true) ∧ processM6 C s.K iosId ltsk m6 = .ok r := by
  unfold part2 at h
  simp only [bind, Except.bind] at h
  cases h4 : processM4 s m4 with
  | error e => rw [h4] at h; cases h
  | ok u =>
    rw [h4] at h
    refine ⟨?_, h⟩
    unfold processM4 at h4
    simp only [bind, Except.bind, pure, Except.pure, lift] at h4
    split at h4; · cases h4
    split at h4 <;> try cases h4
    rename_i proof hp
    split at h4; · cases h4
    rename_i hacc
    exact ⟨proof, hp, by simpa using hacc⟩

/-- **Self-consistent record**: the controller's public key in the record is the public key of
    the private key in the record, and the identifier is the one it was asked to use -/
theorem C03_record_consistent (C : Crypto) (K iosId ltsk : Bytes) (m6 : Items) (r : Record)
    (h : processM6 C K iosId ltsk m6 = .ok r) :
    r.iosLTPK = C.edPub r.iosLTSK ∧ r.iosLTSK = ltsk ∧ r.iosId = iosId := by
  unfold processM6 at h
  simp only [bind, Except.bind, pure, Except.pure, lift] at h
  repeat' (split at h)
  all_goals (first | (cases h; exact ⟨rfl, rfl, rfl⟩) | cases h)

theorem decode3 (a b c : Bytes) : decode none (encodeList [(1, a), (3, b), (10, c)]) = .ok [(1, a), (3, b), (10, c)] :=
  C15.C15_roundtrip _ (by simp [WF])

theorem look3 (a b c : Bytes) :
    lookup 1 [((1 : UInt8), a), (3, b), (10, c)] = some a ∧ lookup 3 [((1 : UInt8), a), (3, b), (10, c)] = some b ∧
    lookup 10 [((1 : UInt8), a), (3, b), (10, c)] = some c := by
  simp [lookup]

open Spec.SetupAccessory in
/-- **The controller's M5 is accepted by a conformant accessory**, which learns exactly the
    controller's identifier and public key - for every session key, identifier and key pair. -/
theorem C03_m5_accepted (C : Crypto) (L : C.Laws) (K iosId ltsk : Bytes) :
    acceptM5 C K (m5 C K iosId ltsk) = some (iosId, C.edPub ltsk) := by
  unfold acceptM5 m5
  have h6 : lookup 6 [((6 : UInt8), ([5] : Bytes)), (5, C.aeadSeal (encKey C K) (PairSetup.noncePad ++ str "PS-Msg05") []
      (encodeList [(1, iosId), (3, C.edPub ltsk), (10, C.edSign ltsk (iosX C K ++ iosId ++ C.edPub ltsk))]))] = some [5] := by
    simp [lookup]
  have h5 : lookup 5 [((6 : UInt8), ([5] : Bytes)), (5, C.aeadSeal (encKey C K) (PairSetup.noncePad ++ str "PS-Msg05") []
      (encodeList [(1, iosId), (3, C.edPub ltsk), (10, C.edSign ltsk (iosX C K ++ iosId ++ C.edPub ltsk))]))]
      = some (C.aeadSeal (encKey C K) (PairSetup.noncePad ++ str "PS-Msg05") []
      (encodeList [(1, iosId), (3, C.edPub ltsk), (10, C.edSign ltsk (iosX C K ++ iosId ++ C.edPub ltsk))])) := by
    simp [lookup]
  have hk : sessionKey C K = encKey C K := rfl
  have hn : Spec.SetupAccessory.noncePad = PairSetup.noncePad := rfl
  have hx : iosDeviceX C K = iosX C K := rfl
  obtain ⟨l1, l3, l10⟩ := look3 iosId (C.edPub ltsk) (C.edSign ltsk (iosX C K ++ iosId ++ C.edPub ltsk))
  simp only [h6, h5, hk, hn, hx, L.open_seal, decode3, l1, l3, l10, L.verify_sign]
  simp

open Spec.SetupAccessory in
/-- **Honest M6**: the final message of a conformant accessory is accepted and the record carries
    exactly the accessory's identifier and long-term public key. -/
theorem C03_honest_m6 (C : Crypto) (L : C.Laws) (K iosId ltsk accId accLTSK : Bytes) (hid : asciiOnly accId = true) :
    processM6 C K iosId ltsk (m6 C K accId accLTSK) = .ok ⟨accId, C.edPub accLTSK, iosId, ltsk, C.edPub ltsk⟩ := by
  unfold processM6 m6
  have h6 : lookup tState [((6 : UInt8), ([6] : Bytes)), (5, C.aeadSeal (sessionKey C K) (Spec.SetupAccessory.noncePad ++ str "PS-Msg06") []
      (encodeList [(1, accId), (3, C.edPub accLTSK), (10, C.edSign accLTSK (accessoryX C K ++ accId ++ C.edPub accLTSK))]))] = some [6] := by
    simp [lookup, tState]
  have h7 : lookup tError [((6 : UInt8), ([6] : Bytes)), (5, C.aeadSeal (sessionKey C K) (Spec.SetupAccessory.noncePad ++ str "PS-Msg06") []
      (encodeList [(1, accId), (3, C.edPub accLTSK), (10, C.edSign accLTSK (accessoryX C K ++ accId ++ C.edPub accLTSK))]))] = none := by
    simp [lookup, tError]
  have h5 : lookup 5 [((6 : UInt8), ([6] : Bytes)), (5, C.aeadSeal (sessionKey C K) (Spec.SetupAccessory.noncePad ++ str "PS-Msg06") []
      (encodeList [(1, accId), (3, C.edPub accLTSK), (10, C.edSign accLTSK (accessoryX C K ++ accId ++ C.edPub accLTSK))]))]
      = some (C.aeadSeal (sessionKey C K) (Spec.SetupAccessory.noncePad ++ str "PS-Msg06") []
      (encodeList [(1, accId), (3, C.edPub accLTSK), (10, C.edSign accLTSK (accessoryX C K ++ accId ++ C.edPub accLTSK))])) := by
    simp [lookup]
  have hk : encKey C K = sessionKey C K := rfl
  have hn : PairSetup.noncePad = Spec.SetupAccessory.noncePad := rfl
  have hx : accX C K = accessoryX C K := rfl
  obtain ⟨l1, l3, l10⟩ := look3 accId (C.edPub accLTSK) (C.edSign accLTSK (accessoryX C K ++ accId ++ C.edPub accLTSK))
  simp only [bind, Except.bind, pure, Except.pure, lift, handleStateStep, h6, h7, h5, hk, hn, hx, L.open_seal, decode3,
    l1, l3, l10, L.edPubLen, L.verify_sign, hid]
  simp

/-- **The signature binds identifier and key**: whenever a record is returned and the presented
    long-term key has a secret key `sk`, the signature inside M6 is the genuine signature of `sk`
    over `AccessoryX ‖ returned id ‖ returned key` - a signature over another identifier or key, or
    by another key, is never accepted. -/
theorem C03_signature_binds (C : Crypto) (L : C.Laws) (K iosId ltsk : Bytes) (m6 : Items) (r : Record) (sk : Bytes)
    (h : processM6 C K iosId ltsk m6 = .ok r) (hsk : r.accessoryLTPK = C.edPub sk) :
    ∃ enc plain d, lookup 5 m6 = some enc ∧ C.aeadOpen (encKey C K) (PairSetup.noncePad ++ str "PS-Msg06") [] enc = some plain ∧
      decode none plain = .ok d ∧
      lookup 10 d = some (C.edSign sk (accX C K ++ r.accessoryId ++ r.accessoryLTPK)) := by
  obtain ⟨enc, plain, d, sig, henc, hopen, hd, hsig, _, _, _, hver⟩ := C03_return_implies_checks C K iosId ltsk m6 r h
  refine ⟨enc, plain, d, henc, hopen, hd, ?_⟩
  rw [hsk] at hver
  have := L.verify_sound _ _ _ hver
  rw [hsig, this, hsk]

/-- non-vacuity of the laws -/
example : Crypto.Laws Ideal.ideal := Ideal.ideal_laws

/-- tie to the labels and nonces in the source -/
theorem C03_gen_tie :
    Gen.Protocol.labels_perform_pair_setup_part2 = [["Pair-Setup-Controller-Sign-Salt", "Pair-Setup-Controller-Sign-Info"],
      ["Pair-Setup-Encrypt-Salt", "Pair-Setup-Encrypt-Info"], ["Pair-Setup-Accessory-Sign-Salt", "Pair-Setup-Accessory-Sign-Info"]] ∧
    Gen.Protocol.nonces_perform_pair_setup_part2 = ["PS-Msg05", "PS-Msg06"] := by decide

end HapVerif.C03
