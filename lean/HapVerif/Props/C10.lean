import HapVerif.Proofs.ReconnectSilent
import HapVerif.Proofs.ReconnectObs
import HapVerif.Proofs.ReconnectFuel
import HapVerif.Proofs.ReconnectSecure
import HapVerif.Gen.Reconnect

/-! # C10 - reconnection keeps trying with bounded back-off and a single connector

Statements over the connection-supervisor automaton `HapVerif.Reconnect` (tied to
`aiohomekit/controller/ip/connection.py` / `pairing.py` by `tools/translate.py` for the constants and by the
differential harness `harness/c10.py` for the behaviour).  Times are in units of 1/8192 s:
6144 = 0.75 s, 81920 = 10 s, 245760 = 30 s, 491520 = 60 s. -/

namespace HapVerif.Reconnect

/-- the constants and the order of the exception handlers are those of the current source -/
theorem C10_gen_tie :
    consts = { initial := Gen.Reconnect.initial, cap := Gen.Reconnect.cap, num := Gen.Reconnect.num,
               den := Gen.Reconnect.den, connectTimeout := Gen.Reconnect.connectTimeout,
               requestTimeout := Gen.Reconnect.requestTimeout, ensureTimeout := Gen.Reconnect.ensureTimeout } ∧
    unit = Gen.Reconnect.unit ∧
    Gen.Reconnect.handlers = [("AuthenticationError", "raise"), ("IncorrectPairingIdError", "continue-if"),
                              ("HomeKitException", "retry"), ("Exception", "retry")] := by
  decide +kernel

/-! ## the back-off sequence -/

/-- the k-th consecutive back-off delay of one connector (k = 0 is the first) -/
def delay : Nat → Nat
  | 0 => nextInterval consts.initial
  | k + 1 => nextInterval (delay k)

/-- 0.75 s, 1.125 s, 1.6875 s, ... , 43.2 s, 60 s, 60 s -/
theorem C10_delay_table : (List.range 13).map delay =
    [6144, 9216, 13824, 20736, 31104, 46656, 69984, 104976, 157464, 236196, 354294, 491520, 491520] := by
  decide +kernel

/-- the first eleven delays are exactly `0.5 * 1.5^(k+1)` seconds (no rounding in the model's unit) -/
theorem C10_delay_exact : ∀ k, k ≤ 10 → delay k * 2 ^ (k + 1) = 4096 * 3 ^ (k + 1) := by decide +kernel

/-- from the twelfth on, every delay is 60 s -/
theorem C10_delay_cap (k : Nat) (h : 11 ≤ k) : delay k = 491520 := by
  induction k with
  | zero => omega
  | succ n ih =>
    by_cases hn : n = 10
    · subst hn; decide +kernel
    · have := ih (by omega)
      simp only [delay, this]
      decide +kernel

/-- every delay is at least 0.75 s, at most 60 s, and the sequence never shrinks -/
theorem C10_delay_bounds (k : Nat) : 6144 ≤ delay k ∧ delay k ≤ 491520 ∧ delay k ≤ delay (k + 1) := by
  have h0 : 6144 ≤ delay k ∧ delay k ≤ 491520 := by
    induction k with
    | zero =>
      have := nextInterval_bounds consts.initial (by decide) (by decide)
      exact ⟨this.1, this.2.1⟩
    | succ n ih =>
      have := nextInterval_bounds (delay n) (by omega) ih.2
      exact ⟨this.1, this.2.1⟩
  have := nextInterval_bounds (delay k) (by omega) h0.2
  exact ⟨h0.1, h0.2, this.2.2⟩

/-- a failed attempt sleeps for the next interval of the sequence; a new connector starts again at 0.5 s -/
theorem C10_backoff_step (s : St) :
    (backoff s).interval = nextInterval s.interval ∧
    (backoff s).conn = .sleeping (s.now + nextInterval s.interval) := ⟨rfl, rfl⟩

/-- every back-off sleep ever started, in every reachable state, lasts between 0.75 s and 60 s:
    no busy loop through the back-off path, and never more than a minute between attempts -/
theorem C10_sleep_bounds (hosts : List Host) (evs : List Ev) (t d : Nat)
    (h : Obs.sleep t d ∈ (run (init hosts) evs).obs) : 6144 ≤ d ∧ d ≤ 491520 :=
  (run_inv hosts evs).obs _ h

/-! ## a single connector -/

/-- at most one connector task exists, and exactly when the connector slot holds a running one -/
theorem C10_single_connector (hosts : List Host) (evs : List Ev) :
    (run (init hosts) evs).liveTasks ≤ 1 ∧
    ((run (init hosts) evs).liveTasks = 1 ↔ (run (init hosts) evs).conn.live = true) := by
  have h := (run_inv hosts evs).tasks
  cases hl : (run (init hosts) evs).conn.live <;> simp [h, hl]

/-! ## what ends the retries -/

/-- unless `close()`/`shutdown()` was called, the connector is still running, or was never started, or ended
    with an authentication failure, or the pairing is connected.  (`stuck` is the model's out-of-fuel marker.) -/
theorem C10_retries_never_end (hosts : List Host) (evs : List Ev)
    (hcl : (run (init hosts) evs).closing = false) :
    (run (init hosts) evs).conn = .idle ∨ (run (init hosts) evs).conn.live = true ∨
    (run (init hosts) evs).conn = .doneAuth ∨ (run (init hosts) evs).conn = .stuck ∨
    ((run (init hosts) evs).conn = .doneOk ∧ (run (init hosts) evs).isConnected = true) :=
  (aux_run hosts evs).a hcl

theorem dropTransport_conn (s : St) : (dropTransport s).conn = s.conn := by
  unfold dropTransport
  split
  · rfl
  · split <;> rfl

theorem wrongIdState_conn (s : St) : (wrongIdState s).conn = s.conn := by
  unfold wrongIdState; rw [dropTransport_conn]

/-- the connector ends with `doneAuth` only on an authentication verdict, with `doneOk` only on a successful
    pair-verify (`okLost` is a success that the accessory may undo by dropping the connection during set-up) -/
theorem C10_verdict_classes (s : St) (v : Ver) :
    ((verifyVerdict s v).1.conn = .doneAuth → v = .auth ∨ s.conn = .doneAuth) ∧
    ((verifyVerdict s v).1.conn = .doneOk → v = .ok ∨ v = .okLost ∨ s.conn = .doneOk) := by
  cases v with
  | ok => simp [verifyVerdict, (finish_fields _ _).1]
  | auth => simp [verifyVerdict, (finish_fields _ _).1]
  | fail => simp [verifyVerdict, backoff, emit]
  | hang =>
    simp only [verifyVerdict]
    split <;> simp [backoff, emit]
  | okLost =>
    simp only [verifyVerdict]
    split
    · simp [(finish_fields _ _).1]
    · split <;> simp [backoff, emit]
  | wrongId =>
    simp only [verifyVerdict]
    split
    · simp [wrongIdState_conn]
    · simp [backoff, emit]

/-! ## immediate retries and excluded addresses -/

/-- the loop continues without back-off only after a wrong-pairing-id answer that excluded a *new* address
    while another advertised address is still not excluded -/
theorem C10_continue_requires_progress (s : St) (v : Ver) (h : (verifyVerdict s v).2 = true) :
    v = .wrongId ∧ (verifyVerdict s v).1.count0 < (verifyVerdict s v).1.failed.length ∧
    ∃ x ∈ (verifyVerdict s v).1.hosts, x ∉ (verifyVerdict s v).1.failed := by
  cases v with
  | ok => simp [verifyVerdict] at h
  | auth => simp [verifyVerdict] at h
  | fail => simp [verifyVerdict] at h
  | hang => simp only [verifyVerdict] at h; split at h <;> simp at h
  | okLost =>
    simp only [verifyVerdict] at h
    split at h
    · simp at h
    · split at h <;> simp at h
  | wrongId =>
    refine ⟨rfl, ?_⟩
    simp only [verifyVerdict] at h ⊢
    split
    · rename_i hc
      simp only [Bool.and_eq_true, decide_eq_true_eq, List.any_eq_true, Bool.not_eq_true',
        List.contains_eq_mem, decide_eq_false_iff_not] at hc
      exact ⟨hc.1, hc.2⟩
    · rename_i hc; rw [if_neg hc] at h; cases h

theorem prepare_targets_all (s : St) (h : s.failed = [] ∨ ∀ x ∈ s.hosts, x ∈ s.failed) :
    (prepare s).2 = (prepare s).1.hosts := by
  have key : ∀ r : St, (r.failed = [] ∨ ∀ x ∈ r.hosts, x ∈ r.failed) → (connectHosts r).1 = r.hosts := by
    intro r hr
    simp only [connectHosts]
    rcases hr with hr | hr
    · have : r.hosts.filter (fun x => !(r.failed.contains x)) = r.hosts := by rw [hr]; simp
      simp only [this]
      split <;> rfl
    · have : r.hosts.filter (fun x => !(r.failed.contains x)) = [] := by
        simp only [List.filter_eq_nil_iff]
        intro x hx
        simp [hr x hx]
      simp only [this]
      rfl
  simp only [prepare]
  apply key
  unfold refreshHosts
  split
  · split
    · exact h
    · exact Or.inl rfl
  · exact h

/-- no advertised address is excluded forever: whenever the connector is in a back-off sleep, the exclusions
    are either empty or cover every address, so the attempt that follows the sleep is made against *all*
    currently advertised addresses -/
theorem C10_round_targets_all (hosts : List Host) (evs : List Ev) (t : Time)
    (hs : (run (init hosts) evs).conn = .sleeping t) :
    (prepare (run (init hosts) evs)).2 = (prepare (run (init hosts) evs)).1.hosts :=
  prepare_targets_all _ ((run_inv hosts evs).slp t hs)

/-- ... and that list is what the connector dials: the first thing the TCP phase records is the attempt
    against the whole list it was given; everything else it records comes later -/
theorem C10_attempt_recorded (a : Host) (as : List Host) (s : St) :
    ∃ rest, (tcpPhase (a :: as) s).1.obs = s.obs ++ Obs.attempt s.now (a :: as) :: rest := by
  obtain ⟨rest, h⟩ := (ext_tcpPhase (a :: as) s).2 a as rfl
  exact ⟨rest, by rw [h]; simp [emit]⟩

/-! ## waiting callers -/

/-- a pending caller is never overdue and never older than the pairing-level 10 s -/
theorem C10_waiter_bounded (hosts : List Host) (evs : List Ev) (w : Waiter)
    (hw : w ∈ (run (init hosts) evs).waiters) :
    (run (init hosts) evs).now ≤ w.due ∧ w.due ≤ w.deadline ∧
    w.deadline ≤ (run (init hosts) evs).now + 81920 := by
  have := tinv_run hosts evs w hw
  exact ⟨this.1, Waiter.due_le_deadline w, this.2⟩

/-- once time has advanced, nothing that was due is still pending; in particular 10 s later every caller that
    was waiting has been answered (with its result, a disconnection error or the authentication error) -/
theorem C10_waiter_answered (hosts : List Host) (evs : List Ev) (dt : Nat) :
    (∀ w ∈ (step (run (init hosts) evs) (.adv dt)).waiters, (run (init hosts) evs).now + dt < w.due) ∧
    (81920 ≤ dt → ∀ w ∈ (run (init hosts) evs).waiters, w ∉ (step (run (init hosts) evs) (.adv dt)).waiters) := by
  have hf := advanceTo_fires ((run (init hosts) evs).tcp.length + dt / consts.initial + 4)
    ((run (init hosts) evs).now + dt) (run (init hosts) evs)
  refine ⟨hf, ?_⟩
  intro hdt w hw hmem
  have h1 := hf w hmem
  have h2 := tinv_run hosts evs w hw
  have h3 := Waiter.due_le_deadline w
  have : consts.ensureTimeout = 81920 := by decide
  rw [this] at h2
  unfold Time at *
  omega

/-- callers wait only on a running connector (so each of them is answered when it finishes) -/
theorem C10_waiters_need_connector (hosts : List Host) (evs : List Ev) :
    (run (init hosts) evs).conn.live = true ∨ (run (init hosts) evs).waiters = [] :=
  (aux_run hosts evs).w

/-- a caller giving up - by its own timeout, by the 10 s limit, or by cancellation - does not touch the connector -/
theorem C10_waiter_does_not_abort_connector (s : St) (id : Nat) (t : Time) :
    (step s (.cancelW id)).conn = s.conn ∧ (step s (.cancelW id)).liveTasks = s.liveTasks ∧
    (fireWaiters s t).conn = s.conn ∧ (fireWaiters s t).liveTasks = s.liveTasks := ⟨rfl, rfl, rfl, rfl⟩

theorem dropTransport_shutdown (s : St) : (dropTransport s).shutdown = s.shutdown := by
  unfold dropTransport
  split
  · rfl
  · split <;> rfl

theorem stopConnector_shutdown (s : St) : (stopConnector s).shutdown = s.shutdown := by
  unfold stopConnector
  split
  · exact (finish_fields _ _).2.2
  · exact (finish_fields _ _).2.2
  · rw [(finish_fields _ _).2.2, dropTransport_shutdown]
  · rfl

theorem closeConn_flags (s : St) (b : Bool) (h : Inv s) :
    (closeConn { s with shutdown := b }).closing = true ∧ (closeConn { s with shutdown := b }).shutdown = b := by
  obtain ⟨h1, h2, h3⟩ := stopConnector_closing_inv s b h
  obtain ⟨d1, d2, _, d4, d5, d6, d7, d8, _⟩ := dropTransport_spec _ h1.opn
  constructor
  · show (dropTransport _).closing = true
    rw [d6]; exact h3
  · show (dropTransport _).shutdown = b
    rw [d8, stopConnector_shutdown]

/-! ## after close / shutdown -/

/-- after `shutdown()` nothing - no event whatsoever - produces another connection attempt -/
theorem C10_after_shutdown_silent (hosts : List Host) (evs more : List Ev)
    (hs : (run (init hosts) evs).shutdown = true) :
    attempts (run (run (init hosts) evs) more) = attempts (run (init hosts) evs) := by
  have key : ∀ (l : List Ev) (s : St), Inv s → s.shutdown = true → attempts (run s l) = attempts s := by
    intro l
    induction l with
    | nil => intro s _ _; rfl
    | cons e es ih =>
      intro s hi hsd
      have hcl := hi.sh hsd
      obtain ⟨h1, h2, h3⟩ := silent_step s e hi hcl (Or.inr hsd)
      have hsd' : (step s e).shutdown = true := by
        rcases h3 with h3 | h3
        · rw [h3]; exact hsd
        · subst h3
          exact (closeConn_flags s true hi).2
      show attempts (run (step s e) es) = attempts s
      rw [ih _ (step_inv s e hi) hsd', h1]
  exact key more _ (run_inv hosts evs) hs

/-- after `close()` no attempt is made until something asks for the connection again: time passing, the
    accessory closing connections, callers being cancelled and repeated closes produce none -/
theorem C10_after_close_silent (hosts : List Host) (evs more : List Ev)
    (hc : (run (init hosts) evs).closing = true) (hm : ∀ e ∈ more, e.isTrigger = false) :
    attempts (run (run (init hosts) evs) more) = attempts (run (init hosts) evs) := by
  have key : ∀ (l : List Ev) (s : St), Inv s → s.closing = true → (∀ e ∈ l, e.isTrigger = false) →
      attempts (run s l) = attempts s := by
    intro l
    induction l with
    | nil => intro s _ _ _; rfl
    | cons e es ih =>
      intro s hi hcl hl
      obtain ⟨h1, h2, _⟩ := silent_step s e hi hcl (Or.inl (hl e (by simp)))
      show attempts (run (step s e) es) = attempts s
      rw [ih _ (step_inv s e hi) h2 (fun e' he' => hl e' (by simp [he'])), h1]
  exact key more _ (run_inv hosts evs) hc hm

/-- `close()` and `shutdown()` set `closing` -/
theorem C10_close_sets_closing (s : St) (h : Inv s) :
    (step s .close).closing = true ∧ (step s .shutdown).closing = true ∧ (step s .shutdown).shutdown = true :=
  ⟨(closeConn_flags s s.shutdown h).1, (closeConn_flags s true h).1, (closeConn_flags s true h).2⟩

/-! ## the loop cannot spin -/

/-- in every reachable state the excluded addresses are advertised ones, without duplicates -/
theorem C10_exclusions_wellformed (hosts : List Host) (evs : List Ev) :
    (∀ h ∈ (run (init hosts) evs).failed, h ∈ (run (init hosts) evs).hosts) ∧
    (run (init hosts) evs).failed.Nodup :=
  ⟨(g_run hosts evs).1.sub, (g_run hosts evs).1.nd⟩

/-- an immediate retry (`continue`) happens only after the exclusions grew beyond their size at the top of the
    iteration, and they stay strictly smaller than the address list: at most once per address -/
theorem C10_immediate_retry_once_per_address (as : List Host) (s : St)
    (hsub : ∀ h ∈ s.failed, h ∈ s.hosts) (hnd : s.failed.Nodup) (has : ∀ x ∈ as, x ∈ s.hosts)
    (h : (tcpPhase as s).2 = true) :
    s.count0 < (tcpPhase as s).1.failed.length ∧ (tcpPhase as s).1.failed.length < s.hosts.length ∧
    (tcpPhase as s).1.hosts = s.hosts := by
  obtain ⟨_, t2, _, t4, t5⟩ := (h0_tcpPhase as s ⟨hsub, hnd⟩ has).2 h
  exact ⟨t4, t5, t2⟩

/-- hence the loop body runs at most (number of addresses not yet excluded) + 1 times at one instant: with that
    much fuel the model's loop never runs dry (`stuck` is what it would report), whatever the scripted outcomes -/
theorem C10_loop_bounded (fuel : Nat) (s : St) (hsub : ∀ h ∈ s.failed, h ∈ s.hosts) (hnd : s.failed.Nodup)
    (hst : Stable s) (hf : s.hosts.length - s.failed.length < fuel) :
    (loopTop fuel s).conn ≠ .stuck := by
  have hle := List.Nodup.length_le_of_subset hnd (fun x hx => hsub x hx)
  exact (loopTop_not_stuck fuel s ⟨hsub, hnd⟩ hst (by omega)).2

/-- ... and no reachable state is `stuck`: the fuel the model uses is always sufficient -/
theorem C10_never_stuck (hosts : List Host) (evs : List Ev) : (run (init hosts) evs).conn ≠ .stuck :=
  (g_run hosts evs).2

/-- so the retries end only by success, an authentication failure, or close -/
theorem C10_retries_end_only_by_auth_or_close (hosts : List Host) (evs : List Ev)
    (hcl : (run (init hosts) evs).closing = false) :
    (run (init hosts) evs).conn = .idle ∨ (run (init hosts) evs).conn.live = true ∨
    (run (init hosts) evs).conn = .doneAuth ∨
    ((run (init hosts) evs).conn = .doneOk ∧ (run (init hosts) evs).isConnected = true) := by
  rcases C10_retries_never_end hosts evs hcl with h | h | h | h | h
  · exact Or.inl h
  · exact Or.inr (Or.inl h)
  · exact Or.inr (Or.inr (Or.inl h))
  · exact absurd h (C10_never_stuck hosts evs)
  · exact Or.inr (Or.inr (Or.inr h))

/-- non-vacuity: two addresses; the first answers with a wrong pairing id, the second refuses; after the
    back-off (0.75 s) the next attempt is against both again -/
example :
    let s := run (init [1, 2]) [.pushVer .wrongId, .pushTcp (.ok 0), .pushTcp .refused, .ensure 1 none]
    s.conn = .sleeping 6144 ∧ s.failed = [] ∧
    attempts (step s (.adv 6144)) = [.attempt 0 [1, 2], .attempt 0 [2], .attempt 6144 [1, 2]] := by decide +kernel

/-! ## success ends the retries -/

/-- **retries end by success**: whenever the pairing is connected (a current connection, secure, not closed) the
    connector is not running - no back-off sleep, no connect and no pair-verify is pending -/
theorem C10_connected_connector_idle (hosts : List Host) (evs : List Ev)
    (h : (run (init hosts) evs).isConnected = true) : (run (init hosts) evs).conn.live = false := by
  have hi := run_inv hosts evs
  have hv := V_run evs (init hosts) (V_init hosts)
  generalize run (init hosts) evs = s at *
  simp only [St.isConnected, Bool.and_eq_true, Bool.not_eq_true'] at h
  obtain ⟨⟨hcur, _⟩, hsec⟩ := h
  cases hc : s.conn with
  | verifyWait t c =>
    unfold V at hv; rw [hc] at hv
    rw [hv] at hsec; cases hsec
  | tcpWait t r =>
    unfold V at hv; rw [hc] at hv
    rw [hv] at hsec; cases hsec
  | sleeping t =>
    have := hi.curNone (by rw [hc]; intro hh; cases hh) (by intro t' c' hh; rw [hc] at hh; cases hh)
    rw [this] at hcur; cases hcur
  | idle => rfl
  | doneOk => rfl
  | doneAuth => rfl
  | finished => rfl
  | cancelled => rfl
  | stuck => rfl

/-- hence, while it stays connected, nothing but the loss of the connection (or a close) makes the library connect
    again: time passing, callers asking for the connection, cancelled callers and zeroconf updates cause no attempt -/
theorem C10_no_attempt_while_connected (hosts : List Host) (evs : List Ev) (e : Ev)
    (h : (run (init hosts) evs).isConnected = true)
    (he : (∀ c, e ≠ .drop c) ∧ e ≠ .close ∧ e ≠ .shutdown) :
    attempts (step (run (init hosts) evs) e) = attempts (run (init hosts) evs) := by
  have hl := C10_connected_connector_idle hosts evs h
  generalize run (init hosts) evs = s at *
  cases e with
  | adv dt =>
    simp only [step]
    rw [advanceTo_idle _ _ _ hl]
    exact attempts_fire _ _
  | ensure id own =>
    simp only [step, h, Bool.or_true, if_true]
    simp [attempts, emit, List.filter_append, isAttempt]
  | cancelW id =>
    simp only [step, attempts, List.filter_append]
    have : ∀ l : List Waiter, (l.map (fun w => Obs.waiter w.id .cancelled s.now)).filter isAttempt = [] := by
      intro l; induction l <;> simp_all [isAttempt]
    rw [this]; simp
  | soon =>
    simp only [step]
    split
    · rfl
    · have hns : ∀ t, s.conn ≠ .sleeping t := by
        intro t hh; rw [hh] at hl; simp [Conn.live] at hl
      unfold reconnectSoon
      split
      · rename_i t hh; exact absurd hh (hns t)
      · simp [startReconnecting, h]
  | descr hs =>
    simp only [step]
    split
    · rfl
    · have hns : ∀ t, s.conn ≠ .sleeping t := by
        intro t hh; rw [hh] at hl; simp [Conn.live] at hl
      have hc' : ({ s with desc := some hs } : St).isConnected = true := h
      unfold reconnectSoon
      split
      · rename_i t hh; exact absurd hh (hns t)
      · simp [startReconnecting, hc', attempts]
  | close => exact absurd rfl he.2.1
  | shutdown => exact absurd rfl he.2.2
  | pushTcp o => rfl
  | pushVer v => rfl
  | drop c => exact absurd rfl (he.1 c)


/-- non-vacuity: connected after a refused connect and a failed pair-verify; twenty minutes later nothing more was tried -/
example :
    let s := run (init [1, 2]) [.pushTcp .refused, .pushVer .fail, .ensure 1 none, .adv (sec 30)]
    s.isConnected = true ∧ s.conn = .doneOk ∧ attempts (step s (.adv (sec 1200))) = attempts s := by decide

end HapVerif.Reconnect
