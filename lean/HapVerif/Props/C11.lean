import HapVerif.Proofs.Reconnect
import HapVerif.Props.C10

/-! # C11 - a pairing never holds more than one open connection and leaks none

Statements over the connection-supervisor automaton `HapVerif.Reconnect` (tied to
`aiohomekit/controller/ip/connection.py` by the differential harness `harness/c11.py`).
`open_` is the accessory's view: the connections it still sees open. -/

namespace HapVerif.Reconnect

/-- every reachable state satisfies the invariant bundle -/
theorem C11_invariant (hosts : List Host) (evs : List Ev) : Inv (run (init hosts) evs) :=
  run_inv hosts evs

/-- at most one connection is open, and it is the one the pairing considers current -/
theorem C11_at_most_one (hosts : List Host) (evs : List Ev) :
    (run (init hosts) evs).open_.length ≤ 1 ∧
    ∀ c ∈ (run (init hosts) evs).open_, (run (init hosts) evs).current = some c := by
  have h := (run_inv hosts evs).opn
  constructor
  · rw [h]; cases (run (init hosts) evs).current <;> simp
  · intro c hc
    rw [h] at hc
    cases hx : (run (init hosts) evs).current with
    | none => simp [hx] at hc
    | some d => simp [hx] at hc; simp [hc]

/-- a connection is open only while its pair-verify is in flight or after the secure session was established:
    whenever the connector is backing off, connecting, or has ended with a failure, nothing is open -/
theorem C11_failed_setup_closed (hosts : List Host) (evs : List Ev) (c : ConnId)
    (hc : c ∈ (run (init hosts) evs).open_) :
    ((run (init hosts) evs).conn = .doneOk ∧ (run (init hosts) evs).secure = true) ∨
    ∃ t, (run (init hosts) evs).conn = .verifyWait t c := by
  have h := run_inv hosts evs
  generalize run (init hosts) evs = s at *
  have hcur : s.current = some c := by
    have := h.opn; rw [this] at hc
    cases hx : s.current with
    | none => simp [hx] at hc
    | some d => simp [hx] at hc; simp [hc]
  by_cases hd : s.conn = .doneOk
  · exact Or.inl ⟨hd, h.curOk hd (by simp [hcur])⟩
  · right
    apply Classical.byContradiction
    intro hne
    have hnone : s.current = none := by
      apply h.curNone hd
      intro t c' hv
      have := h.curVer t c' hv
      rw [hcur] at this
      cases this
      exact hne ⟨t, hv⟩
    simp [hcur] at hnone

/-- the verdict of a failed pair-verify (wrong pairing id, authentication error, any other error) leaves the
    connection closed - in the same step, whatever the state -/
theorem C11_verdict_drops (s : St) (v : Ver) (hopn : s.open_ = s.current.toList)
    (hv : v = .wrongId ∨ v = .auth ∨ v = .fail) :
    (verifyVerdict s v).1.current = none ∧ (verifyVerdict s v).1.open_ = [] := by
  rcases hv with rfl | rfl | rfl
  · simp only [verifyVerdict]
    have hd := dropTransport_spec { s with failed := match s.curHost with
      | some h => insertHost h s.failed
      | none => s.failed } hopn
    split
    · exact ⟨hd.1, hd.2.1⟩
    · simp only [backoff, emit]; exact ⟨hd.1, hd.2.1⟩
  · have hd := dropTransport_spec s hopn
    simp only [verifyVerdict, finish, resolveWaiters]
    exact ⟨hd.1, hd.2.1⟩
  · have hd := dropTransport_spec s hopn
    simp only [verifyVerdict, backoff, emit]
    exact ⟨hd.1, hd.2.1⟩

/-- `close()` (and `shutdown()`) from any reachable state - whatever the connector is doing, including after it
    ended with an authentication failure - leaves no connection open, no current connection, no running connector -/
theorem C11_close_total (hosts : List Host) (evs : List Ev) (e : Ev) (he : e = .close ∨ e = .shutdown) :
    (step (run (init hosts) evs) e).open_ = [] ∧ (step (run (init hosts) evs) e).current = none ∧
    (step (run (init hosts) evs) e).conn.live = false ∧ (step (run (init hosts) evs) e).liveTasks = 0 := by
  have h := run_inv hosts evs
  generalize run (init hosts) evs = s at *
  have key : ∀ b : Bool, (closeConn { s with shutdown := b }).open_ = [] ∧
      (closeConn { s with shutdown := b }).current = none ∧
      (closeConn { s with shutdown := b }).conn.live = false ∧
      (closeConn { s with shutdown := b }).liveTasks = 0 := by
    intro b
    obtain ⟨h1, h2, h3⟩ := stopConnector_closing_inv s b h
    have hi := closeConn_inv s b h
    obtain ⟨d1, d2, _, d4, d5, _⟩ := dropTransport_spec _ h1.opn
    have hl : (closeConn { s with shutdown := b }).conn.live = false := by
      show (dropTransport _).conn.live = false
      rw [d4]; exact h2
    refine ⟨d2, d1, hl, ?_⟩
    have := hi.tasks
    rw [hl] at this
    simpa using this
  rcases he with rfl | rfl
  · exact key s.shutdown
  · exact key true

/-- ... and nothing opens afterwards either: after `close()`, whatever was in flight when it was called, time
    passing, the accessory closing connections, cancelled callers and repeated closes never produce an open
    connection - only a new request for the connection (ensure / zeroconf) can -/
theorem C11_nothing_opens_after_close (hosts : List Host) (evs more : List Ev) (e : Ev)
    (he : e = .close ∨ e = .shutdown) (hm : ∀ x ∈ more, x.isTrigger = false) :
    (run (step (run (init hosts) evs) e) more).open_ = [] := by
  have h0 := C11_close_total hosts evs e he
  have hi0 : Inv (step (run (init hosts) evs) e) := step_inv _ _ (run_inv hosts evs)
  have hc0 : (step (run (init hosts) evs) e).closing = true := by
    have := C10_close_sets_closing (run (init hosts) evs) (run_inv hosts evs)
    rcases he with rfl | rfl
    · exact this.1
    · exact this.2.1
  have key : ∀ (l : List Ev) (s : St), Inv s → s.closing = true → s.open_ = [] → (∀ x ∈ l, x.isTrigger = false) →
      (run s l).open_ = [] := by
    intro l
    induction l with
    | nil => intro s _ _ ho _; exact ho
    | cons x xs ih =>
      intro s hi hcl ho hl
      have hx := hl x (by simp)
      exact ih _ (step_inv s x hi) (silent_step s x hi hcl (Or.inl hx)).2.1
        (closed_step s x hi hcl (Or.inl hx) ho) (fun y hy => hl y (by simp [hy]))
  exact key more _ hi0 hc0 h0.1 hm

/-- after `shutdown()` no event whatsoever - zeroconf updates and new callers included - opens a connection -/
theorem C11_nothing_opens_after_shutdown (hosts : List Host) (evs more : List Ev) :
    (run (step (run (init hosts) evs) .shutdown) more).open_ = [] := by
  have h0 := C11_close_total hosts evs .shutdown (Or.inr rfl)
  have hi0 : Inv (step (run (init hosts) evs) .shutdown) := step_inv _ _ (run_inv hosts evs)
  have hf := C10_close_sets_closing (run (init hosts) evs) (run_inv hosts evs)
  have key : ∀ (l : List Ev) (s : St), Inv s → s.shutdown = true → s.open_ = [] → (run s l).open_ = [] := by
    intro l
    induction l with
    | nil => intro s _ _ ho; exact ho
    | cons x xs ih =>
      intro s hi hsd ho
      have hcl := hi.sh hsd
      have hsd' : (step s x).shutdown = true := by
        rcases (silent_step s x hi hcl (Or.inr hsd)).2.2 with h3 | h3
        · rw [h3]; exact hsd
        · subst h3; exact (closeConn_flags s true hi).2
      exact ih _ (step_inv s x hi) hsd' (closed_step s x hi hcl (Or.inr hsd) ho)
  exact key more _ hi0 hf.2.2 h0.1

/-- the loss of a connection that is not the current one disturbs nothing: in a reachable state such a
    connection is not even open any more, and the step is the identity -/
theorem C11_stale_loss_harmless (hosts : List Host) (evs : List Ev) (c : ConnId)
    (hc : (run (init hosts) evs).current ≠ some c) :
    step (run (init hosts) evs) (.drop c) = run (init hosts) evs := by
  have h := (run_inv hosts evs).opn
  generalize run (init hosts) evs = s at *
  have : s.open_.contains c = false := by
    rw [h]
    cases hx : s.current with
    | none => simp
    | some d =>
      simp only [Option.toList, List.contains_cons, List.contains_nil, Bool.or_false, beq_eq_false_iff_ne]
      intro hcd; apply hc; rw [hx, hcd]
  simp only [step, this, Bool.not_false, if_true]

/-- even without the invariant, the transition for a stale loss never touches the current connection,
    the connector or the waiters (the repaired `connection_lost` guard) -/
theorem C11_stale_loss_frame (s : St) (c : ConnId) (hc : s.current ≠ some c) :
    (step s (.drop c)).current = s.current ∧ (step s (.drop c)).conn = s.conn ∧
    (step s (.drop c)).waiters = s.waiters ∧ (step s (.drop c)).obs = s.obs := by
  simp only [step]
  split
  · simp
  · simp [hc]

/-- non-vacuity: a wrong-pairing-id answer followed by a successful attempt, then close -/
example :
    let s := run (init [1, 2]) [.pushVer .wrongId, .ensure 1 none]
    s.open_ = [1] ∧ s.current = some 1 ∧ s.conn = .doneOk ∧ (step s .close).open_ = [] := by decide

end HapVerif.Reconnect
