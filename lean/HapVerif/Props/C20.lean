import HapVerif.Model.Store

/-! # C20 - saved pairings survive interrupted saves (crash-point theorem)

The accessory-database round trip and "a truncated cache loads as empty" are established on the
implementation by the harness (every fixture, random entity maps, every prefix of cache files);
they are about dictionary plumbing and the JSON parsers, which are not modelled - that part of
C20 is not a theorem.  What is proved is the crash-point quantifier. -/

namespace HapVerif.C20
open HapVerif.Store

/-- **Crash safety of `save_data`**: for every previous content of the pairing file (or none), every
    new content, and every crash point - before or after creating the temporary file, after any
    prefix of the bytes, before or after the replace - the pairing file afterwards holds either
    exactly the old bytes or exactly the complete new bytes. -/
theorem C20_save_crash_safe (old : File) (new : Bytes) (done : Nat) (cutAt : Option Nat) :
    (crash ⟨old, none⟩ (saveOps new) done cutAt).target = old ∨
    (crash ⟨old, none⟩ (saveOps new) done cutAt).target = some new := by
  unfold crash saveOps
  match done, cutAt with
  | 0, none => left; rfl
  | 0, some k => left; rfl
  | 1, none => left; rfl
  | 1, some k => left; rfl
  | 2, none => left; rfl
  | 2, some k => right; simp [apply, cut]
  | n + 3, none => right; simp [apply]
  | n + 3, some k => right; simp [apply]

/-- a completed save holds the new content and leaves no temporary file behind -/
theorem C20_save_complete (old : File) (new : Bytes) :
    (saveOps new).foldl apply ⟨old, none⟩ = ⟨some new, none⟩ := by
  simp [saveOps, apply]

/-- a stale temporary file left by an earlier crash does not matter: it is truncated first -/
theorem C20_stale_tmp_harmless (old : File) (junk new : Bytes) (done : Nat) (cutAt : Option Nat) :
    (crash ⟨old, some junk⟩ (saveOps new) done cutAt).target = old ∨
    (crash ⟨old, some junk⟩ (saveOps new) done cutAt).target = some new := by
  unfold crash saveOps
  match done, cutAt with
  | 0, none => left; rfl
  | 0, some k => left; rfl
  | 1, none => left; rfl
  | 1, some k => left; rfl
  | 2, none => left; rfl
  | 2, some k => right; simp [apply, cut]
  | n + 3, none => right; simp [apply]
  | n + 3, some k => right; simp [apply]

/-- **The unchanged tree's in-place save was not crash safe**: a crash right after the truncating
    open leaves an empty pairing file - neither the old nor the new data. -/
theorem C20_counterexample_inplace :
    (crash ⟨some [1, 2, 3], none⟩ (saveOpsInPlace [4, 5]) 1 none).target = some [] := by decide

/-- loading after a crash therefore yields the old or the new pairings, for any loader -/
theorem C20_load_after_crash {D} (load : File → D) (old : File) (new : Bytes) (done : Nat) (cutAt : Option Nat) :
    load (crash ⟨old, none⟩ (saveOps new) done cutAt).target = load old ∨
    load (crash ⟨old, none⟩ (saveOps new) done cutAt).target = load (some new) := by
  rcases C20_save_crash_safe old new done cutAt with h | h
  · left; rw [h]
  · right; rw [h]

end HapVerif.C20
