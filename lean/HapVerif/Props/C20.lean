import HapVerif.Model.Store
import HapVerif.Proofs.EntityMap
import HapVerif.Proofs.EntityMapGen

/-! # C20 - saved pairings and the accessory cache survive restart and interrupted saves

Two parts.

* **Crash points of `save_data`** (`Model/Store.lean`): for every crash point the pairing file holds the old or
  the complete new bytes.
* **The accessory database round trip** (`Model/EntityMap.lean`): `Accessories.serialize()` followed by
  `Accessories.from_list()` - what the characteristic cache stores and what a restart reads back - is the
  identity on every accessory object in *normal form*; everything `create_from_dict` builds from a clean
  dictionary is in normal form and `set_value` keeps it, so every state reachable from a loaded database by
  value updates is read back unchanged: all attributes of every characteristic (type, ids, permissions,
  format, value, range, step, valid values, handle, event flags), the services' types, ids and links.  The
  file-backed cache is write-through: after any history of updates and deletions a restart sees the same
  entries (config number, state number, broadcast key, accessories), and an absent or unparsable file is a
  cold cache.

What stays outside the theorems: the JSON text layer (`hkjson` = orjson/commentjson: `loads (dumps v) = v`,
strict prefixes of a document do not parse) and CPython dictionaries - exercised differentially by the harness
on every fixture, on random databases and on every prefix of cache files. -/

namespace HapVerif.C20
open HapVerif.Store

/-- **Crash safety of `save_data`**: for every previous content of the pairing file (or none), every
    new content, and every crash point - before or after creating the temporary file, after any
    prefix of the bytes, before or after the replace - the pairing file afterwards holds either
    exactly the old bytes or exactly the complete new bytes. -/
theorem C20_save_crash_safe (old : File) (new : Bytes) (done : Nat) (cutAt : Option Nat) :
    (crash ⟨old, none⟩ (saveOps new) done cutAt).target = old ∨
    (crash ⟨old, none⟩ (saveOps new) done cutAt).target = some new := by
  unfold crash saveOps
  match done, cutAt with
  | 0, none => left; rfl
  | 0, some k => left; rfl
  | 1, none => left; rfl
  | 1, some k => left; rfl
  | 2, none => left; rfl
  | 2, some k => right; simp [apply, cut]
  | n + 3, none => right; simp [apply]
  | n + 3, some k => right; simp [apply]

/-- a completed save holds the new content and leaves no temporary file behind -/
theorem C20_save_complete (old : File) (new : Bytes) :
    (saveOps new).foldl apply ⟨old, none⟩ = ⟨some new, none⟩ := by
  simp [saveOps, apply]

/-- a stale temporary file left by an earlier crash does not matter: it is truncated first -/
theorem C20_stale_tmp_harmless (old : File) (junk new : Bytes) (done : Nat) (cutAt : Option Nat) :
    (crash ⟨old, some junk⟩ (saveOps new) done cutAt).target = old ∨
    (crash ⟨old, some junk⟩ (saveOps new) done cutAt).target = some new := by
  unfold crash saveOps
  match done, cutAt with
  | 0, none => left; rfl
  | 0, some k => left; rfl
  | 1, none => left; rfl
  | 1, some k => left; rfl
  | 2, none => left; rfl
  | 2, some k => right; simp [apply, cut]
  | n + 3, none => right; simp [apply]
  | n + 3, some k => right; simp [apply]

/-- **The unchanged tree's in-place save was not crash safe**: a crash right after the truncating
    open leaves an empty pairing file - neither the old nor the new data. -/
theorem C20_counterexample_inplace :
    (crash ⟨some [1, 2, 3], none⟩ (saveOpsInPlace [4, 5]) 1 none).target = some [] := by decide

/-- loading after a crash therefore yields the old or the new pairings, for any loader -/
theorem C20_load_after_crash {D} (load : File → D) (old : File) (new : Bytes) (done : Nat) (cutAt : Option Nat) :
    load (crash ⟨old, none⟩ (saveOps new) done cutAt).target = load old ∨
    load (crash ⟨old, none⟩ (saveOps new) done cutAt).target = load (some new) := by
  rcases C20_save_crash_safe old new done cutAt with h | h
  · left; rw [h]
  · right; rw [h]


/-! ## The accessory database round trip -/

open HapVerif.EntityMap

/-- **A characteristic is read back unchanged** (every attribute), for every metadata table and every
    normaliser, whenever the object is in normal form. -/
theorem C20_char_roundtrip (norm : String → String) (tbl : Table) (c : EntityMap.Char) (h : NF norm tbl c) :
    loadChar norm tbl (serChar c) = .ok c :=
  loadChar_serChar norm tbl c h

/-- **Restart after restart**: whatever `create_from_dict` builds from a clean characteristic dictionary is
    serialised to a dictionary that loads to the very same object. -/
theorem C20_char_restart (norm : String → String) (tbl : Table) (hn : ∀ s, norm (norm s) = norm s)
    (d : CharD) (c : EntityMap.Char) (hc : Clean d) (h : loadChar norm tbl d = .ok c) (hb : BoolPlain c) :
    loadChar norm tbl (serChar c) = .ok c :=
  loadChar_serChar norm tbl c (loadChar_NF norm tbl hn d c hc h hb)

/-- value updates (events, polls, writes echoed to the model) on a readable characteristic -/
def applyValues (c : EntityMap.Char) (vs : List J) : EntityMap.Char := vs.foldl setValue c

/-- **Every reachable state round-trips**: after any number of `set_value` calls with real values on a readable
    characteristic that was loaded from a clean dictionary, serialise + load returns the current object -
    in particular the latest value. -/
theorem C20_char_reachable_roundtrip (norm : String → String) (tbl : Table) (c : EntityMap.Char) (vs : List J)
    (h : NF norm tbl c) (hp : c.perms.contains "pr" = true) (hv : ∀ v ∈ vs, v ≠ .null) :
    loadChar norm tbl (serChar (applyValues c vs)) = .ok (applyValues c vs) := by
  apply loadChar_serChar
  unfold applyValues
  induction vs generalizing c with
  | nil => exact h
  | cons v vs ih =>
    exact ih (setValue c v) (setValue_NF norm tbl c v h hp (hv v (by simp))) hp (fun x hx => hv x (by simp [hx]))

/-- the value read back after a restart is the last one stored (bool characteristics store `bool(v)`) -/
theorem C20_last_value_survives (norm : String → String) (tbl : Table) (c : EntityMap.Char) (vs : List J) (v : J)
    (h : NF norm tbl c) (hp : c.perms.contains "pr" = true) (hv : ∀ x ∈ vs ++ [v], x ≠ .null) :
    (loadChar norm tbl (serChar (applyValues c (vs ++ [v])))).map (·.value) = .ok (coerce c.format v) := by
  rw [C20_char_reachable_roundtrip norm tbl c (vs ++ [v]) h hp hv]
  have hf : ∀ (c : EntityMap.Char) (l : List J), (applyValues c l).format = c.format := by
    intro c l
    unfold applyValues
    induction l generalizing c with
    | nil => rfl
    | cons x l ih => exact (ih (setValue c x)).trans rfl
  simp only [Except.map, applyValues, List.foldl_append, List.foldl_cons, List.foldl_nil, setValue]
  congr 1
  exact congrArg (fun f => coerce f v) (hf c vs)

/-- **A whole accessory is read back unchanged**: services in declaration order with their types, instance ids,
    characteristics and links. -/
theorem C20_accessory_roundtrip (norm : String → String) (tbl : Table) (a : Accessory) (h : NFA norm tbl a) :
    loadAccessory norm tbl (serAccessory a) = .ok a :=
  loadAccessory_ser norm tbl a h

/-- a list of accessories (`Accessories.serialize` / `from_list`) -/
theorem C20_accessories_roundtrip (norm : String → String) (tbl : Table) (as : List Accessory)
    (h : ∀ a ∈ as, NFA norm tbl a) :
    (as.map serAccessory).mapM (loadAccessory norm tbl) = .ok as := by
  induction as with
  | nil => rfl
  | cons a as ih =>
    simp only [List.map_cons, List.mapM_cons, loadAccessory_ser norm tbl a (h a (by simp)),
      ih (fun x hx => h x (by simp [hx])), bind, Except.bind, pure, Except.pure]

/-! ### The hypotheses are met (non-vacuity) and each excluded point really behaves differently -/

def tbl0 : Table := fun ty =>
  if ty = "BRIGHTNESS" then some { format := some (.str "int"), description := some (.str "Brightness"), unit := some (.str "percentage"), minValue := some (.num 0), maxValue := some (.num 100), minStep := some (.num 1) }
  else none

def d0 : CharD := { type := "brightness", iid := 9, perms := ["pr", "pw", "ev"], format := some (.str "int"), value := some (.num 40), minValue := some (.num 10) }

def c0 : EntityMap.Char := { type := "BRIGHTNESS", iid := 9, perms := ["pr", "pw", "ev"], format := .str "int", value := .num 40, ev := .null, description := .str "Brightness", unit := .str "percentage", minValue := .num 10, maxValue := .num 100, minStep := .num 1, maxLen := .num 64, validValues := .null, handle := .null, disconnectedEvents := .null, broadcastEvents := .null }

example : loadChar String.toUpper tbl0 d0 = .ok c0 := by decide +kernel
example : loadChar String.toUpper tbl0 (serChar c0) = .ok c0 := by decide +kernel

def dEmptyDesc : CharD := { d0 with description := some (.str "") }
def dWriteOnly : CharD := { d0 with perms := ["pw"] }
def dNullValue : CharD := { d0 with value := some .null }
def cNullValue : EntityMap.Char := { c0 with value := .null }

/-- the excluded point `"description": ""` on a type whose table carries a description: the empty string is not
    serialised and the table's text comes back (replayed on the real code by the harness; `description` is not
    among the attributes the property lists) -/
theorem C20_excluded_empty_description :
    (loadChar String.toUpper tbl0 dEmptyDesc).map (·.description) = .ok (.str "") ∧
    ((loadChar String.toUpper tbl0 dEmptyDesc).bind
      (fun c => loadChar String.toUpper tbl0 (serChar c))).map (·.description) = .ok (.str "Brightness") := by
  decide +kernel

/-- the excluded point: a value on a characteristic without the read permission is kept by `create_from_dict`
    but never serialised -/
theorem C20_excluded_value_without_read :
    (loadChar String.toUpper tbl0 dWriteOnly).map (·.value) = .ok (.num 40) ∧
    ((loadChar String.toUpper tbl0 dWriteOnly).bind
      (fun c => loadChar String.toUpper tbl0 (serChar c))).map (·.value) = .ok .null := by
  decide +kernel

/-- the excluded point: a readable characteristic whose value is `null` comes back with the constructor's
    default for its format and range -/
theorem C20_excluded_null_value :
    ((loadChar String.toUpper tbl0 dNullValue).bind
      (fun c => pure (setValue c .null))).map (·.value) = .ok .null ∧
    (loadChar String.toUpper tbl0 (serChar cNullValue)).map (·.value) = .ok (.num 10) := by
  decide +kernel

/-! ## The model is the source's own tables (regenerated on every run) -/

/-- **The model's serialiser is the generated table**: for every characteristic object, interpreting the
    (key, condition, attribute) rows extracted from `to_accessory_and_service_list` yields exactly the entries of
    `serChar` - same keys, same order, same conditions (`is not None` vs truthiness vs the read permission), same
    attributes. -/
theorem C20_gen_serialiser (c : EntityMap.Char) :
    serByTable Gen.EntityMap.ser c = dictEntries (serChar c) := by
  have map_emitIf : ∀ (b : Bool) (v : J) (k : String),
      (emitIf b v).map (fun v => (k, v)) = if b = true then some (k, v) else none := by
    intro b v k; cases b <;> rfl
  simp only [serByTable, Gen.EntityMap.ser, dictEntries, List.filter_cons, List.filter_nil, List.filterMap_cons,
    List.filterMap_nil, condHolds, attrOf, getKey, serChar, map_emitIf, List.any_cons, List.any_nil, Bool.or_false,
    ne_eq, String.reduceEq, not_true_eq_false, not_false_eq_true, and_self, and_false, false_and, and_true,
    decide_true, decide_false, ↓reduceIte, Option.map_some, Bool.false_eq_true]

/-- **The model's constructor plumbing is the generated tables**: every attribute `__init__` takes through
    `_get_configuration` is, in the model, the value of the JSON key that `create_from_dict` forwards under that
    keyword, else the metadata table's entry of that keyword, else `None` - for every dictionary, table and
    normaliser; `ev` and `maxLen` are the constants of the source. -/
theorem C20_gen_constructor (norm : String → String) (tbl : Table) (d : CharD) (v0 : J) :
    (∀ r ∈ Gen.EntityMap.ctor, r.1 ≠ "iid" → r.1 ≠ "perms" →
      attrOf (buildChar norm tbl d v0) r.1 = ctorByTable Gen.EntityMap.forward norm tbl d r.2.1) ∧
    Gen.EntityMap.consts = [("ev", "None"), ("maxLen", "64")] ∧
    (buildChar norm tbl d v0).ev = .null ∧ (buildChar norm tbl d v0).maxLen = .num 64 ∧
    (buildChar norm tbl d v0).iid = d.iid ∧ (buildChar norm tbl d v0).perms = d.perms ∧
    Gen.EntityMap.kwargs0 = ["{'perms': char_data['perms']}"] := by
  refine ⟨?_, by decide, rfl, rfl, rfl, rfl, by decide⟩
  intro r hr h1 h2
  simp only [Gen.EntityMap.ctor, List.mem_cons, List.mem_nil_iff, or_false] at hr
  rcases hr with rfl | rfl | rfl | rfl | rfl | rfl | rfl | rfl | rfl | rfl | rfl | rfl
  · exact absurd rfl h1
  · exact absurd rfl h2
  all_goals
    simp only [attrOf, buildChar, ctorByTable, Gen.EntityMap.forward, List.find?, getKey, metaSel, dFormat, dValid, dMin,
      dMax, Option.bind]
    first | rfl | (simp only [String.reduceBEq]; rfl) | (simp [String.reduceBEq])

/-- the per-format defaults of the model are `DEFAULT_FOR_TYPE` of the source, and every other format has none -/
theorem C20_gen_defaults :
    (∀ r ∈ Gen.EntityMap.defaults, defaultFor (.str r.1) = pyLit r.2) ∧
    (∀ f : String, f ∉ Gen.EntityMap.defaults.map (·.1) → defaultFor (.str f) = .null) := by
  constructor
  · decide
  · intro f hf
    simp only [Gen.EntityMap.defaults, List.map_cons, List.map_nil, List.mem_cons, List.mem_nil_iff, or_false, not_or] at hf
    obtain ⟨h1, h2, h3, h4, h5, h6, h7, h8, h9, h10⟩ := hf
    unfold defaultFor
    split <;> simp_all

/-- the remaining guards of the source, as the model has them: `set_value` coerces only for the bool format, a value
    is applied only when it is not `None`, a link 0 is skipped, the links are emitted only when there are any, and a
    service takes a fresh id only when the given one is 0 -/
theorem C20_gen_guards :
    Gen.EntityMap.coerce = ["self.format == CharacteristicFormats.bool"] ∧
    Gen.EntityMap.loadGuards = ["char_data.get('value') is not None", "linked_service"] ∧
    Gen.EntityMap.serviceSerGuards = ["(linked := [service.iid for service in self.linked])"] ∧
    Gen.EntityMap.serviceIid = ["iid or accessory.get_next_id()"] := by decide

/-! ## The write-through characteristic cache -/

/-- **A restart of the file-backed cache sees exactly the entries in memory**, after any history of
    `async_create_or_update_map` / `async_delete_map` (at least one, so that the file exists). -/
theorem C20_cache_write_through {A} (c : FileCache A) (ops : List (CacheOp A)) (h : ops ≠ []) :
    (ops.foldl FileCache.step c).restart.mem = (ops.foldl FileCache.step c).mem := by
  have : ∀ (c : FileCache A) (ops : List (CacheOp A)), ops ≠ [] →
      (ops.foldl FileCache.step c).file = some (ops.foldl FileCache.step c).mem := by
    intro c ops
    induction ops generalizing c with
    | nil => intro h; exact absurd rfl h
    | cons op ops ih =>
      intro _
      cases ops with
      | nil => rfl
      | cons op2 rest => exact ih (c.step op) (by simp)
  simp [FileCache.restart, this c ops h]

/-- the write-through invariant `file = mem` is kept by every further operation and by restarts -/
theorem C20_cache_invariant {A} (c : FileCache A) (h : c.file = some c.mem) (op : CacheOp A) :
    (c.step op).file = some (c.step op).mem ∧ c.restart.mem = c.mem := by
  simp [FileCache.step, FileCache.restart, h]

/-- an absent, truncated or unparsable cache file is a cold cache - start-up does not fail -/
theorem C20_cache_corrupt_is_empty {A} (mem : CacheMap A) :
    (FileCache.restart ⟨mem, none⟩).mem = [] := rfl

/-- the entry stored last for an id is the one found - config number, state number, broadcast key and the
    accessory database as given - and a deleted id is gone; other ids are not disturbed -/
theorem C20_cache_get_put {A} (m : CacheMap A) (k : String) (e : Entry A) :
    CacheMap.get (applyOp m (.put k e)) k = some e := by
  simp [applyOp, CacheMap.get]

theorem C20_cache_get_del {A} (m : CacheMap A) (k : String) :
    CacheMap.get (applyOp m (.del k)) k = none := by
  simp [applyOp, CacheMap.get, List.find?_eq_none]

theorem C20_cache_get_other {A} (m : CacheMap A) (k k' : String) (op : CacheOp A) (hk : k' ≠ k)
    (hop : op = .del k ∨ ∃ e, op = .put k e) :
    CacheMap.get (applyOp m op) k' = CacheMap.get m k' := by
  have hf : ∀ (l : CacheMap A), (l.filter (·.1 != k)).find? (·.1 == k') = l.find? (·.1 == k') := by
    intro l
    induction l with
    | nil => rfl
    | cons x l ih =>
      by_cases hx : x.1 = k
      · have h1 : (x.1 != k) = false := by simp [hx]
        have h2 : (x.1 == k') = false := by simp [hx, Ne.symm hk]
        rw [List.filter_cons_of_neg (p := fun y : String × Entry A => y.1 != k) (by simp [h1]),
          List.find?_cons_of_neg (p := fun y : String × Entry A => y.1 == k') (by simp [h2]), ih]
      · have h1 : (x.1 != k) = true := by simp [hx]
        rw [List.filter_cons_of_pos (p := fun y : String × Entry A => y.1 != k) h1]
        by_cases hx' : x.1 = k'
        · have h2 : (x.1 == k') = true := by simp [hx']
          rw [List.find?_cons_of_pos (p := fun y : String × Entry A => y.1 == k') h2,
            List.find?_cons_of_pos (p := fun y : String × Entry A => y.1 == k') h2]
        · have h2 : ¬ (x.1 == k') = true := by simp [hx']
          rw [List.find?_cons_of_neg (p := fun y : String × Entry A => y.1 == k') h2,
            List.find?_cons_of_neg (p := fun y : String × Entry A => y.1 == k') h2, ih]
  rcases hop with rfl | ⟨e, rfl⟩
  · simp only [applyOp, CacheMap.get, hf]
  · have h2 : ¬ ((k, e).1 == k') = true := by simp [Ne.symm hk]
    simp only [applyOp, CacheMap.get]
    rw [List.find?_cons_of_neg (p := fun y : String × Entry A => y.1 == k') h2, hf]

end HapVerif.C20
