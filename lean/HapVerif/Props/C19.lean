import HapVerif.Model.Waiters
import HapVerif.Gen.Misc

/-! # C19 - device waiters are woken by advertisements; advertisement parsing is robust -/

namespace HapVerif.C19
open HapVerif HapVerif.Waiters

/-- **Woken**: when a valid advertisement for `id` is processed, every waiter pending for `id` -
    whatever the order of registration, however many other waiters and ids there are - is
    completed with the discovery at that very step, and no waiter for another id is touched. -/
theorem C19_woken (s : St) (id : Nat) :
    (∀ p ∈ s.pending, p.id = id → (p.k, Outcome.found s.now) ∈ (step s (.adv id)).done) ∧
    (∀ p ∈ s.pending, p.id ≠ id → p ∈ (step s (.adv id)).pending) ∧
    (∀ p ∈ (step s (.adv id)).pending, p.id ≠ id ∧ p ∈ s.pending) := by
  refine ⟨?_, ?_, ?_⟩
  · intro p hp hid
    simp only [step, List.mem_append, List.mem_map, List.mem_filter]
    right; exact ⟨p, ⟨hp, by simp [hid]⟩, rfl⟩
  · intro p hp hid
    simp only [step, List.mem_filter]
    exact ⟨hp, by simp [hid]⟩
  · intro p hp
    simp only [step, List.mem_filter] at hp
    exact ⟨by simpa using hp.2, hp.1⟩

/-- a caller that starts waiting after the device was already discovered is completed at once -/
theorem C19_known_device_immediate (s : St) (k id timeout : Nat) (h : id ∈ s.discovered) :
    (k, Outcome.found s.now) ∈ (step s (.start k id timeout)).done ∧
    (step s (.start k id timeout)).pending = s.pending := by
  simp [step, h]

/-- **Timeout**: when the clock reaches a waiter's deadline without an advertisement for its id,
    it fails with not-found stamped exactly at its deadline; waiters whose deadline is later are
    untouched. -/
theorem C19_timeout (s : St) (t : Nat) (ht : s.now ≤ t) :
    (∀ p ∈ s.pending, p.deadline ≤ t → (p.k, Outcome.notFound p.deadline) ∈ (step s (.advance t)).done) ∧
    (∀ p ∈ s.pending, t < p.deadline → p ∈ (step s (.advance t)).pending) := by
  have hmax : max t s.now = t := Nat.max_eq_left ht
  refine ⟨?_, ?_⟩
  · intro p hp hd
    simp only [step, hmax, List.mem_append, List.mem_map, List.mem_filter]
    right; exact ⟨p, ⟨hp, by simpa using hd⟩, rfl⟩
  · intro p hp hd
    simp only [step, hmax, List.mem_filter]
    exact ⟨hp, by simpa using hd⟩

/-- cancelling one waiter removes exactly that waiter -/
theorem C19_cancel (s : St) (k : Nat) :
    (∀ p ∈ s.pending, p.k ≠ k → p ∈ (step s (.cancel k)).pending) ∧
    (∀ p ∈ (step s (.cancel k)).pending, p.k ≠ k) := by
  refine ⟨?_, ?_⟩
  · intro p hp hk
    simp only [step, List.mem_filter]
    exact ⟨hp, by simp [hk]⟩
  · intro p hp
    simp only [step, List.mem_filter] at hp
    simpa using hp.2

/-- **Nothing completed is ever undone or completed twice by a later step**: `done` only grows -/
theorem C19_done_monotone (s : St) (e : Ev) : ∀ x ∈ s.done, x ∈ (step s e).done := by
  intro x hx
  cases e with
  | start k id timeout =>
    simp only [step]
    split
    · simp [hx]
    · exact hx
  | adv id => simp [step, hx]
  | cancel k => simp [step, hx]
  | advance t => simp [step, hx]

/-- **Order independence** (frame property): a step never changes a *pending* waiter other than by
    completing it for one of the three legitimate reasons - its own id was advertised, its own
    deadline passed, or it was cancelled itself. -/
theorem C19_order_independent (s : St) (e : Ev) (p : Pending) (hp : p ∈ s.pending) :
    p ∈ (step s e).pending ∨ e = .adv p.id ∨ e = .cancel p.k ∨ (∃ t, e = .advance t ∧ p.deadline ≤ max t s.now) := by
  cases e with
  | start k id timeout =>
    left
    simp only [step]
    split
    · exact hp
    · simp [hp]
  | adv id =>
    by_cases h : p.id = id
    · right; left; rw [h]
    · left; simp only [step, List.mem_filter]; exact ⟨hp, by simp [h]⟩
  | cancel k =>
    by_cases h : p.k = k
    · right; right; left; rw [h]
    · left; simp only [step, List.mem_filter]; exact ⟨hp, by simp [h]⟩
  | advance t =>
    by_cases h : p.deadline ≤ max t s.now
    · right; right; right; exact ⟨t, rfl, h⟩
    · left; simp only [step, List.mem_filter]; exact ⟨hp, by simpa using h⟩

example : (run {} [.start 1 7 5000, .start 2 8 5000, .start 3 7 9000, .cancel 3, .adv 7, .advance 6000]).done =
    [(3, .cancelled), (1, .found 0), (2, .notFound 5000)] := by decide

/-! ## parsing -/

/-- **BLE, truncation**: every advertisement shorter than the 15 mandatory bytes is ignored, and so
    is every one whose type byte is not the HomeKit advertisement type -/
theorem C19_parse_ble_truncated (data : Bytes) (h : data.length < 15) : parseBle data = none := by
  unfold parseBle
  cases data with
  | nil => rfl
  | cons t rest =>
    simp only
    split
    · rfl
    · simp [h]

theorem C19_parse_ble_wrong_type (t : UInt8) (rest : Bytes) (h : t ≠ 0x06) : parseBle (t :: rest) = none := by
  simp [parseBle, h]

/-- **BLE, layout**: type, length, status flags, 6-byte id, category (LE16), state number (LE16),
    configuration number, compatible version, then the optional 4-byte setup hash -/
theorem C19_parse_ble_layout (l sf i0 i1 i2 i3 i4 i5 a0 a1 g0 g1 cn cv : UInt8) :
    parseBle [0x06, l, sf, i0, i1, i2, i3, i4, i5, a0, a1, g0, g1, cn, cv]
      = some ⟨[i0, i1, i2, i3, i4, i5], sf.toNat, le16 a0 a1, le16 g0 g1, cn.toNat, []⟩ ∧
    ∀ h0 h1 h2 h3 : UInt8, parseBle [0x06, l, sf, i0, i1, i2, i3, i4, i5, a0, a1, g0, g1, cn, cv, h0, h1, h2, h3]
      = some ⟨[i0, i1, i2, i3, i4, i5], sf.toNat, le16 a0 a1, le16 g0 g1, cn.toNat, [h0, h1, h2, h3]⟩ := by
  constructor
  · simp [parseBle]
  · intro h0 h1 h2 h3; simp [parseBle]

/-- **mDNS**: a record is accepted only with at least one address that is neither link-local nor
    unspecified and with an id; the id is reported lower-cased, the address is the first usable
    one in the order zeroconf delivers them (IPv4 first), and only usable addresses are listed -/
theorem C19_parse_mdns (addrs : List (AddrKind × String)) (props : List (String × Option String)) (m : Mdns)
    (h : parseMdns addrs props = some m) :
    (∃ id, lookupTxt props "id" = some id ∧ m.id = id.toLower) ∧
    m.addresses = (addrs.filter (·.1 = .ok)).map (·.2) ∧ m.addresses.head? = some m.address := by
  unfold parseMdns at h
  split at h
  · cases h
  · simp only at h
    split at h
    · cases h
    · rename_i first rest hv
      split at h
      · cases h
      · rename_i id hid
        split at h
        · cases h
          refine ⟨⟨id, hid, rfl⟩, ?_, ?_⟩
          · rfl
          · simp only [hv]; rfl
        · cases h

theorem C19_parse_mdns_no_usable_address (addrs : List (AddrKind × String)) (props : List (String × Option String))
    (h : ∀ a ∈ addrs, a.1 ≠ .ok) : parseMdns addrs props = none := by
  unfold parseMdns
  split
  · rfl
  · have : (addrs.filter (·.1 = .ok)) = [] := by
      apply List.filter_eq_nil_iff.mpr
      intro a ha; simpa using h a ha
    simp [this]

/-- tie to the source (regenerated on every run from `HomeKitAdvertisement.from_manufacturer_data`): the minimum
    length 15, the optional setup hash from 19 bytes on, the byte ranges of type, status flags, device id, the packed
    `<HHBB` block (category, state number, configuration number, compatible version) and the setup hash -/
theorem C19_gen_tie :
    Gen.Misc.bleAdvLenChecks = [("GtE", 19), ("Lt", 15)] ∧
    Gen.Misc.bleAdvSlices = [(0, 1), (2, 3), (3, 9), (9, 15), (15, 19)] ∧
    Gen.Misc.bleAdvUnpack = "<HHBB" := by decide

/-! ## Inside one loop iteration (`Waiters.Micro`): the callbacks meet futures that are already done -/

open HapVerif.Waiters.Micro in
/-- the guarded `set_result` never raises: whatever state the registered future is in -/
theorem wake_never_raises (id : Nat) (e : Micro.Entry) : (wake id e).2 = false := by
  unfold wake setResult
  split
  · split
    · rename_i hp; simp [hp]
    · rfl
  · rfl

open HapVerif.Waiters.Micro in
/-- **No advertisement makes the callback raise, in any schedule** - also when it is processed in the very loop
    iteration in which a waiter for its id was cancelled or timed out (its future is done, its task has not run yet
    and it is still registered). -/
theorem C19_micro_callback_never_raises (evs : List Micro.Ev) : (Micro.run {} evs).raised = false := by
  have h : ∀ (evs : List Micro.Ev) (s : Micro.St), s.raised = false → (Micro.run s evs).raised = false := by
    intro evs
    induction evs with
    | nil => intro s hs; exact hs
    | cons e es ih =>
      intro s hs
      apply ih
      cases e with
      | start k id =>
        simp only [Micro.step, Micro.settle]
        by_cases hd : id ∈ s.discovered <;> simp [hd, hs]
      | adv id =>
        simp only [Micro.step, hs, Bool.false_or]
        simp [wake_never_raises]
      | cancel k => exact hs
      | timeout k => exact hs
      | tick => exact hs
  exact h evs {} rfl

open HapVerif.Waiters.Micro in
/-- **A waiter that is still pending when a valid advertisement for its id is processed is completed with the
    discovery** - whatever else happened to other waiters in the same iteration - and the next run of the loop
    reports it found. -/
theorem C19_micro_pending_woken (s : Micro.St) (id : Nat) (e : Micro.Entry) (he : e ∈ s.entries)
    (hid : e.id = id) (hreg : e.registered = true) (hp : e.st = .pending) :
    { e with st := .resolved, registered := false } ∈ (Micro.step s (.adv id)).entries ∧
    (e.k, Micro.Outcome.found) ∈ (Micro.settle (Micro.step s (.adv id))).done := by
  have hw : (wake id e).1 = { e with st := .resolved, registered := false } := by
    simp [wake, setResult, hid, hreg, hp]
  have hmem : { e with st := .resolved, registered := false } ∈ (Micro.step s (.adv id)).entries := by
    simp only [Micro.step, List.mem_map]
    exact ⟨e, he, hw⟩
  refine ⟨hmem, ?_⟩
  simp only [Micro.settle, List.mem_append, List.mem_map, List.mem_filter]
  right
  exact ⟨_, ⟨hmem, by simp⟩, rfl⟩

open HapVerif.Waiters.Micro in
/-- a waiter whose future is already done (cancelled or timed out) is left alone by the advertisement: it ends with
    its own outcome, never with a discovery it did not wait for any more -/
theorem C19_micro_done_untouched (id : Nat) (e : Micro.Entry) (hd : e.st = .cancelled ∨ e.st = .timedOut) :
    (wake id e).1.st = e.st := by
  unfold wake
  rcases hd with h | h <;> (split <;> simp [h])

/-- non-vacuity: waiters 1 and 2 wait for device 7; waiter 1 is cancelled and, in the same iteration, the
    advertisement arrives: waiter 2 is woken, waiter 1 ends cancelled, nothing raises -/
example : (Micro.run {} [.start 1 7, .start 2 7, .cancel 1, .adv 7, .tick]).done = [(1, .cancelled), (2, .found)] ∧
    (Micro.run {} [.start 1 7, .start 2 7, .cancel 1, .adv 7, .tick]).raised = false := by decide

end HapVerif.C19
