import HapVerif.Model.Reconnect

namespace HapVerif.Drv.Reconnect
open HapVerif.Reconnect

def nats (t : String) : List Nat := if t = "-" || t = "" then [] else (t.splitOn ",").map (·.toNat!)

def parseEv (t : String) : Option Ev :=
  match t.splitOn ":" with
  | ["a", dt] => some (.adv dt.toNat!)
  | ["e", id, "-"] => some (.ensure id.toNat! none)
  | ["e", id, own] => some (.ensure id.toNat! (some own.toNat!))
  | ["c", id] => some (.cancelW id.toNat!)
  | ["s"] => some .soon
  | ["d", hs] => some (.descr (nats hs))
  | ["x"] => some .close
  | ["X"] => some .shutdown
  | ["p", c] => some (.drop c.toNat!)
  | ["t", "r"] => some (.pushTcp .refused)
  | ["t", "t"] => some (.pushTcp .timeout)
  | ["t", "o", k] => some (.pushTcp (.ok k.toNat!))
  | ["v", "ok"] => some (.pushVer .ok)
  | ["v", "wr"] => some (.pushVer .wrongId)
  | ["v", "au"] => some (.pushVer .auth)
  | ["v", "fa"] => some (.pushVer .fail)
  | ["v", "ha"] => some (.pushVer .hang)
  | ["v", "ol"] => some (.pushVer .okLost)
  | _ => none

def showNats (l : List Nat) : String := if l.isEmpty then "-" else ",".intercalate (l.map toString)

def insertSorted (x : Nat) : List Nat → List Nat
  | [] => [x]
  | y :: ys => if x < y then x :: y :: ys else y :: insertSorted x ys

def sortNats (l : List Nat) : List Nat := l.foldl (fun acc x => insertSorted x acc) []

def showW : WOut → String
  | .ok => "ok" | .disconnected => "disc" | .auth => "auth" | .ownTimeout => "own" | .cancelled => "canc"

def showConn : Conn → String
  | .idle => "none" | .sleeping _ => "live" | .tcpWait _ _ => "live" | .verifyWait _ _ => "live"
  | .doneOk => "done" | .doneAuth => "auth" | .finished => "done" | .cancelled => "canc" | .stuck => "STUCK"

def insW (x : Nat × String) : List (Nat × String) → List (Nat × String)
  | [] => [x]
  | y :: ys => if x.1 < y.1 then x :: y :: ys else y :: insW x ys

def showObs (os : List Obs) : String :=
  let atts := os.filterMap fun
    | .attempt t hs => some s!"A{t}@{showNats hs}"
    | _ => none
  let ws := os.filterMap fun
    | .waiter id o t => some (id, s!"W{id}={showW o}@{t}")
    | _ => none
  let ws := (ws.foldl (fun acc x => insW x acc) []).map (·.2)
  " ".intercalate (atts ++ ws)

def summary (s : St) : String :=
  let cur := match s.current with | some c => toString c | none => "-"
  s!"open={showNats (sortNats s.open_)} cur={cur} conn={showConn s.conn} live={s.liveTasks} con={if s.isConnected then 1 else 0} failed={showNats (sortNats s.failed)} t={s.now}"

def runAll (s : St) : List Ev → List String → List String
  | [], acc => acc.reverse
  | e :: es, acc =>
    let s' := step s e
    let delta := s'.obs.drop s.obs.length
    runAll s' es (s!"{showObs delta} | {summary s'}" :: acc)

def handle : List String → Option String
  | "rc.run" :: hs :: toks =>
    (toks.mapM parseEv).map fun evs => " ; ".intercalate (runAll (init (nats hs)) evs [])
  | _ => none

end HapVerif.Drv.Reconnect
