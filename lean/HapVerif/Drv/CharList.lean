import HapVerif.Model.CharList

namespace HapVerif.Drv.CharList
open HapVerif HapVerif.CharList

/-! minimal JSON reader/writer for the line protocol (ASCII strings without escapes) -/

def skipWs : List Char → List Char
  | c :: r => if c = ' ' then skipWs r else c :: r
  | [] => []

mutual
partial def pJ : List Char → Option (J × List Char)
  | 'n' :: 'u' :: 'l' :: 'l' :: r => some (.null, r)
  | 't' :: 'r' :: 'u' :: 'e' :: r => some (.bool true, r)
  | 'f' :: 'a' :: 'l' :: 's' :: 'e' :: r => some (.bool false, r)
  | '"' :: r =>
    let s := r.takeWhile (· ≠ '"')
    some (.str (String.ofList s), (r.dropWhile (· ≠ '"')).drop 1)
  | '[' :: r => pArr (skipWs r) []
  | '{' :: r => pObj (skipWs r) []
  | cs =>
    let (neg, ds) := match cs with | '-' :: r => (true, r) | _ => (false, cs)
    let digits := ds.takeWhile Char.isDigit
    if digits.isEmpty then none else
    let n : Int := (String.ofList digits).toNat!
    some (.int (if neg then -n else n), ds.dropWhile Char.isDigit)
partial def pArr : List Char → List J → Option (J × List Char)
  | ']' :: r, acc => some (.arr acc.reverse, r)
  | ',' :: r, acc => pArr (skipWs r) acc
  | cs, acc => match pJ cs with
    | some (v, r) => pArr (skipWs r) (v :: acc)
    | none => none
partial def pObj : List Char → List (String × J) → Option (J × List Char)
  | '}' :: r, acc => some (.obj acc.reverse, r)
  | ',' :: r, acc => pObj (skipWs r) acc
  | '"' :: r, acc =>
    let k := String.ofList (r.takeWhile (· ≠ '"'))
    match skipWs ((r.dropWhile (· ≠ '"')).drop 1) with
    | ':' :: r2 => match pJ (skipWs r2) with
      | some (v, r3) => pObj (skipWs r3) ((k, v) :: acc)
      | none => none
    | _ => none
  | _, _ => none
end

def parseJ (s : String) : Option J := (pJ s.toList).map (·.1)

partial def showJ : J → String
  | .null => "null" | .bool true => "true" | .bool false => "false"
  | .int n => toString n
  | .str s => "\"" ++ s ++ "\""
  | .arr l => "[" ++ ",".intercalate (l.map showJ) ++ "]"
  | .obj kv => "{" ++ ",".intercalate (kv.map fun (k, v) => "\"" ++ k ++ "\":" ++ showJ v) ++ "}"

def keyLt (a b : Key) : Bool := a.1 < b.1 ∨ (a.1 = b.1 ∧ a.2 < b.2)

def insertSorted {β} (x : Key × β) : List (Key × β) → List (Key × β)
  | [] => [x]
  | y :: ys => if keyLt x.1 y.1 then x :: y :: ys else y :: insertSorted x ys

def sortKeys {β} (l : List (Key × β)) : List (Key × β) := l.foldl (fun acc x => insertSorted x acc) []

def sortObj (o : Obj) : Obj :=
  let rec ins (x : String × J) : List (String × J) → List (String × J)
    | [] => [x]
    | y :: ys => if x.1 < y.1 then x :: y :: ys else y :: ins x ys
  o.foldl (fun acc x => ins x acc) []

def showResult (r : Result) : String :=
  let rows := (sortKeys r).map fun (k, o) => s!"{k.1}.{k.2}=" ++ showJ (.obj (sortObj o))
  if rows.isEmpty then "-" else ";".intercalate rows

def parseKeys (s : String) : List Key :=
  if s = "-" then [] else (s.splitOn ",").filterMap fun x => match x.splitOn "." with
    | [a, b] => some ((a.toInt!), (b.toInt!))
    | _ => none

def showKeys (l : List Key) : String :=
  let l' := (sortKeys (l.map fun k => (k, ()))).map (·.1)
  if l'.isEmpty then "-" else ",".intercalate (l'.map fun k => s!"{k.1}.{k.2}")

def parsePerm : String → Perm
  | "rw" => .readWrite | "w" => .writeOnly | "tw" => .timedWrite | "trw" => .timedReadWrite | _ => .readOnly

def handle : List String → Option String
  | ["cl.format", req, json] =>
    match parseJ json with
    | some (.obj data) => some (showResult (format data (parseKeys req)))
    | _ => some "bad-json"
  | ["cl.ipput", readable, json] =>
    if json = "204" then
      let r := ipPut (parseKeys readable) none
      some s!"{showKeys r.notified} | {showResult r.status}"
    else match parseJ json with
    | some (.obj resp) =>
      let r := ipPut (parseKeys readable) (some resp)
      some s!"{showKeys r.notified} | {showResult r.status}"
    | _ => some "bad-json"
  | ["cl.ipputc", code, readable, json] =>
    -- status line + body as they come off the wire; json = "-" when the body is not a JSON object
    let body : Option Obj := match parseJ json with | some (.obj resp) => some resp | _ => none
    some (match ipPutHttp (parseKeys readable) code.toNat! body with
      | .failed => "failed"
      | .result r => s!"{showKeys r.notified} | {showResult r.status}")
  | "cl.coapput" :: items =>
    -- item = aid.iid:r|w:result
    let parsed := items.filterMap fun it => match it.splitOn ":" with
      | [k, p, res] => (parseKeys k).head?.map fun key => ((key, decide (p = "r")), res.toNat!)
      | _ => none
    let r := coapPut (parsed.map (·.1)) (parsed.map (·.2))
    some s!"{showKeys r.notified} | {showKeys (r.status.map (·.1))}"
  | "cl.bleput" :: items =>
    let parsed := items.filterMap fun it => match it.splitOn ":" with
      | [k, p, acc] => (parseKeys k).head?.map fun key => (key, parsePerm p, decide (acc = "1"))
      | _ => none
    let (n, r, raised) := blePut parsed [] []
    some s!"{showKeys n} | {showKeys (r.map (·.1))} | {if raised then "raised" else "returned"}"
  | "cl.bleget" :: items =>
    -- item = aid.iid:v<n> | aid.iid:r<status> | aid.iid:u
    let parsed := items.filterMap fun it => match it.splitOn ":" with
      | [k, a] => (parseKeys k).head?.bind fun key =>
        match a.toList with
        | 'v' :: r => (String.ofList r).toNat?.map fun n => (key, BleAnswer.value n)
        | 'r' :: r => (String.ofList r).toNat?.map fun n => (key, BleAnswer.refused n)
        | ['u'] => some (key, BleAnswer.undecodable)
        | _ => none
      | _ => none
    let r := bleGet parsed
    some (if r.isEmpty then "-" else ",".intercalate (r.map fun (k, v) => s!"{k.1}.{k.2}={v}"))
  | ["cl.status", s] =>
    let r := toStatusCode s.toInt!
    some s!"{r.1} {r.2.replace " " "_"}"
  | _ => none

end HapVerif.Drv.CharList
