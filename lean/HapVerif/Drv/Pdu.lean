import HapVerif.Model.Pdu
import HapVerif.Model.Crypto.Real

namespace HapVerif.Drv.Pdu
open HapVerif HapVerif.Pdu HapVerif.RealCrypto

def showErr : Err → String
  | .struct => "struct" | .value => "value" | .index => "index" | .encryption => "encryption"

def showFrags (l : List Bytes) : String := if l.isEmpty then "." else " ".intercalate (l.map toHex)

def showRes : Res → String
  | .body b => s!"b:{toHex b}"
  | .status s => s!"s:{s}"

def nonce (c : Nat) : Bytes := natToLe 4 0 ++ natToLe 8 c

/-- `DecryptionKey.decrypt` per fragment: the counter moves on only after a success -/
def decryptAll (key : Bytes) : Nat → List Bytes → List (Option Bytes) × Nat
  | c, [] => ([], c)
  | c, f :: fs =>
    match aeadOpen key (nonce c) [] f with
    | none => let r := decryptAll key c fs; (none :: r.1, r.2)
    | some p => let r := decryptAll key (c + 1) fs; (some p :: r.1, r.2)

/-- `EncryptionKey.encrypt` per fragment -/
def encryptAll (key : Bytes) : Nat → List Bytes → List Bytes
  | _, [] => []
  | c, f :: fs => aeadSeal key (nonce c) [] f :: encryptAll key (c + 1) fs

def showRead : Except Err (Nat × Bytes) × Nat → String
  | (.ok (st, body), n) => s!"ok {st} {toHex body} {n}"
  | (.error e, n) => s!"err {showErr e} {n}"

def parseItems : List String → List (Nat × Bytes)
  | [] => []
  | x :: rest => match x.splitOn ":" with
    | [i, h] => (i.toNat!, ofHex h) :: parseItems rest
    | _ => parseItems rest

def handle : List String → Option String
  | ["pdu.enc", opcode, tid, iid, fs, data] =>
    some (showFrags (encodePdu (UInt8.ofNat opcode.toNat!) (UInt8.ofNat tid.toNat!) iid.toNat! (ofHex data) fs.toNat!))
  | ["pdu.encenc", key, ctr, opcode, tid, iid, fs, data] =>
    some (showFrags (encryptAll (ofHex key) ctr.toNat!
      (encodePdu (UInt8.ofNat opcode.toNat!) (UInt8.ofNat tid.toNat!) iid.toNat! (ofHex data) fs.toNat!)))
  | "pdu.read" :: tid :: frags =>
    some (showRead (readPdu (UInt8.ofNat tid.toNat!) (frags.map fun f => some (ofHex f))))
  | "pdu.readenc" :: key :: ctr :: tid :: frags =>
    -- only the fragments the loop actually reads are decrypted; decrypt lazily by consumption count
    let fr := frags.map ofHex
    let (dec, _) := decryptAll (ofHex key) ctr.toNat! fr
    -- a failed decryption ends the exchange, so later fragments are never touched: cut after first failure
    let cut := (dec.takeWhile (·.isSome)) ++ (if dec.any (·.isNone) then [none] else [])
    let r := readPdu (UInt8.ofNat tid.toNat!) cut
    let used := r.2
    let okUsed := ((cut.take used).filter (·.isSome)).length
    some s!"{showRead r} ctr={ctr.toNat! + okUsed}"
  | "coap.enc" :: opcode :: items =>
    some (toHex (coapEncodeAll (UInt8.ofNat opcode.toNat!) (parseItems items)))
  | ["coap.dec", tid, data] =>
    match coapDecode tid.toNat! (ofHex data) with
    | .ok rs => some ("ok " ++ " ".intercalate (rs.map showRes))
    | .error e => some s!"err {showErr e}"
  | _ => none

end HapVerif.Drv.Pdu
