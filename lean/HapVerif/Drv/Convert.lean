import HapVerif.Model.Convert

namespace HapVerif.Drv.Convert
open HapVerif.Convert

def parseRat (s : String) : Option Rat :=
  match s.splitOn "/" with
  | [a, b] => do
    let n ← a.toInt?
    let d ← b.toNat?
    if d = 0 then none else some ((n : Rat) / (d : Rat))
  | _ => none

def parseOpt (s : String) : Option (Option Rat) := if s = "-" then some none else (parseRat s).map some

def handle : List String → Option String
  | ["cv.num", fmt, mn, mx, st, v] =>
    match parseOpt mn, parseOpt mx, parseOpt st, parseRat v with
    | some mn, some mx, some st, some v =>
      let r := convert (fmt == "int") mn mx st v
      some s!"{r.num}/{r.den}"
    | _, _, _, _ => some "bad-op"
  | ["cv.bool", hexs0] =>
    let hexs := if hexs0 = "-" then "" else hexs0
    -- the string is passed hex-encoded (utf-8) to survive the token splitting
    let bytes := (List.range (hexs.length / 2)).map fun i =>
      let h (c : Char) : Nat := if c.isDigit then c.toNat - 48 else c.toNat - 87
      let cs := hexs.toList
      UInt8.ofNat (h cs[2*i]! * 16 + h cs[2*i+1]!)
    match String.fromUTF8? ⟨bytes.toArray⟩ with
    | some s => some (match convertBool s with | some n => toString n | none => "err")
    | none => some "err"
  | _ => none

end HapVerif.Drv.Convert
