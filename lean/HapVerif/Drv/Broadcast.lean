import HapVerif.Model.Broadcast

namespace HapVerif.Drv.Broadcast
open HapVerif HapVerif.Broadcast

def parseAdv (t : String) : Option Adv :=
  match t.splitOn ":" with
  | ["G", a, g, inner, iid, v] => some (.genuine a.toNat! g.toNat! inner.toNat! iid.toNat! (ofHex v))
  | ["F", a] => some (.foreign a.toNat!)
  | ["S", a] => some (.short a.toNat!)
  | _ => none

def showOut : Out → String
  | .delivered iid v => s!"d:{iid}:{toHex v}"
  | .ignored => "i" | .fallback => "f" | .notRouted => "n" | .noDelivery => "x" | .silent => "q"

def parseFmt : String → Fmt
  | "bool" => .bool | "uint8" => .uint8 | "uint16" => .uint16 | "uint32" => .uint32 | "uint64" => .uint64
  | "int" => .int | "float" => .float | "string" => .string | _ => .other

def showVal : Val → String
  | .b v => s!"b:{v}" | .n v => s!"n:{v}" | .f32 b => s!"f:{toHex b}" | .s r => s!"s:{toHex r}" | .hex r => s!"h:{toHex r}"

def handle : List String → Option String
  | "bc.run" :: advId :: st :: hasKey :: advs =>
    (advs.mapM parseAdv).map fun as =>
      let s0 : St := ⟨advId.toNat!, st.toNat!, hasKey == "1"⟩
      -- instance ids 900.. are not in the harness's accessory database
      " ".intercalate (((run s0 as).map (observe (List.range' 900 100))).map showOut) ++ s!" | {(finalState s0 as).stateNum}"
  | ["bc.val", fmt, v] => some (showVal (decodeValue (parseFmt fmt) (ofHex v)))
  | _ => none

end HapVerif.Drv.Broadcast
