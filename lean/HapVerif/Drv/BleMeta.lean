import HapVerif.Bytes
import HapVerif.Model.BleMeta

/-! Driver for the BLE signature-metadata model (C14).
`bm.range <format code> <descriptor hex|->` -> `none` | `error` | `i:<lo>:<hi>` | `f:<lo bits hex>:<hi bits hex>`
`bm.step <format code> <descriptor hex|->`  -> `none` | `error` | `i:<v>` | `f:<bits hex>` | `other` -/

namespace HapVerif.Drv.BleMeta
open HapVerif HapVerif.BleMeta

def handle : List String → Option String
  | ["bm.range", code, hex] =>
    match code.toNat? with
    | none => some "bad-op"
    | some c =>
      some (match minMax c (ofHex hex) with
        | .none => "none"
        | .error => "error"
        | .ints lo hi => s!"i:{lo}:{hi}"
        | .floats lo hi => s!"f:{toHex lo}:{toHex hi}")
  | ["bm.step", code, hex] =>
    match code.toNat? with
    | none => some "bad-op"
    | some c =>
      some (match minStep c (ofHex hex) with
        | .none => "none"
        | .error => "error"
        | .int v => s!"i:{v}"
        | .float b => s!"f:{toHex b}"
        | .other => "other")
  | _ => none

end HapVerif.Drv.BleMeta
