import HapVerif.Model.Srp
import HapVerif.Model.Crypto.Real

namespace HapVerif.Drv.Srp
open HapVerif HapVerif.Srp

def run (I P salt Bb : String) (a : String) : Client :=
  client RealCrypto.sha512 hapGroup (ofHex I) (ofHex P) (ofHex salt) (ofHex Bb) a.toNat!

def handle : List String → Option String
  | ["srp.client", I, P, salt, Bb, a] =>
    let c := run I P salt Bb a
    some s!"{toHex c.A_b} {toHex c.K} {toHex c.M1} {toHex c.expectM2} {c.S}"
  | ["srp.verify", I, P, salt, Bb, a, M] =>
    some (toString (accepts (run I P salt Bb a) (ofHex M)))
  | _ => none

end HapVerif.Drv.Srp
