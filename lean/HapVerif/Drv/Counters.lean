import HapVerif.Model.Counters

namespace HapVerif.Drv.Counters
open HapVerif.Counters

def showObs : Obs → String
  | .sealed n => s!"s{n}" | .accepted j => s!"a{j}" | .closed => "c"

def showAll (l : List Obs) : String := if l.isEmpty then "-" else " ".intercalate (l.map showObs)

def parseCt (t : String) : Option Ct :=
  if t = "x" then some .corrupt
  else if t.startsWith "g" then (t.drop 1).toNat?.map Ct.genuine
  else none

def parseEv (t : String) : Option Ev :=
  if t = "a" then some .abort
  else if t.startsWith "s" then (t.drop 1).toNat?.map Ev.send
  else (parseCt t).map Ev.deliver

def parseCoap (t : String) : Option CoapEv :=
  if t = "q" then some .request else (parseCt t).map CoapEv.response

def parseSEv (t : String) : Option SEv :=
  if t = "K" then some .rekey else (parseEv t).map SEv.ev

def showS (l : List (Nat × Obs)) : String :=
  if l.isEmpty then "-" else " ".intercalate (l.map fun (k, o) => s!"{k}:{showObs o}")

def handle : List String → Option String
  | "ctr.ipble" :: toks => (toks.mapM parseEv).map fun evs => showAll (run {} evs)
  | "ctr.coap" :: toks => (toks.mapM parseCoap).map fun evs => showAll (coapRun {} evs)
  | "ctr.sess" :: toks => (toks.mapM parseSEv).map fun evs => showS (srun {} evs)
  | "ctr.event" :: toks => (toks.mapM parseCt).map fun cts => showAll (eventRun 0 cts)
  | _ => none

end HapVerif.Drv.Counters
