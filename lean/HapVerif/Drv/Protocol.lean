import HapVerif.Model.Protocol
import HapVerif.Drv.Tlv

namespace HapVerif.Drv.Protocol
open HapVerif HapVerif.Tlv HapVerif.Protocol

def showErr : PErr → String
  | .invalid => "InvalidError" | .auth => "AuthenticationError" | .backoff => "BackoffError"
  | .maxPeers => "MaxPeersError" | .maxTries => "MaxTriesError" | .unavailable => "UnavailableError"
  | .busy => "BusyError" | .unknown => "UnknownError" | .unpaired => "UnpairedError" | .other => "other"

def parseStep : String → Option Step
  | "setupM2" => some .setupM2 | "setupM4" => some .setupM4 | "setupM6" => some .setupM6
  | "verifyM2" => some .verifyM2 | "verifyM4" => some .verifyM4 | _ => none

def showU : Except PErr Unit → String
  | .ok () => "ok"
  | .error e => s!"err {showErr e}"

def handle : List String → Option String
  | "c04.step" :: step :: filtered :: items =>
    match parseStep step, Drv.Tlv.parseItems items with
    | some s, some reply =>
      match runStep s (filtered = "1") reply (fun d => s.presence d) with
      | .error e => some s!"err {showErr e}"
      | .ok (some ()) => some "ok"
      | .ok none => some "crypto"
    | _, _ => some "bad-op"
  | "c04.ipadd" :: items => (Drv.Tlv.parseItems items).map fun r => showU (ipAddPairing r)
  | "c04.rm" :: items => (Drv.Tlv.parseItems items).map fun r => showU (removeLike r)
  | _ => none

end HapVerif.Drv.Protocol
