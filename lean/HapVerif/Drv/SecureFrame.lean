import HapVerif.Model.SecureFrame
import HapVerif.Model.Crypto.Real

namespace HapVerif.Drv.SecureFrame
open HapVerif HapVerif.SecureFrame HapVerif.RealCrypto

/-- `PACK_NONCE(counter)` = struct "<LQ" (0, counter) -/
def nonce (c : Nat) : Bytes := natToLe 4 0 ++ natToLe 8 c

def realSeal (key : Bytes) : Sealer := fun c aad p => aeadSeal key (nonce c) aad p
def realOpen (key : Bytes) : Opener := fun c aad x => aeadOpen key (nonce c) aad x

def showBlocks (l : List Bytes) : String := if l.isEmpty then "." else " ".intercalate (l.map toHex)

def handle : List String → Option String
  | ["sf.send", key, ctr, payload] =>
    let (lines, c) := send (realSeal (ofHex key)) ctr.toNat! (ofHex payload)
    some s!"{c} {showBlocks lines}"
  | "sf.recv" :: key :: ctr :: buf :: chunks =>
    match recvAll (realOpen (ofHex key)) ⟨ofHex buf, ctr.toNat!⟩ (chunks.map ofHex) [] with
    | (out, none) => some s!"err {showBlocks out}"
    | (out, some s) => some s!"ok {showBlocks out} | {toHex s.buf} {s.ctr}"
  | _ => none

end HapVerif.Drv.SecureFrame
