import HapVerif.Model.Crypto.Real

namespace HapVerif.Drv.Crypto
open HapVerif HapVerif.RealCrypto

def handle : List String → Option String
  | ["sha512", m] => some (toHex (sha512 (ofHex m)))
  | ["hkdf", ikm, salt, info, n] => some (toHex (hkdf (ofHex ikm) (ofHex salt) (ofHex info) n.toNat!))
  | ["seal", k, n, a, p] => some (toHex (aeadSeal (ofHex k) (ofHex n) (ofHex a) (ofHex p)))
  | ["open", k, n, a, c] =>
    some (match aeadOpen (ofHex k) (ofHex n) (ofHex a) (ofHex c) with
      | some p => "ok " ++ toHex p
      | none => "fail")
  | ["x25519", k, u] => some (toHex (x25519 (ofHex k) (ofHex u)))
  | ["edpub", sk] => some (toHex (edPub (ofHex sk)))
  | ["edsign", sk, m] => some (toHex (edSign (ofHex sk) (ofHex m)))
  | ["edverify", pk, m, s] => some (toString (edVerify (ofHex pk) (ofHex m) (ofHex s)))
  | _ => none

end HapVerif.Drv.Crypto
