import HapVerif.Model.Tlv8Struct
import HapVerif.Gen.Schemas

namespace HapVerif.Drv.Tlv8Struct
open HapVerif HapVerif.Tlv8

def showErr : Err → String
  | .parse => "parse" | .index => "index" | .value => "value" | .unicode => "unicode" | .struct => "struct" | .attr => "attr"

mutual
partial def showVal : Val → String
  | .int n => s!"i{n}"
  | .raw b => "x" ++ toHex b
  | .struct v => showS v
  | .seq vs => "[ " ++ " ".intercalate (vs.map showS) ++ " ]"
  | .ids l => "( " ++ " ".intercalate (l.map toString) ++ " )"
partial def showS : SVal → String
  | .mk fs => "{ " ++ " ".intercalate (fs.map fun | none => "_" | some v => showVal v) ++ " }"
end

mutual
partial def pVal : List String → Option (Val × List String)
  | "{" :: r => (pFields r []).map fun (fs, r) => (.struct (.mk fs), r)
  | "[" :: r => (pSeq r []).map fun (vs, r) => (.seq vs, r)
  | "(" :: r => (pIds r []).map fun (l, r) => (.ids l, r)
  | tok :: r =>
    if tok.startsWith "i" then (tok.drop 1).toNat?.map fun n => (.int n, r)
    else if tok.startsWith "x" then some (.raw (ofHex (tok.drop 1).toString), r)
    else none
  | [] => none
partial def pFields : List String → List (Option Val) → Option (List (Option Val) × List String)
  | "}" :: r, acc => some (acc.reverse, r)
  | "_" :: r, acc => pFields r (none :: acc)
  | toks, acc => match pVal toks with
    | some (v, r) => pFields r (some v :: acc)
    | none => none
partial def pSeq : List String → List SVal → Option (List SVal × List String)
  | "]" :: r, acc => some (acc.reverse, r)
  | "{" :: r, acc => match pFields r [] with
    | some (fs, r) => pSeq r (.mk fs :: acc)
    | none => none
  | _, _ => none
partial def pIds : List String → List Nat → Option (List Nat × List String)
  | ")" :: r, acc => some (acc.reverse, r)
  | t :: r, acc => match t.toNat? with
    | some n => pIds r (n :: acc)
    | none => none
  | [], _ => none
end

def lookup (name : String) : Option Schema := (Gen.Schemas.all.find? (·.1 = name)).map (·.2)

def handle : List String → Option String
  | ["t8.dec", name, hex] =>
    match lookup name with
    | none => some "bad-class"
    | some s => match decStruct s (ofHex hex) with
      | .ok v => some ("ok " ++ showS v)
      | .error e => some s!"err {showErr e}"
  | "t8.enc" :: name :: toks =>
    match lookup name, pVal toks with
    | some s, some (.struct v, []) =>
      match encStruct s v with
      | .ok b => some s!"ok {toHex b}"
      | .error e => some s!"err {showErr e}"
    | none, _ => some "bad-class"
    | _, _ => some "bad-value"
  | _ => none

end HapVerif.Drv.Tlv8Struct
