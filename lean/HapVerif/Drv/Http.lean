import HapVerif.Model.Http

namespace HapVerif.Drv.Http
open HapVerif HapVerif.Http

def showMsg (m : Msg) : String :=
  let hs := ",".intercalate (m.headers.map fun (a, b) => s!"{toHex a}={toHex b}")
  s!"{toHex m.name}:{m.code}:{if hs.isEmpty then "." else hs}:{toHex m.body}"

def showMsgs (l : List Msg) : String := if l.isEmpty then "." else " ".intercalate (l.map showMsg)

def handle : List String → Option String
  | "http.feed" :: chunks =>
    match feedAll {} (chunks.map ofHex) with
    | (ms, .error _) => some s!"{showMsgs ms} ERR"
    | (ms, .ok p) => some s!"{showMsgs ms} | {toHex p.raw} {p.core.state} {toHex p.core.body}"
  | _ => none

end HapVerif.Drv.Http
