import HapVerif.Model.Http
import HapVerif.Spec.HttpWriter

namespace HapVerif.Drv.Http
open HapVerif HapVerif.Http

def showMsg (m : Msg) : String :=
  let hs := ",".intercalate (m.headers.map fun (a, b) => s!"{toHex a}={toHex b}")
  s!"{toHex m.name}:{m.code}:{if hs.isEmpty then "." else hs}:{toHex m.body}"

def showMsgs (l : List Msg) : String := if l.isEmpty then "." else " ".intercalate (l.map showMsg)

def pairs (s : String) : List (Bytes × Bytes) :=
  if s = "." then [] else
  (s.splitOn ",").filterMap fun kv => match kv.splitOn "=" with
    | [a, b] => some (ofHex a, ofHex b)
    | _ => none

/-- `ver;code;reason;headers;framing;after;body`, framing = `N` | `L:<name>=<value>` | `C:<name>=<value>:<size>=<data>,...` -/
def parseW (s : String) : Option WMsg :=
  match s.splitOn ";" with
  | [v, c, r, hs, fr, af, b] =>
    let framing : Option Framing :=
      if fr = "N" then some .none
      else match fr.splitOn ":" with
        | ["L", h] => (pairs h).head?.map Framing.length
        | ["C", h, cs] => (pairs h).head?.map (Framing.chunked · (pairs cs))
        | _ => none
    framing.map fun f => ⟨ofHex v, ofHex c, ofHex r, pairs hs, f, pairs af, ofHex b⟩
  | _ => none

def handle : List String → Option String
  | "http.feed" :: chunks =>
    match feedAll {} (chunks.map ofHex) with
    | (ms, .error _) => some s!"{showMsgs ms} ERR"
    | (ms, .ok p) => some s!"{showMsgs ms} | {toHex p.raw} {p.core.state} {toHex p.core.body}"
  | "http.write" :: msgs =>
    -- the spec writer: certified well-formedness, the bytes on the wire, the messages the application must get
    match msgs.mapM parseW with
    | none => some "bad-op"
    | some ws =>
      let coded := ws.map fun w => (w, (parseDec w.codeText).getD 0)
      let good := coded.all fun (w, c) => goodB w c
      some s!"good={if good then 1 else 0} {toHex (writeAll coded)} {showMsgs (coded.map fun (w, c) => w.msg c)}"
  | _ => none

end HapVerif.Drv.Http
