import HapVerif.Bytes
import HapVerif.Model.BleReassembly

/-! Driver for the BLE pairing-reply reassembly (C04): `br.run <max> <d:hex|l:hex|p:n>...` ->
`assembled:<hex|->` | `plain:<n>` | `too-many` | `starved` -/

namespace HapVerif.Drv.BleReassembly
open HapVerif HapVerif.BleReassembly

def parseReply (t : String) : Option Reply :=
  match t.splitOn ":" with
  | ["d", h] => some (.data (ofHex h))
  | ["l", h] => some (.last (ofHex h))
  | ["p", n] => n.toNat?.map .plain
  | _ => none

def handle : List String → Option String
  | "br.run" :: mx :: toks =>
    match mx.toNat?, toks.mapM parseReply with
    | some m, some rs =>
      some (match run m rs with
        | .assembled b => "assembled:" ++ (if b.isEmpty then "-" else toHex b)
        | .plain p => s!"plain:{p}"
        | .tooMany => "too-many"
        | .starved => "starved")
    | _, _ => some "bad-op"
  | _ => none

end HapVerif.Drv.BleReassembly
