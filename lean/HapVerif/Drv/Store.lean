import HapVerif.Model.Store

namespace HapVerif.Drv.Store
open HapVerif HapVerif.Store

def showFile : File → String
  | none => "none"
  | some b => toHex b

def opName : Op → String
  | .openTruncTmp => "open-tmp" | .writeTmp _ => "write-tmp" | .replace => "replace"
  | .openTruncTarget => "open-target" | .writeTarget _ => "write-target"

def handle : List String → Option String
  | ["st.ops"] => some (" ".intercalate ((saveOps []).map opName))
  | ["st.crash", old, new, done, cut] =>
    let o : File := if old = "none" then none else some (ofHex old)
    let c : Option Nat := if cut = "-" then none else some cut.toNat!
    some (showFile (crash ⟨o, none⟩ (saveOps (ofHex new)) done.toNat! c).target)
  | _ => none

end HapVerif.Drv.Store
