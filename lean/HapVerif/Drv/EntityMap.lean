import HapVerif.Bytes
import HapVerif.Model.EntityMap

/-! Driver for the accessory-database model.

Tokens (no blanks inside a token):
  J      : `n` | `b0` | `b1` | `q<num>/<den>` | `s<hex utf-8>` (`s-` = "") | `l<q>,<q>...` (`l` = []) | `o<0|1>.<id>`
  opt J  : `-` (key absent) | J
  meta   : `-` (type not in the table) | `format|description|unit|minValue|maxValue|minStep` (each an opt J)
  char   : `rawtype;normtype;meta;iid;perms;format;value;ev;description;unit;minValue;maxValue;minStep;maxLen;valid;handle;disc;bcast`
           (types hex, perms = comma separated hex or `.`)
  service: `iid:rawtype:normtype:linked:char+char...`   (linked = `-` absent | `.` empty | `1,2,3`; no chars = `.`)
  accessory: `aid~service~service...`

`em.char <char>`  -> the loaded object, then its serialisation, then the object loaded from that
`em.acc <accessory>` -> the loaded accessory, or the error
`em.cache <ops...> ` -> history of `p:<id>:<cfg>` / `d:<id>` / `r` (restart) / `x` (file lost or corrupted): the ids present with their config numbers after each step -/

namespace HapVerif.Drv.EntityMap
open HapVerif HapVerif.EntityMap

def unhexStr (h : String) : String := (String.fromUTF8? ⟨(ofHex h).toArray⟩).getD ""
def hexStr (s : String) : String := toHex s.toUTF8.toList

def parseRat (s : String) : Option Rat :=
  match s.splitOn "/" with
  | [a, b] => do
    let n ← a.toInt?
    let d ← b.toNat?
    if d = 0 then none else some ((n : Rat) / (d : Rat))
  | _ => none

def parseJ (s : String) : Option J :=
  if s = "n" then some .null
  else if s = "b0" then some (.bool false)
  else if s = "b1" then some (.bool true)
  else match s.toList with
    | 'q' :: r => (parseRat (String.ofList r)).map .num
    | 's' :: r => some (.str (unhexStr (String.ofList r)))
    | 'l' :: r =>
      if r.isEmpty then some (.nums [])
      else ((String.ofList r).splitOn ",").mapM parseRat |>.map .nums
    | 'o' :: r =>
      match (String.ofList r).splitOn "." with
      | [t, i] => i.toNat?.map (fun n => .other (t == "1") n)
      | _ => none
    | _ => none

def parseOptJ (s : String) : Option (Option J) := if s = "-" then some none else (parseJ s).map some

def showRat (q : Rat) : String := s!"{q.num}/{q.den}"

def showJ : J → String
  | .null => "n"
  | .bool b => if b then "b1" else "b0"
  | .num q => "q" ++ showRat q
  | .str s => "s" ++ hexStr s
  | .nums l => "l" ++ ",".intercalate (l.map showRat)
  | .other t i => s!"o{if t then 1 else 0}.{i}"

def showOptJ : Option J → String
  | none => "-"
  | some j => showJ j

def parseMeta (s : String) : Option (Option Meta) :=
  if s = "-" then some none
  else match s.splitOn "|" with
    | [f, d, u, mn, mx, st] => do
      let f ← parseOptJ f; let d ← parseOptJ d; let u ← parseOptJ u
      let mn ← parseOptJ mn; let mx ← parseOptJ mx; let st ← parseOptJ st
      some (some { format := f, description := d, unit := u, minValue := mn, maxValue := mx, minStep := st })
    | _ => none

def parsePerms (s : String) : List String := if s = "." then [] else (s.splitOn ",").map unhexStr
def showPerms (l : List String) : String := if l.isEmpty then "." else ",".intercalate (l.map hexStr)

/-- a characteristic token: (raw type, normalised type, table row, dictionary) -/
def parseChar (s : String) : Option (String × String × Option Meta × CharD) :=
  match s.splitOn ";" with
  | [rt, nt, mt, iid, perms, fmt, value, ev, desc, unit, mn, mx, st, ml, vv, hd, de, be] => do
    let mt ← parseMeta mt
    let iid ← iid.toNat?
    let fmt ← parseOptJ fmt; let value ← parseOptJ value; let ev ← parseOptJ ev; let desc ← parseOptJ desc
    let unit ← parseOptJ unit; let mn ← parseOptJ mn; let mx ← parseOptJ mx; let st ← parseOptJ st
    let ml ← parseOptJ ml; let vv ← parseOptJ vv; let hd ← parseOptJ hd; let de ← parseOptJ de; let be ← parseOptJ be
    some (unhexStr rt, unhexStr nt, mt,
      { type := unhexStr rt, iid := iid, perms := parsePerms perms, format := fmt, value := value, ev := ev,
        description := desc, unit := unit, minValue := mn, maxValue := mx, minStep := st, maxLen := ml,
        validValues := vv, handle := hd, disconnectedEvents := de, broadcastEvents := be })
  | _ => none

def showCharObj (c : EntityMap.Char) : String :=
  ";".intercalate [hexStr c.type, toString c.iid, showPerms c.perms, showJ c.format, showJ c.value, showJ c.ev,
    showJ c.description, showJ c.unit, showJ c.minValue, showJ c.maxValue, showJ c.minStep, showJ c.maxLen,
    showJ c.validValues, showJ c.handle, showJ c.disconnectedEvents, showJ c.broadcastEvents]

def showCharD (d : CharD) : String :=
  ";".intercalate [hexStr d.type, toString d.iid, showPerms d.perms, showOptJ d.format, showOptJ d.value, showOptJ d.ev,
    showOptJ d.description, showOptJ d.unit, showOptJ d.minValue, showOptJ d.maxValue, showOptJ d.minStep,
    showOptJ d.maxLen, showOptJ d.validValues, showOptJ d.handle, showOptJ d.disconnectedEvents,
    showOptJ d.broadcastEvents]

def showErr : Err → String
  | .typeError => "err:TypeError"
  | .keyError => "err:KeyError"

/-- the normaliser and the table as the finite maps the tokens describe (a normalised type maps to itself) -/
def mkNorm (m : List (String × String)) : String → String := fun s =>
  match m.find? (·.1 == s) with
  | some (_, n) => n
  | none => s

def mkTbl (m : List (String × Option Meta)) : Table := fun s =>
  match m.find? (·.1 == s) with
  | some (_, r) => r
  | none => none

def parseLinked (s : String) : Option (Option (List Nat)) :=
  if s = "-" then some none
  else if s = "." then some (some [])
  else ((s.splitOn ",").mapM String.toNat?).map some

def parseService (s : String) : Option ((List (String × String)) × (List (String × Option Meta)) × ServiceD) :=
  match s.splitOn ":" with
  | [iid, rt, nt, linked, chars] => do
    let iid ← iid.toNat?
    let linked ← parseLinked linked
    let cs ← if chars = "." then some [] else (chars.splitOn "+").mapM parseChar
    let norms := (unhexStr rt, unhexStr nt) :: (unhexStr nt, unhexStr nt) :: cs.flatMap (fun (r, n, _, _) => [(r, n), (n, n)])
    let tbls := cs.map (fun (_, n, m, _) => (n, m))
    some (norms, tbls, { iid := iid, type := unhexStr rt, chars := cs.map (fun (_, _, _, d) => d), linked := linked })
  | _ => none

def showService (s : Service) : String :=
  s!"{s.iid}:{hexStr s.type}:{if s.linked.isEmpty then "." else ",".intercalate (s.linked.map toString)}:" ++
    (if s.chars.isEmpty then "." else "+".intercalate (s.chars.map showCharObj))

def cacheRun (ops : List String) : Option String :=
  let showMem (m : CacheMap Nat) : String :=
    let l := (m.map (fun (k, e) => s!"{hexStr k}={e.configNum}"))
    if l.isEmpty then "." else ",".intercalate l
  let rec go (c : FileCache Nat) (ops : List String) (acc : List String) : Option (List String) :=
    match ops with
    | [] => some acc.reverse
    | op :: rest =>
      match op.splitOn ":" with
      | ["p", k, n] => do
        let n ← n.toNat?
        let c' := c.step (.put (unhexStr k) { configNum := n, accessories := n, broadcastKey := none, stateNum := none })
        go c' rest (showMem c'.mem :: acc)
      | ["d", k] =>
        let c' := c.step (.del (unhexStr k))
        go c' rest (showMem c'.mem :: acc)
      | ["r"] =>
        let c' := c.restart
        go c' rest (showMem c'.mem :: acc)
      | ["x"] =>
        let c' : FileCache Nat := { c with file := none }
        go c' rest (showMem c'.mem :: acc)
      | _ => none
  (go { mem := [], file := none } ops []).map (" ".intercalate)

def handle : List String → Option String
  | ["em.char", tok] =>
    match parseChar tok with
    | none => some "bad-op"
    | some (rt, nt, mt, d) =>
      let norm := mkNorm [(rt, nt), (nt, nt)]
      let tbl := mkTbl [(nt, mt)]
      match loadChar norm tbl d with
      | .error e => some (showErr e)
      | .ok c =>
        let d2 := serChar c
        let again := match loadChar norm tbl d2 with
          | .error e => showErr e
          | .ok c2 => showCharObj c2
        some s!"{showCharObj c} {showCharD d2} {again}"
  | ["em.acc", tok] =>
    match tok.splitOn "~" with
    | aid :: svcs =>
      match aid.toNat?, svcs.mapM parseService with
      | some aid, some ps =>
        let norm := mkNorm (ps.flatMap (·.1))
        let tbl := mkTbl (ps.flatMap (·.2.1))
        match loadAccessory norm tbl { aid := aid, services := ps.map (·.2.2) } with
        | .error e => some (showErr e)
        | .ok a => some (s!"{a.aid}~" ++ "~".intercalate (a.services.map showService))
      | _, _ => some "bad-op"
    | _ => some "bad-op"
  | "em.cache" :: ops => some ((cacheRun ops).getD "bad-op")
  | _ => none

end HapVerif.Drv.EntityMap
