import HapVerif.Model.PairVerify
import HapVerif.Model.Crypto.Real
import HapVerif.Drv.Tlv
import HapVerif.Drv.Protocol

namespace HapVerif.Drv.PairVerify
open HapVerif HapVerif.Tlv HapVerif.PairVerify

/-- the executable instance (laws assumed, validated differentially) -/
def real : Crypto where
  hkdf := fun ikm salt info len => RealCrypto.hkdf ikm salt info len
  aeadSeal := RealCrypto.aeadSeal
  aeadOpen := RealCrypto.aeadOpen
  dhPub := fun sk => RealCrypto.x25519 sk RealCrypto.x25519Base
  dh := RealCrypto.x25519
  edPub := RealCrypto.edPub
  edSign := RealCrypto.edSign
  edVerify := RealCrypto.edVerify

def showErr : VErr → String
  | .proto e => Drv.Protocol.showErr e
  | .invalidAuthTag => "InvalidAuthTagError" | .incorrectPairingId => "IncorrectPairingIdError"
  | .invalidSignature => "InvalidSignatureError" | .valueError => "ValueError"
  | .tlvParse => "TlvParseException" | .unicode => "UnicodeDecodeError"

/-- split a token list at a marker -/
def splitAt (m : String) (l : List String) : List String × List String :=
  (l.takeWhile (· ≠ m), (l.dropWhile (· ≠ m)).drop 1)

def handle : List String → Option String
  | ["pv.m1", eph] => some (Drv.Tlv.showItems (m1 real (ofHex eph)))
  | "pv.run" :: accId :: ltpk :: iosId :: ltsk :: eph :: rest =>
    let (t2, t4) := splitAt "|" rest
    match Drv.Tlv.parseItems t2, Drv.Tlv.parseItems t4 with
    | some m2, some m4 =>
      let p : Pairing := ⟨ofHex accId, ofHex ltpk, ofHex iosId, ofHex ltsk⟩
      match processM2 real p (ofHex eph) m2 with
      | .error e => some s!"err2 {showErr e}"
      | .ok v =>
        match processM4 m4 with
        | .error e => some s!"err4 {showErr e} {Drv.Tlv.showItems v.m3}"
        | .ok () =>
          let k := keysOf real v.shared
          some s!"ok {Drv.Tlv.showItems v.m3} {toHex k.sessionId} {toHex k.c2a} {toHex k.a2c} {toHex k.event}"
    | _, _ => some "bad-op"
  | ["pv.resume1", prev, sid, eph] => some (Drv.Tlv.showItems (resumeM1 real (ofHex prev) (ofHex sid) (ofHex eph)))
  | "pv.resume3" :: prev :: eph :: items =>
    match Drv.Tlv.parseItems items with
    | some m2 =>
      match verifyM2Resume real (ofHex prev) (ofHex eph) m2 with
      | .error _ => some "none"
      | .ok none => some "none"
      | .ok (some (sid, sh)) =>
        let k := keysOf real sh
        some s!"some {toHex sid} {toHex k.c2a} {toHex k.a2c}"
    | none => some "bad-op"
  | _ => none

end HapVerif.Drv.PairVerify
