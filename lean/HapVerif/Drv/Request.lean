import HapVerif.Model.Request

namespace HapVerif.Drv.Request
open HapVerif HapVerif.Request

def handle : List String → Option String
  | ["rq.get", target, host] => some (toHex (getReq (ofHex target) (ofHex host)))
  | ["rq.body", method, target, host, ctype, body] =>
    some (toHex (withBody (ofHex method) (ofHex target) (ofHex host) (ofHex ctype) (ofHex body)))
  | "rq.groups" :: ids =>
    let l := ids.filterMap fun x => match x.splitOn "." with
      | [a, b] => some (a.toNat!, b.toNat!)
      | _ => none
    let gs := groupByAid l
    some (if gs.isEmpty then "-" else "|".intercalate (gs.map fun g => ",".intercalate (g.map fun k => s!"{k.1}.{k.2}")))
  | "rq.url" :: ids =>
    some (charUrl (ids.filterMap fun x => match x.splitOn "." with
      | [a, b] => some (a.toInt!, b.toInt!)
      | _ => none))
  | _ => none

end HapVerif.Drv.Request
