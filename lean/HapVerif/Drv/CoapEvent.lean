import HapVerif.Bytes
import HapVerif.Model.CoapEvent

/-! Driver for the CoAP event record loop (C12): `ce.parse <payload hex|->` -> `<iid>:<body hex|->,... ok|struct-error` -/

namespace HapVerif.Drv.CoapEvent
open HapVerif HapVerif.CoapEvent

def handle : List String → Option String
  | ["ce.parse", hex] =>
    let (rs, st) := parse (ofHex hex)
    let l := rs.map (fun r => s!"{r.iid}:{if r.body.isEmpty then "-" else toHex r.body}")
    some ((if l.isEmpty then "-" else ",".intercalate l) ++ " " ++ (match st with
      | .ok => "ok"
      | .structError => "struct-error"))
  | _ => none

end HapVerif.Drv.CoapEvent
