import HapVerif.Model.Waiters

namespace HapVerif.Drv.Waiters
open HapVerif HapVerif.Waiters

def parseEv (t : String) : Option Ev :=
  match t.splitOn ":" with
  | ["S", k, id, tm] => some (.start k.toNat! id.toNat! tm.toNat!)
  | ["A", id] => some (.adv id.toNat!)
  | ["C", k] => some (.cancel k.toNat!)
  | ["T", t] => some (.advance t.toNat!)
  | _ => none

def showOutcome : Outcome → String
  | .found t => s!"found@{t}" | .notFound t => s!"notfound@{t}" | .cancelled => "cancelled"

def insertSorted (x : Nat × String) : List (Nat × String) → List (Nat × String)
  | [] => [x]
  | y :: ys => if x.1 < y.1 then x :: y :: ys else y :: insertSorted x ys

def hexStr (s : String) : String := toHex s.toUTF8.toList
def unhexStr (h : String) : String := (String.fromUTF8? ⟨(ofHex h).toArray⟩).getD ""

def parseAddr (t : String) : Option (AddrKind × String) :=
  match t.splitOn "~" with
  | ["o", a] => some (.ok, unhexStr a)
  | ["l", a] => some (.linkLocal, unhexStr a)
  | ["u", a] => some (.unspecified, unhexStr a)
  | _ => none

def parseProp (t : String) : Option (String × Option String) :=
  match t.splitOn "~" with
  | [k, "none"] => some (unhexStr k, none)
  | [k, v] => some (unhexStr k, some (unhexStr v))
  | _ => none

def parseMicro (t : String) : Option Micro.Ev :=
  match t.splitOn ":" with
  | ["s", k, id] => do some (.start (← k.toNat?) (← id.toNat?))
  | ["a", id] => id.toNat?.map .adv
  | ["c", k] => k.toNat?.map .cancel
  | ["o", k] => k.toNat?.map .timeout
  | ["t"] => some .tick
  | _ => none

def showMicro : Micro.Outcome → String
  | .found => "found"
  | .notFound => "notfound"
  | .cancelled => "cancelled"

def handle : List String → Option String
  | "wt.micro" :: toks =>
    (toks.mapM parseMicro).map fun evs =>
      let s := Micro.run {} (evs ++ [.tick])
      let all := s.done.map (fun x => (x.1, showMicro x.2)) ++ s.entries.map (fun e => (e.k, "pending"))
      let d := all.foldl (fun acc x => insertSorted x acc) []
      (if d.isEmpty then "-" else " ".intercalate (d.map (fun x => s!"{x.1}={x.2}"))) ++ s!" raised={if s.raised then 1 else 0}"
  | "wt.run" :: toks =>
    (toks.mapM parseEv).map fun evs =>
      let s := run {} evs
      let all := s.done.map (fun x => (x.1, showOutcome x.2)) ++ s.pending.map (fun p => (p.k, "pending"))
      let d := all.foldl (fun acc x => insertSorted x acc) []
      " ".intercalate (d.map (fun x => s!"{x.1}={x.2}"))
  | ["wt.ble", hex] =>
    some (match parseBle (ofHex hex) with
      | none => "ignored"
      | some a => s!"{toHex a.id} sf={a.statusFlags} ci={a.category} s={a.stateNum} c={a.configNum} sh={toHex a.setupHash}")
  | "wt.mdns" :: rest =>
    let (ta, tp) := (rest.takeWhile (· ≠ "|"), (rest.dropWhile (· ≠ "|")).drop 1)
    match ta.mapM parseAddr, tp.mapM parseProp with
    | some addrs, some props =>
      some (match parseMdns addrs props with
        | none => "ignored"
        | some m => s!"{hexStr m.id} {hexStr m.address} {",".intercalate (m.addresses.map hexStr)} c={m.configNum} s={m.stateNum} ff={m.featureFlags} sf={m.statusFlags} ci={m.category}")
    | _, _ => some "bad-op"
  | _ => none

end HapVerif.Drv.Waiters
