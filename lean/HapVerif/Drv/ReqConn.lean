import HapVerif.Model.ReqConn

namespace HapVerif.Drv.ReqConn
open HapVerif.ReqConn

def parseEv (t : String) : Option Ev :=
  match t.splitOn ":" with
  | ["q", id] => some (.req id.toNat!)
  | ["r", p] => some (.resp p.toNat!)
  | ["e", e] => some (.event e.toNat!)
  | ["hr", p] => some (.half (.resp p.toNat!))
  | ["he", e] => some (.half (.event e.toNat!))
  | ["rest"] => some .rest
  | ["c", id] => some (.cancel id.toNat!)
  | ["a", dt] => some (.adv dt.toNat!)
  | ["pc"] => some .peerClose
  | ["R"] => some .reconnect
  | _ => none

def showOut : Outcome → String
  | .ok p => s!"ok:{p}" | .disconnected => "disc" | .cancelled => "canc"

def insD (x : Nat × String) : List (Nat × String) → List (Nat × String)
  | [] => [x]
  | y :: ys => if x.1 < y.1 then x :: y :: ys else y :: insD x ys

def showObs (os : List Obs) : String :=
  let sents := os.filterMap fun | .sent id ep => some s!"S{id}@{ep}" | _ => none
  let dones := os.filterMap fun | .done id o t => some (id, s!"D{id}={showOut o}@{t}") | _ => none
  let dones := (dones.foldl (fun acc x => insD x acc) []).map (·.2)
  let evs := os.filterMap fun | .event e => some s!"E{e}" | _ => none
  let losts := os.filterMap fun | .lost ep t => some s!"L{ep}@{t}" | _ => none
  " ".intercalate (sents ++ dones ++ evs ++ losts)

def summary (s : St) : String :=
  s!"up={if s.up then 1 else 0} infl={s.inflight.length} wait={s.waiting.length} t={s.now}"

def runAll (s : St) : List Ev → List String → List String
  | [], acc => acc.reverse
  | e :: es, acc =>
    let s' := step s e
    runAll s' es (s!"{showObs (s'.obs.drop s.obs.length)} | {summary s'}" :: acc)

def parseMicro (t : String) : Option Micro.Ev :=
  match t.splitOn ":" with
  | ["w", id] => id.toNat?.map .write
  | ["d"] => some .deliver
  | ["g", id] => id.toNat?.map .giveUp
  | ["t"] => some .tick
  | _ => none

def showMicroOutcome : Micro.Outcome → String
  | .ok k => s!"ok:{k}"
  | .disconnected => "disc"
  | .cancelled => "canc"

/-- `rq.micro <events>`: the final outcomes in the order the callers finished, then whether the transport is still open -/
def microOut (s : Micro.St) : String :=
  let l := s.log.map (fun p => s!"{p.1}={showMicroOutcome p.2}")
  (if l.isEmpty then "-" else ",".intercalate l) ++ s!" up={if s.up then 1 else 0}"

def parseQueue (t : String) : Option Queue.Ev :=
  match t.splitOn ":" with
  | ["i", id] => id.toNat?.map .issue
  | ["a"] => some .answer
  | ["l"] => some .lose
  | ["r"] => some .reconnect
  | ["t"] => some .tick
  | _ => none

/-- `rq.queue <g|u> <events>`: what was written (id@connection), then the outcomes in the order the callers finished -/
def queueOut (s : Queue.St) : String :=
  let w := s.sent.map (fun p => s!"{p.1}@{p.2.1}")
  let l := s.log.map (fun p => s!"{p.1}=" ++ (match p.2 with
    | .ok c => s!"ok@{c}"
    | .disconnected => "disc"))
  "sent=" ++ (if w.isEmpty then "-" else ",".intercalate w) ++ " log=" ++ (if l.isEmpty then "-" else ",".intercalate l)

def handle : List String → Option String
  | "rq.queue" :: g :: toks =>
    (toks.mapM parseQueue).map fun evs => queueOut (Queue.run (g == "g") {} (evs ++ [.tick]))
  | "rq.run" :: lim :: toks =>
    (toks.mapM parseEv).map fun evs => " ; ".intercalate (runAll (init lim.toNat!) evs [])
  | "rq.micro" :: toks =>
    (toks.mapM parseMicro).map fun evs => microOut (Micro.run {} (evs ++ [.tick]))
  | _ => none

end HapVerif.Drv.ReqConn
