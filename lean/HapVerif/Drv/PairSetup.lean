import HapVerif.Model.PairSetup
import HapVerif.Drv.PairVerify

namespace HapVerif.Drv.PairSetup
open HapVerif HapVerif.Tlv HapVerif.PairSetup

def showErr : SErr → String
  | .proto e => Drv.Protocol.showErr e
  | .illegalData => "IllegalData" | .invalidSignature => "InvalidSignatureError" | .valueError => "ValueError"
  | .tlvParse => "TlvParseException" | .unicode => "UnicodeDecodeError"

def handle : List String → Option String
  | "ps.m2" :: items =>
    match Drv.Tlv.parseItems items with
    | some m2 => match processM2 m2 with
      | .ok (salt, pk) => some s!"ok {toHex salt} {toHex pk}"
      | .error e => some s!"err {showErr e}"
    | none => some "bad-op"
  | ["ps.m5", K, iosId, ltsk] => some (Drv.Tlv.showItems (m5 Drv.PairVerify.real (ofHex K) (ofHex iosId) (ofHex ltsk)))
  | "ps.part2" :: K :: expectM2 :: iosId :: ltsk :: rest =>
    let (t4, t6) := Drv.PairVerify.splitAt "|" rest
    match Drv.Tlv.parseItems t4, Drv.Tlv.parseItems t6 with
    | some m4, some m6 =>
      let s : SrpView := ⟨[], [], ofHex K, fun proof => beToNat proof == beToNat (ofHex expectM2)⟩
      match processM4 s m4 with
      | .error e => some s!"err4 {showErr e}"
      | .ok () =>
        match processM6 Drv.PairVerify.real (ofHex K) (ofHex iosId) (ofHex ltsk) m6 with
        | .error e => some s!"err6 {showErr e}"
        | .ok r => some s!"ok {toHex r.accessoryId} {toHex r.accessoryLTPK} {toHex r.iosId} {toHex r.iosLTSK} {toHex r.iosLTPK}"
    | _, _ => some "bad-op"
  | _ => none

end HapVerif.Drv.PairSetup
