import HapVerif.Model.BleSession

/-! Driver for the BLE session lifecycle model (C01).

`bs.run <tok>...` with tokens
  `p:g` / `p:i`  who answers on links opened from now on: the genuine accessory / an impostor without the long-term key
  `op`           one public operation of the pairing (connect if needed, pair-verify if there are no keys, the request)
  `cok` / `crs`  close(): disconnect succeeds (callback delivered) / disconnect raises (no callback)
  `lost`         the link drops, bleak delivers the disconnected callback

Output: one `<link>:<a pair-verify ran on it>:<an encrypted request went out on it>` per link, then `stale=<requests that
went out under keys of another link>` and `keys=<link of the current keys or ->`. -/

namespace HapVerif.Drv.BleSession
open HapVerif.BleSession

structure D where
  s : St := {}
  genuineNext : Bool := true
  peers : List (Nat × Bool) := []   -- link ↦ whether the genuine accessory answers on it

def stepTok (d : D) (tok : String) : Option D :=
  match tok with
  | "p:g" => some { d with genuineNext := true }
  | "p:i" => some { d with genuineNext := false }
  | "op" =>
    let (l, peers) := match d.s.link with
      | some l => (l, d.peers)
      | none => (d.s.nextLink, d.peers ++ [(d.s.nextLink, d.genuineNext)])
    let g := match peers.find? (·.1 == l) with
      | some (_, g) => g
      | none => true
    some { d with s := op d.s g, peers := peers }
  | "cok" => some { d with s := step d.s .closeOk }
  | "crs" => some { d with s := step d.s .closeRaises }
  | "lost" => some { d with s := step d.s .lost }
  | _ => none

def render (s : St) : String :=
  let links := (List.range s.nextLink).map (fun l =>
    s!"{l}:{if s.verifies.contains l then 1 else 0}:{if s.traffic.any (·.1 == l) then 1 else 0}")
  let stale := (s.traffic.filter (fun p => p.1 != p.2)).length
  let keys := match s.keys with
    | some k => toString k
    | none => "-"
  " ".intercalate (links ++ [s!"stale={stale}", s!"keys={keys}"])

def handle : List String → Option String
  | "bs.run" :: toks =>
    match toks.foldlM stepTok ({} : D) with
    | some d => some (render d.s)
    | none => some "bad-op"
  | _ => none

end HapVerif.Drv.BleSession
