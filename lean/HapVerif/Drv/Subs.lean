import HapVerif.Model.Subs

namespace HapVerif.Drv.Subs
open HapVerif.Subs

def parseCh (t : String) : Option Ch :=
  match t.splitOn "." with
  | [a, i] => some (a.toNat!, i.toNat!)
  | _ => none

def parseChs (t : String) : Option (List Ch) :=
  if t = "-" || t = "" then some [] else (t.splitOn ",").mapM parseCh

def parseKind (t : String) : Option Kind :=
  match t.splitOn "~" with
  | ["n"] => some .normal
  | ["x"] => some .raises
  | ["rm"] => some .removesSelf
  | ["add", k] => some (.adds k.toNat!)
  | _ => none

def parseBody (t : String) : Option Body :=
  match t.splitOn "=" with
  | ["c", cs] => (parseChs cs).map .chars
  | ["empty"] => some .empty
  | ["notjson"] => some .notJson
  | ["notutf8"] => some .notUtf8
  | _ => none

def parseEv (t : String) : Option Ev :=
  match t.splitOn ":" with
  | ["sub", cs] => (parseChs cs).map .subscribe
  | ["unsub", cs] => (parseChs cs).map .unsubscribe
  | ["cutsub", cs] => (parseChs cs).map .cutSubscribe
  | ["drop"] => some .drop
  | ["conn"] => some .connect
  | ["ladd", id, k] => (parseKind k).map (.addListener id.toNat!)
  | ["lrem", id] => some (.removeListener id.toNat!)
  | ["ev", bodies] => ((bodies.splitOn "|").mapM parseBody).map .events
  | _ => none

def chLt (a b : Ch) : Bool := a.1 < b.1 || (a.1 == b.1 && a.2 < b.2)

def insSorted (x : Ch) : List Ch → List Ch
  | [] => [x]
  | y :: ys => if chLt x y then x :: y :: ys else y :: insSorted x ys

def sortChs (l : List Ch) : List Ch :=
  (l.foldl (fun (acc : List Ch) x => if acc.contains x then acc else acc ++ [x]) []).foldl (fun acc x => insSorted x acc) []

def showChs (l : List Ch) : String :=
  if l.isEmpty then "-" else ",".intercalate ((sortChs l).map (fun c => s!"{c.1}.{c.2}"))

def insL (x : Listener) : List Listener → List Listener
  | [] => [x]
  | y :: ys => if x.id < y.id then x :: y :: ys else y :: insL x ys

def showLog (l : Listener) : String :=
  s!"L{l.id}=[" ++ ";".intercalate (l.log.map showChs) ++ "]"

def summary (s : St) : String :=
  let ls := (s.listeners ++ s.gone).foldl (fun acc x => insL x acc) []
  let act := ((s.listeners.map (·.id)).foldl (fun (acc : List Nat) x => if acc.contains x then acc else acc ++ [x]) [])
  s!"wanted={showChs s.wanted} reg={showChs s.registered} sup={if s.supports then 1 else 0} con={if s.connected then 1 else 0} ses={s.session} active={act.length} " ++
    " ".intercalate (ls.map showLog)

def runAll (s : St) : List Ev → List String → List String
  | [], acc => acc.reverse
  | e :: es, acc =>
    let s' := step s e
    runAll s' es (summary s' :: acc)

def parseOEv (t : String) : Option OEv :=
  match t.splitOn ":" with
  | ["aw", cs] => (parseChs cs).map .addWanted
  | ["rw", cs] => (parseChs cs).map .removeWanted
  | ["ar", cs] => (parseChs cs).map .accReg
  | ["au", cs] => (parseChs cs).map .accUnreg
  | ["drop"] => some .drop
  | ["conn"] => some .reconnect
  | _ => none

/-- `sb.overlap <init wanted> <events...>`: `wanted/registered` after every event -/
def overlapAll : OSt → List OEv → List String → List String
  | _, [], acc => acc.reverse
  | s, e :: es, acc =>
    let s' := ostep s e
    overlapAll s' es (s!"{showChs s'.wanted}/{showChs s'.registered}" :: acc)

def handle : List String → Option String
  | "sb.run" :: toks =>
    (toks.mapM parseEv).map fun evs => " ; ".intercalate (runAll {} evs [])
  | "sb.overlap" :: init :: toks =>
    match parseChs init, toks.mapM parseOEv with
    | some w, some evs => some (" ".intercalate (overlapAll { wanted := w, registered := [] } evs []))
    | _, _ => some "bad-op"
  | _ => none

end HapVerif.Drv.Subs
