import HapVerif.Model.Tlv

namespace HapVerif.Drv.Tlv
open HapVerif HapVerif.Tlv

def showItems (l : Items) : String :=
  if l.isEmpty then "-" else ",".intercalate (l.map fun (k, v) => s!"{k.toNat}:{toHex v}")

def showErr : Err → String
  | .parse => "parse" | .index => "index" | .value => "value" | .key => "key"

def parseItems : List String → Option Items
  | [] => some []
  | k :: v :: rest => do
    let k ← k.toNat?
    if k > 255 then none
    let r ← parseItems rest
    pure ((UInt8.ofNat k, ofHex v) :: r)
  | _ => none

def parseExpected (s : String) : Option (Option (List UInt8)) :=
  if s = "none" then some none
  else if s = "empty" then some (some [])
  else (s.splitOn ",").mapM (fun (x : String) => x.toNat?.map UInt8.ofNat) |>.map some

def handle : List String → Option String
  | "tlv.enc" :: args =>
    match parseItems args with
    | none => some "bad-op"
    | some l => match encodeList? l with
      | .ok b => some s!"ok {toHex b}"
      | .error e => some s!"err {showErr e}"
  | ["tlv.dec", ex, hex] =>
    match parseExpected ex with
    | none => some "bad-op"
    | some ex => match decode ex (ofHex hex) with
      | .ok l => some s!"ok {showItems l}"
      | .error e => some s!"err {showErr e}"
  | "tlv.reasm" :: resps =>
    match reassemble 50 (resps.map ofHex) [] 0 with
    | (.done l, n) => some s!"done {showItems l} {n}"
    | (.err e, n) => some s!"err {showErr e} {n}"
    | (.tooMany, n) => some s!"toomany {n}"
    | (.starved, n) => some s!"starved {n}"
  | _ => none

end HapVerif.Drv.Tlv
