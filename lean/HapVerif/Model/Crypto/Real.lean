import HapVerif.Bytes

/-! # Executable ("Real") cryptographic primitives in core Lean over `Nat`

SHA-512, HMAC/HKDF-SHA-512, ChaCha20, Poly1305, ChaCha20-Poly1305 AEAD (full and 4-byte partial
tag), X25519, Ed25519 (RFC 6234 / 5869 / 8439 / 7748 / 8032).  They make the driver produce the
same bytes as the Python `cryptography` stack for the same secrets, so that the correspondence
check compares real wire bytes.  Their functional correctness is *validated differentially*
against `cryptography`/`hashlib` in every run that uses them; it is not proved (trusted base). -/

namespace HapVerif.RealCrypto

namespace Sha512
def K : Array Nat := #[
0x428a2f98d728ae22,0x7137449123ef65cd,0xb5c0fbcfec4d3b2f,0xe9b5dba58189dbbc,0x3956c25bf348b538,0x59f111f1b605d019,0x923f82a4af194f9b,0xab1c5ed5da6d8118,
0xd807aa98a3030242,0x12835b0145706fbe,0x243185be4ee4b28c,0x550c7dc3d5ffb4e2,0x72be5d74f27b896f,0x80deb1fe3b1696b1,0x9bdc06a725c71235,0xc19bf174cf692694,
0xe49b69c19ef14ad2,0xefbe4786384f25e3,0x0fc19dc68b8cd5b5,0x240ca1cc77ac9c65,0x2de92c6f592b0275,0x4a7484aa6ea6e483,0x5cb0a9dcbd41fbd4,0x76f988da831153b5,
0x983e5152ee66dfab,0xa831c66d2db43210,0xb00327c898fb213f,0xbf597fc7beef0ee4,0xc6e00bf33da88fc2,0xd5a79147930aa725,0x06ca6351e003826f,0x142929670a0e6e70,
0x27b70a8546d22ffc,0x2e1b21385c26c926,0x4d2c6dfc5ac42aed,0x53380d139d95b3df,0x650a73548baf63de,0x766a0abb3c77b2a8,0x81c2c92e47edaee6,0x92722c851482353b,
0xa2bfe8a14cf10364,0xa81a664bbc423001,0xc24b8b70d0f89791,0xc76c51a30654be30,0xd192e819d6ef5218,0xd69906245565a910,0xf40e35855771202a,0x106aa07032bbd1b8,
0x19a4c116b8d2d0c8,0x1e376c085141ab53,0x2748774cdf8eeb99,0x34b0bcb5e19b48a8,0x391c0cb3c5c95a63,0x4ed8aa4ae3418acb,0x5b9cca4f7763e373,0x682e6ff3d6b2b8a3,
0x748f82ee5defb2fc,0x78a5636f43172f60,0x84c87814a1f0ab72,0x8cc702081a6439ec,0x90befffa23631e28,0xa4506cebde82bde9,0xbef9a3f7b2c67915,0xc67178f2e372532b,
0xca273eceea26619c,0xd186b8c721c0c207,0xeada7dd6cde0eb1e,0xf57d4f7fee6ed178,0x06f067aa72176fba,0x0a637dc5a2c898a6,0x113f9804bef90dae,0x1b710b35131c471b,
0x28db77f523047d84,0x32caab7b40c72493,0x3c9ebe0a15c9bebc,0x431d67c49c100d4c,0x4cc5d4becb3e42b6,0x597f299cfc657e2a,0x5fcb6fab3ad6faec,0x6c44198c4a475817]
def M : Nat := 2^64
def rotr (x n : Nat) : Nat := ((x >>> n) ||| (x <<< (64 - n))) % M
def H0 : List Nat := [0x6a09e667f3bcc908,0xbb67ae8584caa73b,0x3c6ef372fe94f82b,0xa54ff53a5f1d36f1,0x510e527fade682d1,0x9b05688c2b3e6c1f,0x1f83d9abfb41bd6b,0x5be0cd19137e2179]
def pad (msg : List Nat) : List Nat :=
  let l := msg.length
  let padlen := (111 + 128 - l % 128) % 128
  let bits := l * 8
  msg ++ [0x80] ++ List.replicate padlen 0 ++ (List.range 16).map (fun i => (bits >>> (8 * (15 - i))) % 256)
def word (bs : List Nat) : Nat := bs.foldl (fun a b => a * 256 + b) 0
def chunksAux (n : Nat) : Nat → List Nat → List (List Nat)
  | 0, _ => []
  | _, [] => []
  | fuel+1, l => l.take n :: chunksAux n fuel (l.drop n)
def chunks (n : Nat) (l : List Nat) : List (List Nat) := chunksAux n l.length l
def schedule (blk : List Nat) : Array Nat := Id.run do
  let mut w : Array Nat := ((chunks 8 blk).map word).toArray
  for i in [16:80] do
    let w15 := w[i-15]!; let w2 := w[i-2]!
    let s0 := rotr w15 1 ^^^ rotr w15 8 ^^^ (w15 >>> 7)
    let s1 := rotr w2 19 ^^^ rotr w2 61 ^^^ (w2 >>> 6)
    w := w.push ((w[i-16]! + s0 + w[i-7]! + s1) % M)
  return w
def compress (h : List Nat) (blk : List Nat) : List Nat := Id.run do
  let w := schedule blk
  let mut a := h[0]!; let mut b := h[1]!; let mut c := h[2]!; let mut d := h[3]!
  let mut e := h[4]!; let mut f := h[5]!; let mut g := h[6]!; let mut hh := h[7]!
  for i in [0:80] do
    let S1 := rotr e 14 ^^^ rotr e 18 ^^^ rotr e 41
    let ch := (e &&& f) ^^^ ((M - 1 - e) &&& g)
    let t1 := (hh + S1 + ch + K[i]! + w[i]!) % M
    let S0 := rotr a 28 ^^^ rotr a 34 ^^^ rotr a 39
    let maj := (a &&& b) ^^^ (a &&& c) ^^^ (b &&& c)
    let t2 := (S0 + maj) % M
    hh := g; g := f; f := e; e := (d + t1) % M; d := c; c := b; b := a; a := (t1 + t2) % M
  return [(h[0]!+a)%M,(h[1]!+b)%M,(h[2]!+c)%M,(h[3]!+d)%M,(h[4]!+e)%M,(h[5]!+f)%M,(h[6]!+g)%M,(h[7]!+hh)%M]
def hash (msg : List Nat) : List Nat :=
  let h := (chunks 128 (pad msg)).foldl compress H0
  h.flatMap (fun x => (List.range 8).map (fun i => (x >>> (8 * (7 - i))) % 256))
def hex (bs : List Nat) : String := String.join (bs.map fun b => String.ofList [Nat.digitChar (b / 16), Nat.digitChar (b % 16)])
end Sha512

open HapVerif


def b2n (b : Bytes) : List Nat := b.map (·.toNat)
def n2b (l : List Nat) : Bytes := l.map UInt8.ofNat
def sha512 (b : Bytes) : Bytes := n2b (Sha512.hash (b2n b))

def xorBytes (a b : Bytes) : Bytes := List.zipWith (· ^^^ ·) a b

/-! HMAC-SHA512 / HKDF -/
def hmac512 (key msg : Bytes) : Bytes :=
  let key := if key.length > 128 then sha512 key else key
  let key := key ++ List.replicate (128 - key.length) 0
  let ipad := key.map (· ^^^ 0x36); let opad := key.map (· ^^^ 0x5c)
  sha512 (opad ++ sha512 (ipad ++ msg))
def hkdf (ikm salt info : Bytes) (len : Nat := 32) : Bytes :=
  let prk := hmac512 salt ikm
  (hmac512 prk (info ++ [1])).take len     -- len ≤ 64 in HAP

/-! ChaCha20 (RFC 8439) -/
def M32 : Nat := 2^32
def rotl32 (x n : Nat) : Nat := ((x <<< n) ||| (x >>> (32 - n))) % M32
def qr (s : Array Nat) (a b c d : Nat) : Array Nat := Id.run do
  let mut s := s
  s := s.set! a ((s[a]! + s[b]!) % M32); s := s.set! d (rotl32 (s[d]! ^^^ s[a]!) 16)
  s := s.set! c ((s[c]! + s[d]!) % M32); s := s.set! b (rotl32 (s[b]! ^^^ s[c]!) 12)
  s := s.set! a ((s[a]! + s[b]!) % M32); s := s.set! d (rotl32 (s[d]! ^^^ s[a]!) 8)
  s := s.set! c ((s[c]! + s[d]!) % M32); s := s.set! b (rotl32 (s[b]! ^^^ s[c]!) 7)
  return s
def words (b : Bytes) : List Nat := (Sha512.chunks 4 (b2n b)).map (fun w => w.foldr (fun x acc => x + 256 * acc) 0)
def chachaBlock (key : Bytes) (ctr : Nat) (nonce : Bytes) : Bytes := Id.run do
  let init : Array Nat := ([0x61707865, 0x3320646e, 0x79622d32, 0x6b206574] ++ words key ++ [ctr % M32] ++ words nonce).toArray
  let mut s := init
  for _ in [0:10] do
    s := qr s 0 4 8 12; s := qr s 1 5 9 13; s := qr s 2 6 10 14; s := qr s 3 7 11 15
    s := qr s 0 5 10 15; s := qr s 1 6 11 12; s := qr s 2 7 8 13; s := qr s 3 4 9 14
  let out := (List.range 16).map fun i => (s[i]! + init[i]!) % M32
  return out.flatMap (natToLe 4)
def chachaXor (key : Bytes) (ctr : Nat) (nonce : Bytes) : Nat → Bytes → Bytes
  | 0, _ => []
  | _, [] => []
  | fuel+1, data => xorBytes (data.take 64) (chachaBlock key ctr nonce) ++ chachaXor key (ctr + 1) nonce fuel (data.drop 64)

/-! Poly1305 -/
def P1305 : Nat := 2^130 - 5
def poly1305 (key msg : Bytes) : Bytes :=
  let r := leToNat (key.take 16) &&& 0x0ffffffc0ffffffc0ffffffc0fffffff
  let s := leToNat (key.drop 16)
  let blocks := Sha512.chunks 16 (b2n msg)
  let acc := blocks.foldl (fun acc blk => ((acc + (blk.foldr (fun x a => x + 256 * a) 0) + 2^(8 * blk.length)) * r) % P1305) 0
  natToLe 16 ((acc + s) % 2^128)
def pad16 (b : Bytes) : Bytes := List.replicate ((16 - b.length % 16) % 16) 0
def aeadTag (key nonce aad ct : Bytes) : Bytes :=
  let otk := (chachaBlock key 0 nonce).take 32
  poly1305 otk (aad ++ pad16 aad ++ ct ++ pad16 ct ++ natToLe 8 aad.length ++ natToLe 8 ct.length)
def aeadSeal (key nonce aad pt : Bytes) : Bytes :=
  let ct := chachaXor key 1 nonce (pt.length + 1) pt
  ct ++ aeadTag key nonce aad ct
def aeadOpen (key nonce aad c : Bytes) : Option Bytes :=
  if c.length < 16 then none else
  let ct := c.take (c.length - 16); let tag := c.drop (c.length - 16)
  if aeadTag key nonce aad ct = tag then some (chachaXor key 1 nonce (ct.length + 1) ct) else none

/-! X25519 (RFC 7748) -/
def P25519 : Nat := 2^255 - 19
def powMod (b e m : Nat) : Nat := Id.run do
  let mut r := 1; let mut b := b % m; let mut e := e
  while e > 0 do
    if e % 2 == 1 then r := r * b % m
    b := b * b % m; e := e / 2
  return r
def inv (x : Nat) : Nat := powMod x (P25519 - 2) P25519
def sub (a b : Nat) : Nat := (a + P25519 - b % P25519) % P25519
def x25519 (k u : Bytes) : Bytes := Id.run do
  let kn := ((leToNat k) &&& ((2^255 - 1) - 7)) ||| 2^254   -- clamp: clear low 3 bits and bit 255, set bit 254
  let x1 := (leToNat u % 2^255) % P25519
  let mut x2 := 1; let mut z2 := 0; let mut x3 := x1; let mut z3 := 1; let mut swap := 0
  for i in [0:255] do
    let t := 254 - i
    let kt := (kn >>> t) &&& 1
    swap := swap ^^^ kt
    if swap == 1 then
      let tx := x2; x2 := x3; x3 := tx
      let tz := z2; z2 := z3; z3 := tz
    swap := kt
    let a := (x2 + z2) % P25519; let aa := a * a % P25519
    let b := sub x2 z2; let bb := b * b % P25519
    let e := sub aa bb
    let c := (x3 + z3) % P25519; let d := sub x3 z3
    let da := d * a % P25519; let cb := c * b % P25519
    x3 := ((da + cb) % P25519) ^ 2 % P25519
    z3 := x1 * ((sub da cb) ^ 2 % P25519) % P25519
    x2 := aa * bb % P25519
    z2 := e * ((aa + 121665 * e) % P25519) % P25519
  if swap == 1 then
    let tx := x2; x2 := x3; x3 := tx
    let tz := z2; z2 := z3; z3 := tz
  return natToLe 32 (x2 * inv z2 % P25519)
def x25519Base : Bytes := natToLe 32 9

/-! Ed25519 (RFC 8032), extended coordinates -/
def L25519 : Nat := 2^252 + 27742317777372353535851937790883648493
def dEd : Nat := sub 0 (121665 * inv 121666 % P25519)
structure Pt where (x y z t : Nat)
def ptAdd (p q : Pt) : Pt :=
  let a := sub p.y p.x * sub q.y q.x % P25519
  let b := (p.y + p.x) * (q.y + q.x) % P25519
  let c := p.t * 2 % P25519 * dEd % P25519 * q.t % P25519
  let d := p.z * 2 % P25519 * q.z % P25519
  let e := sub b a; let f := sub d c; let g := (d + c) % P25519; let h := (b + a) % P25519
  ⟨e * f % P25519, g * h % P25519, f * g % P25519, e * h % P25519⟩
def ptMul (s : Nat) (p : Pt) : Pt := Id.run do
  let mut q : Pt := ⟨0, 1, 1, 0⟩; let mut p := p; let mut s := s
  while s > 0 do
    if s % 2 == 1 then q := ptAdd q p
    p := ptAdd p p; s := s / 2
  return q
def ptEq (p q : Pt) : Bool := sub (p.x * q.z) (q.x * p.z) == 0 && sub (p.y * q.z) (q.y * p.z) == 0
def sqrtM1 : Nat := powMod 2 ((P25519 - 1) / 4) P25519
def recoverX (y sign : Nat) : Option Nat :=
  if y ≥ P25519 then none else
  let x2 := sub (y * y) 1 * inv ((dEd * y % P25519 * y + 1) % P25519) % P25519
  if x2 == 0 then (if sign == 1 then none else some 0) else
  let x := powMod x2 ((P25519 + 3) / 8) P25519
  let x := if sub (x * x) x2 != 0 then x * sqrtM1 % P25519 else x
  if sub (x * x) x2 != 0 then none else
  some (if x % 2 != sign then P25519 - x else x)
def Gy : Nat := 4 * inv 5 % P25519
def G : Pt := let x := (recoverX Gy 0).getD 0; ⟨x, Gy, 1, x * Gy % P25519⟩
def ptEnc (p : Pt) : Bytes :=
  let zi := inv p.z; let x := p.x * zi % P25519; let y := p.y * zi % P25519
  natToLe 32 (y ||| ((x % 2) <<< 255))
def ptDec (b : Bytes) : Option Pt :=
  if b.length ≠ 32 then none else
  let n := leToNat b; let y := n % 2^255
  (recoverX y (n >>> 255)).map fun x => ⟨x, y, 1, x * y % P25519⟩
def edExpand (sk : Bytes) : Nat × Bytes :=
  let h := sha512 sk
  let a := ((leToNat (h.take 32)) &&& ((2^254 - 1) - 7)) ||| 2^254
  (a, h.drop 32)
def edPub (sk : Bytes) : Bytes := ptEnc (ptMul (edExpand sk).1 G)
def edSign (sk msg : Bytes) : Bytes :=
  let (a, prefix_) := edExpand sk
  let A := ptEnc (ptMul a G)
  let r := leToNat (sha512 (prefix_ ++ msg)) % L25519
  let R := ptEnc (ptMul r G)
  let h := leToNat (sha512 (R ++ A ++ msg)) % L25519
  R ++ natToLe 32 ((r + h * a) % L25519)
def edVerify (pk msg sig : Bytes) : Bool :=
  if pk.length ≠ 32 ∨ sig.length ≠ 64 then false else
  match ptDec pk, ptDec (sig.take 32) with
  | some A, some R =>
    let s := leToNat (sig.drop 32)
    if s ≥ L25519 then false else
    let h := leToNat (sha512 (sig.take 32 ++ pk ++ msg)) % L25519
    ptEq (ptMul s G) (ptAdd R (ptMul h A))
  | _, _ => false


end HapVerif.RealCrypto
