import HapVerif.Bytes

/-! # Abstract cryptographic interface of the protocol models

The pairing models are written against this record; the property theorems hold for every
instance satisfying `Crypto.Laws`.  Two instances exist: the executable one used by the driver
(`Model/Crypto/Real.lean`, laws assumed - trusted base) and a toy one for which the laws are
*proved* (`Proofs/CryptoIdeal.lean`), which shows the hypotheses of the theorems are satisfiable. -/

namespace HapVerif

structure Crypto where
  hkdf : (ikm salt info : Bytes) → (len : Nat) → Bytes
  aeadSeal : (key nonce aad pt : Bytes) → Bytes
  aeadOpen : (key nonce aad c : Bytes) → Option Bytes
  dhPub : Bytes → Bytes
  dh : (sk peerPk : Bytes) → Bytes
  edPub : Bytes → Bytes
  edSign : (sk msg : Bytes) → Bytes
  edVerify : (pk msg sig : Bytes) → Bool

structure Crypto.Laws (C : Crypto) : Prop where
  open_seal : ∀ k n a p, C.aeadOpen k n a (C.aeadSeal k n a p) = some p
  open_sound : ∀ k n a c p, C.aeadOpen k n a c = some p → c = C.aeadSeal k n a p
  dh_comm : ∀ a b, C.dh a (C.dhPub b) = C.dh b (C.dhPub a)
  verify_sign : ∀ sk m, C.edVerify (C.edPub sk) m (C.edSign sk m) = true
  verify_sound : ∀ sk m s, C.edVerify (C.edPub sk) m s = true → s = C.edSign sk m
  sign_inj : ∀ sk m m', C.edSign sk m = C.edSign sk m' → m = m'
  seal_inj : ∀ k n a p k' n' a' p', C.aeadSeal k n a p = C.aeadSeal k' n' a' p' → p = p'
  pubLen : ∀ sk, (C.dhPub sk).length = 32
  edPubLen : ∀ sk, (C.edPub sk).length = 32

end HapVerif
