import HapVerif.Bytes

/-! # Model of the CoAP event path's record loop (`EventResource.render_put`, C12 over CoAP/Thread)

One decrypted notification carries one or more records `00 <iid:u16le> <len:u16le> <body>`.  The loop unpacks a 5-byte header
(`struct.unpack("<BHH", payload[offset : offset + 5])` - `struct.error` when fewer than five bytes are left, an empty payload
included), slices the body (Python slicing: a truncated body is simply shorter), hands the record to the owner, advances by
`5 + body_len` and stops when `offset >= len(payload)`.  Records handed over before an error stay handed over. -/

namespace HapVerif.CoapEvent
open HapVerif

structure Rec where
  iid : Nat
  body : Bytes
  deriving DecidableEq, Repr

inductive Status | ok | structError
  deriving DecidableEq, Repr

def le16 (b : Bytes) : Nat := leToNat (b.take 2)

/-- the loop; `fuel` bounds the number of records (every iteration consumes at least five bytes) -/
def loop : Nat → Bytes → List Rec × Status
  | 0, _ => ([], .ok)
  | fuel + 1, p =>
    if p.length < 5 then ([], .structError)
    else
      let iid := le16 (p.drop 1)
      let len := le16 (p.drop 3)
      let r : Rec := ⟨iid, (p.drop 5).take len⟩
      let rest := p.drop (5 + len)
      if rest.isEmpty then ([r], .ok)                    -- `offset >= len(payload)`
      else
        let (rs, st) := loop fuel rest
        (r :: rs, st)

def parse (p : Bytes) : List Rec × Status := loop (p.length + 1) p

/-- what a conformant accessory writes for one record -/
def encRec (r : Rec) : Bytes := 0 :: (natToLe 2 r.iid ++ natToLe 2 r.body.length ++ r.body)

def encode (rs : List Rec) : Bytes := rs.flatMap encRec

def WF (r : Rec) : Prop := r.iid < 65536 ∧ r.body.length < 65536

end HapVerif.CoapEvent
