import HapVerif.Bytes

/-! # Model of `HomeKitConnection.request` / `get` / `put` / `post`, the Host header and the
characteristic URL of `IpPairing`, over bytes (the text is UTF-8 encoded as a whole, so encoding
the pieces and concatenating is the same thing). -/

namespace HapVerif.Request
open HapVerif

def crlf : Bytes := [13, 10]

/-- `_connect_once`: IPv6 literals (anything containing ':') are bracketed; never a port -/
def hostHeader (host : Bytes) : Bytes :=
  if host.contains 58 then str "Host: [" ++ host ++ str "]" else str "Host: " ++ host

/-- `"\r\n".join(buffer)` -/
def joinCRLF : List Bytes → Bytes
  | [] => []
  | [x] => x
  | x :: y :: xs => x ++ crlf ++ joinCRLF (y :: xs)

/-- `request(method, target, headers, body)`: the bytes handed to `protocol.send_bytes`
    (`method` is one of the upper-case literals the connection's own helpers pass) -/
def build (method target host : Bytes) (headers : List (Bytes × Bytes)) (body : Bytes) : Bytes :=
  let buffer := [method ++ str " " ++ target ++ str " HTTP/1.1", hostHeader host] ++
    headers.map (fun hv => hv.1 ++ str ": " ++ hv.2) ++ [[], []]
  joinCRLF buffer ++ body

def getReq (target host : Bytes) : Bytes := build (str "GET") target host [] []

/-- `put` / `post`: both headers, in this order, whatever the body -/
def withBody (method target host ctype : Bytes) (body : Bytes) : Bytes :=
  build method target host [(str "Content-Length", str (toString body.length)), (str "Content-Type", ctype)] body

/-- `"/characteristics?id=" + ",".join(f"{aid}.{iid}" ...)` -/
def charUrl (ids : List (Int × Int)) : String :=
  "/characteristics?id=" ++ ",".intercalate (ids.map fun k => toString k.1 ++ "." ++ toString k.2)

/-! ## `_update_subscriptions`: one request per run of equal accessory ids

`groupby(characteristics, key=itemgetter(0))` groups CONSECUTIVE items with the same aid; every group becomes one
`PUT /characteristics` whose payload lists the group's (aid, iid) pairs in order. -/

/-- consecutive grouping by the first component (itertools.groupby) -/
def groupByAid : List (Nat × Nat) → List (List (Nat × Nat))
  | [] => []
  | x :: xs =>
    match groupByAid xs with
    | [] => [[x]]
    | g :: gs =>
      match g with
      | [] => [x] :: gs          -- (never produced)
      | y :: _ => if x.1 = y.1 then (x :: g) :: gs else [x] :: g :: gs

end HapVerif.Request
