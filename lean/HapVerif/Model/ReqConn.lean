/-! # Model of request/response attribution on one IP connection (C08)

`InsecureHomeKitProtocol` / `SecureHomeKitProtocol` (`result_cbs`, `_send_lines`, `data_received`,
`connection_lost`, `eof_received`, `_cancel_pending_requests`) and `HomeKitConnection.request`
(`_concurrency_limit`, the two "no protocol" guards).  One model event = one harness action run to quiescence
of the event loop; virtual time in units of 1/8192 s.  HTTP parsing of the bytes is C07's business: here a
message is delivered whole, or as a first part (`half`) followed later by its remainder (`rest`). -/

namespace HapVerif.ReqConn

abbrev Time := Nat
abbrev ReqId := Nat

def unit : Nat := 8192
/-- `loop.time() + 30` in `_send_lines` -/
def requestTimeout : Nat := 30 * unit

/-- the pending incoming message whose first part has arrived -/
inductive Part
  | resp (payload : Nat)
  | event (e : Nat)
  deriving DecidableEq, Repr

inductive Outcome
  | ok (payload : Nat)        -- completed with the response carrying `payload`
  | disconnected              -- AccessoryDisconnectedError
  | cancelled                 -- the caller's own CancelledError
  deriving DecidableEq, Repr

structure Pending where
  id : ReqId
  deadline : Time
  deriving DecidableEq, Repr

inductive Obs
  | sent (id : ReqId) (epoch : Nat)                 -- the accessory received request `id` on connection `epoch`
  | done (id : ReqId) (o : Outcome) (t : Time)      -- request `id` completed
  | event (e : Nat)                                 -- the owner's listeners saw event `e`
  | lost (epoch : Nat) (t : Time)                   -- connection `epoch` was abandoned
  deriving DecidableEq, Repr

structure St where
  now : Time := 0
  limit : Nat := 1
  up : Bool := true             -- `connection.protocol` is set and its transport is open
  epoch : Nat := 0              -- which connection (0 = the first)
  inflight : List Pending := [] -- `result_cbs`, oldest first
  waiting : List ReqId := []    -- callers blocked on `_concurrency_limit`, oldest first
  part : Option Part := none    -- an incoming message whose remainder has not arrived
  obs : List Obs := []
  deriving DecidableEq, Repr

def emit (s : St) (os : List Obs) : St := { s with obs := s.obs ++ os }

/-- the connection is abandoned: every outstanding request fails now with a disconnection error;
    `except` (the cancelled caller, if any) gets its own CancelledError instead -/
def abandon (s : St) (cancelled : Option ReqId) : St :=
  let out (id : ReqId) : Obs :=
    .done id (if cancelled = some id then .cancelled else .disconnected) s.now
  { s with up := false, inflight := [], waiting := [], part := none,
           obs := s.obs ++ [.lost s.epoch s.now] ++ s.inflight.map (fun p => out p.id) ++ s.waiting.map out }

/-- callers blocked on the semaphore proceed while there is room -/
def letThrough : Nat → St → St
  | 0, s => s
  | fuel + 1, s =>
    match s.waiting with
    | [] => s
    | k :: ks =>
      if s.inflight.length < s.limit then
        letThrough fuel
          { s with waiting := ks, inflight := s.inflight ++ [⟨k, s.now + requestTimeout⟩],
                   obs := s.obs ++ [.sent k s.epoch] }
      else s

/-- a complete HTTP response arrived -/
def deliverResp (s : St) (payload : Nat) : St :=
  match s.inflight with
  | [] => abandon s none        -- `result_cbs.pop(0)` raises: asyncio closes the transport
  | p :: ps =>
    let s := { s with inflight := ps, obs := s.obs ++ [.done p.id (.ok payload) s.now] }
    letThrough (s.waiting.length + 1) s

def earliest : List Pending → Option Time
  | [] => none
  | p :: ps => match earliest ps with
    | none => some p.deadline
    | some t => some (min p.deadline t)

inductive Ev
  | req (id : ReqId)
  | resp (payload : Nat)            -- the accessory sends a whole response
  | event (e : Nat)                 -- the accessory sends a whole EVENT
  | half (p : Part)                 -- ... or only the first part of a message
  | rest                            -- ... and later the remainder
  | cancel (id : ReqId)
  | adv (dt : Nat)
  | peerClose
  | reconnect                       -- a new connection is established
  deriving DecidableEq, Repr

def step (s : St) : Ev → St
  | .req id =>
    if !s.up then emit s [.done id .disconnected s.now]
    else letThrough 1 { s with waiting := s.waiting ++ [id] }
  | .resp payload =>
    if !s.up || s.part.isSome then s else deliverResp s payload
  | .event e =>
    if !s.up || s.part.isSome then s else emit s [.event e]
  | .half p =>
    if !s.up || s.part.isSome then s else { s with part := some p }
  | .rest =>
    if !s.up then s
    else match s.part with
      | none => s
      | some (.resp payload) => deliverResp { s with part := none } payload
      | some (.event e) => emit { s with part := none } [.event e]
  | .cancel id =>
    if s.inflight.any (·.id = id) then abandon s (some id)
    else if s.waiting.contains id then
      { s with waiting := s.waiting.filter (· ≠ id), obs := s.obs ++ [.done id .cancelled s.now] }
    else s
  | .adv dt =>
    let target := s.now + dt
    match earliest s.inflight with
    | some d => if d ≤ target then { abandon { s with now := d } none with now := target } else { s with now := target }
    | none => { s with now := target }
  | .peerClose => if s.up then abandon s none else s
  | .reconnect => if s.up then s else { s with up := true, epoch := s.epoch + 1 }

def run (s : St) (evs : List Ev) : St := evs.foldl step s

def init (limit : Nat) : St := { limit := limit }

end HapVerif.ReqConn
