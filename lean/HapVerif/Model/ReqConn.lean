/-! # Model of request/response attribution on one IP connection (C08)

`InsecureHomeKitProtocol` / `SecureHomeKitProtocol` (`result_cbs`, `_send_lines`, `data_received`,
`connection_lost`, `eof_received`, `_cancel_pending_requests`) and `HomeKitConnection.request`
(`_concurrency_limit`, the two "no protocol" guards).  One model event = one harness action run to quiescence
of the event loop; virtual time in units of 1/8192 s.  HTTP parsing of the bytes is C07's business: here a
message is delivered whole, or as a first part (`half`) followed later by its remainder (`rest`). -/

namespace HapVerif.ReqConn

abbrev Time := Nat
abbrev ReqId := Nat

def unit : Nat := 8192
/-- `loop.time() + 30` in `_send_lines` -/
def requestTimeout : Nat := 30 * unit

/-- the pending incoming message whose first part has arrived -/
inductive Part
  | resp (payload : Nat)
  | event (e : Nat)
  deriving DecidableEq, Repr

inductive Outcome
  | ok (payload : Nat)        -- completed with the response carrying `payload`
  | disconnected              -- AccessoryDisconnectedError
  | cancelled                 -- the caller's own CancelledError
  deriving DecidableEq, Repr

structure Pending where
  id : ReqId
  deadline : Time
  deriving DecidableEq, Repr

inductive Obs
  | sent (id : ReqId) (epoch : Nat)                 -- the accessory received request `id` on connection `epoch`
  | done (id : ReqId) (o : Outcome) (t : Time)      -- request `id` completed
  | event (e : Nat)                                 -- the owner's listeners saw event `e`
  | lost (epoch : Nat) (t : Time)                   -- connection `epoch` was abandoned
  deriving DecidableEq, Repr

structure St where
  now : Time := 0
  limit : Nat := 1
  up : Bool := true             -- `connection.protocol` is set and its transport is open
  epoch : Nat := 0              -- which connection (0 = the first)
  inflight : List Pending := [] -- `result_cbs`, oldest first
  waiting : List ReqId := []    -- callers blocked on `_concurrency_limit`, oldest first
  part : Option Part := none    -- an incoming message whose remainder has not arrived
  obs : List Obs := []
  deriving DecidableEq, Repr

def emit (s : St) (os : List Obs) : St := { s with obs := s.obs ++ os }

/-- the connection is abandoned: every outstanding request fails now with a disconnection error;
    `except` (the cancelled caller, if any) gets its own CancelledError instead -/
def abandon (s : St) (cancelled : Option ReqId) : St :=
  let out (id : ReqId) : Obs :=
    .done id (if cancelled = some id then .cancelled else .disconnected) s.now
  { s with up := false, inflight := [], waiting := [], part := none,
           obs := s.obs ++ [.lost s.epoch s.now] ++ s.inflight.map (fun p => out p.id) ++ s.waiting.map out }

/-- callers blocked on the semaphore proceed while there is room -/
def letThrough : Nat → St → St
  | 0, s => s
  | fuel + 1, s =>
    match s.waiting with
    | [] => s
    | k :: ks =>
      if s.inflight.length < s.limit then
        letThrough fuel
          { s with waiting := ks, inflight := s.inflight ++ [⟨k, s.now + requestTimeout⟩],
                   obs := s.obs ++ [.sent k s.epoch] }
      else s

/-- a complete HTTP response arrived -/
def deliverResp (s : St) (payload : Nat) : St :=
  match s.inflight with
  | [] => abandon s none        -- `result_cbs.pop(0)` raises: asyncio closes the transport
  | p :: ps =>
    let s := { s with inflight := ps, obs := s.obs ++ [.done p.id (.ok payload) s.now] }
    letThrough (s.waiting.length + 1) s

def earliest : List Pending → Option Time
  | [] => none
  | p :: ps => match earliest ps with
    | none => some p.deadline
    | some t => some (min p.deadline t)

inductive Ev
  | req (id : ReqId)
  | resp (payload : Nat)            -- the accessory sends a whole response
  | event (e : Nat)                 -- the accessory sends a whole EVENT
  | half (p : Part)                 -- ... or only the first part of a message
  | rest                            -- ... and later the remainder
  | cancel (id : ReqId)
  | adv (dt : Nat)
  | peerClose
  | reconnect                       -- a new connection is established
  deriving DecidableEq, Repr

def step (s : St) : Ev → St
  | .req id =>
    if !s.up then emit s [.done id .disconnected s.now]
    else letThrough 1 { s with waiting := s.waiting ++ [id] }
  | .resp payload =>
    if !s.up || s.part.isSome then s else deliverResp s payload
  | .event e =>
    if !s.up || s.part.isSome then s else emit s [.event e]
  | .half p =>
    if !s.up || s.part.isSome then s else { s with part := some p }
  | .rest =>
    if !s.up then s
    else match s.part with
      | none => s
      | some (.resp payload) => deliverResp { s with part := none } payload
      | some (.event e) => emit { s with part := none } [.event e]
  | .cancel id =>
    if s.inflight.any (·.id = id) then abandon s (some id)
    else if s.waiting.contains id then
      { s with waiting := s.waiting.filter (· ≠ id), obs := s.obs ++ [.done id .cancelled s.now] }
    else s
  | .adv dt =>
    let target := s.now + dt
    match earliest s.inflight with
    | some d => if d ≤ target then { abandon { s with now := d } none with now := target } else { s with now := target }
    | none => { s with now := target }
  | .peerClose => if s.up then abandon s none else s
  | .reconnect => if s.up then s else { s with up := true, epoch := s.epoch + 1 }

def run (s : St) (evs : List Ev) : St := evs.foldl step s

def init (limit : Nat) : St := { limit := limit }

end HapVerif.ReqConn

/-! # Below the quiescence abstraction: what happens inside one event-loop iteration

`Task.cancel()` (or the 30 s timer) completes a caller's future AT ONCE, but the caller's task - whose `except`
branch closes the transport - only runs at the next loop iteration; `data_received` completes the future of the
head of `result_cbs` at once, but that caller's task, too, only runs at the next iteration.  In between, further
reads and cancellations can arrive.  This automaton has those micro-steps; `settle` is "the loop runs". -/

namespace HapVerif.ReqConn.Micro

inductive Outcome
  | ok (k : Nat)      -- completed with the k-th response read on the connection
  | disconnected
  | cancelled
  deriving DecidableEq, Repr

structure Entry where
  id : Nat
  idx : Nat           -- position among the requests written on this connection (0 = first)
  gaveUp : Bool       -- its future is already done (cancelled / timed out); its task has not run yet
  deriving DecidableEq, Repr

structure St where
  up : Bool := true                    -- the transport is not closing
  fifo : List Entry := []              -- `result_cbs`, oldest first
  pendingDone : List (Nat × Nat) := [] -- futures that hold a response (id, k); their tasks have not run yet
  closers : List Nat := []             -- callers whose task will close the transport when it runs (outcome: cancelled)
  nResp : Nat := 0                     -- complete responses read so far
  nWritten : Nat := 0                  -- requests written so far
  wrote : List (Nat × Nat) := []       -- (id, idx) of every request written
  log : List (Nat × Outcome) := []     -- final outcomes, in the order the tasks finished
  deriving DecidableEq, Repr

/-- the loop runs until nothing is ready: tasks whose futures hold a response return it; a task that gave up closes
    the transport, after which `connection_lost` fails whatever is still waiting -/
def settle (s : St) : St :=
  let done := s.pendingDone.map (fun p => (p.1, Outcome.ok p.2))
  let gave := s.fifo.filter (·.gaveUp)
  let closing := !s.closers.isEmpty || !gave.isEmpty || !s.up
  if closing then
    { s with up := false, pendingDone := [], closers := [], fifo := []
             log := s.log ++ done ++ s.closers.map (fun i => (i, Outcome.cancelled)) ++
                    gave.map (fun e => (e.id, Outcome.cancelled)) ++
                    (s.fifo.filter (fun e => !e.gaveUp)).map (fun e => (e.id, Outcome.disconnected)) }
  else { s with pendingDone := [], log := s.log ++ done }

inductive Ev
  | write (id : Nat)   -- a caller's task starts and runs `_send_lines` (the loop runs)
  | deliver            -- one complete response is read (`data_received`); the loop does NOT run
  | giveUp (id : Nat)  -- `task.cancel()` / the request's timer fires; the loop does NOT run
  | tick               -- the loop runs
  deriving DecidableEq, Repr

def step (s : St) : Ev → St
  | .write id =>
    let s := settle s
    if s.up then
      { s with fifo := s.fifo ++ [⟨id, s.nWritten, false⟩], nWritten := s.nWritten + 1, wrote := s.wrote ++ [(id, s.nWritten)] }
    else { s with log := s.log ++ [(id, .disconnected)] }   -- "Transport is closed"
  | .deliver =>
    if !s.up then s
    else match s.fifo with
      | [] => { s with up := false, nResp := s.nResp + 1 }   -- `pop(0)` raises: the transport is closed
      | e :: rest =>
        if e.gaveUp then { s with fifo := rest, nResp := s.nResp + 1, closers := s.closers ++ [e.id] }  -- response discarded
        else { s with fifo := rest, nResp := s.nResp + 1, pendingDone := s.pendingDone ++ [(e.id, s.nResp)] }
  | .giveUp id =>
    if s.pendingDone.any (·.1 == id) then
      -- the future already holds a response, but the task is cancelled before it runs: the caller gets
      -- CancelledError and its `except` branch closes the transport
      { s with pendingDone := s.pendingDone.filter (·.1 != id), closers := s.closers ++ [id] }
    else { s with fifo := s.fifo.map (fun e => if e.id = id then { e with gaveUp := true } else e) }
  | .tick => settle s

def run (s : St) (evs : List Ev) : St := evs.foldl step s

end HapVerif.ReqConn.Micro

/-! # The request slot across a reconnection (`HomeKitConnection.request` with `_concurrency_limit = 1`)

What `ReqConn` leaves to an explicit `reconnect` event AFTER quiescence happens here inside the window: the session is lost
(`lose`: the future of the request on the wire gets its exception, transport and protocol are cleared - but neither the failed
caller nor the callers queued on the semaphore have run yet) and the supervisor may install the next connection (`reconnect`)
before they do.  When the loop runs (`settle`) the failed caller releases the slot and the queued callers get it one after the
other.  `guarded = true` is the code as repaired (a request remembers the transport - here: the number of the connection - it
was issued on and refuses to be sent on another one); `guarded = false` is the code as found: it only asked whether SOME
protocol exists. -/

namespace HapVerif.ReqConn.Queue

inductive Outcome
  | ok (conn : Nat)      -- answered on connection `conn`
  | disconnected
  deriving DecidableEq, Repr

structure St where
  up : Bool := true
  conn : Nat := 0                          -- number of the current connection (the transport's identity)
  holder : Option (Nat × Nat) := none      -- request on the wire: (id, connection it was SENT on)
  failing : Option Nat := none             -- its future already holds the disconnection error; its task has not run yet
  queue : List (Nat × Nat) := []           -- callers waiting for the slot: (id, connection the request was ISSUED on)
  sent : List (Nat × Nat × Nat) := []      -- (id, connection written on, connection issued on)
  log : List (Nat × Outcome) := []
  deriving DecidableEq, Repr

/-- callers get the slot one after the other until one of them puts its request on the wire -/
def grant (guarded : Bool) : List (Nat × Nat) → St → St
  | [], s => { s with queue := [] }
  | (id, issuedOn) :: rest, s =>
    if !s.up then grant guarded rest { s with log := s.log ++ [(id, Outcome.disconnected)] }          -- "Tried to send while not connected"
    else if guarded && issuedOn != s.conn then
      grant guarded rest { s with log := s.log ++ [(id, Outcome.disconnected)] }                       -- "Connection was replaced ..."
    else { s with holder := some (id, s.conn), queue := rest, sent := s.sent ++ [(id, s.conn, issuedOn)] }

/-- the loop runs until nothing is ready -/
def settle (guarded : Bool) (s : St) : St :=
  let s := match s.failing with
    | some id => { s with failing := none, holder := none, log := s.log ++ [(id, Outcome.disconnected)] }
    | none => s
  match s.holder with
  | some _ => s
  | none => grant guarded s.queue s

inductive Ev
  | issue (id : Nat)     -- a caller's task starts `request(...)`; the loop runs
  | answer               -- the accessory's response to the request on the wire arrives; the loop runs
  | lose                 -- the session is lost (`connection_lost`); the loop does NOT run
  | reconnect            -- the supervisor installs the next connection; the loop does NOT run
  | tick                 -- the loop runs
  deriving DecidableEq, Repr

def step (guarded : Bool) (s : St) : Ev → St
  | .issue id =>
    let s := settle guarded s
    if !s.up then { s with log := s.log ++ [(id, Outcome.disconnected)] }     -- "Connection lost before request could be sent"
    else settle guarded { s with queue := s.queue ++ [(id, s.conn)] }
  | .answer =>
    let s := settle guarded s
    match s.holder with
    | some (id, c) => if s.up then settle guarded { s with holder := none, log := s.log ++ [(id, Outcome.ok c)] } else s
    | none => s
  | .lose =>
    if s.up then { s with up := false, failing := s.holder.map (·.1) } else s
  | .reconnect => if s.up then s else { s with up := true, conn := s.conn + 1 }
  | .tick => settle guarded s

def run (guarded : Bool) (s : St) (evs : List Ev) : St := evs.foldl (step guarded) s

end HapVerif.ReqConn.Queue
