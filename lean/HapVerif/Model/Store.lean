import HapVerif.Bytes

/-! # Model of saving the pairing file (`Controller.save_data`) on a file system that can crash

A file is `none` (absent) or `some bytes`.  A save is a sequence of primitive effects; a crash
keeps the effects of the operations completed so far, and of an *arbitrary prefix* of the bytes of
a write that was in progress (process crash; `os.replace` is atomic - POSIX rename - trusted). -/

namespace HapVerif.Store

abbrev File := Option Bytes

structure FS where
  target : File
  tmp : File
  deriving DecidableEq, Repr

inductive Op
  | openTruncTmp                -- open(tmp, "w")
  | writeTmp (data : Bytes)     -- write + flush + fsync
  | replace                     -- os.replace(tmp, target)
  | openTruncTarget             -- open(target, "w")   (the in-place save of the unchanged tree)
  | writeTarget (data : Bytes)
  deriving DecidableEq, Repr

def apply (fs : FS) : Op → FS
  | .openTruncTmp => { fs with tmp := some [] }
  | .writeTmp d => { fs with tmp := some ((fs.tmp.getD []) ++ d) }
  | .replace => match fs.tmp with
    | some b => { target := some b, tmp := none }
    | none => fs
  | .openTruncTarget => { fs with target := some [] }
  | .writeTarget d => { fs with target := some ((fs.target.getD []) ++ d) }

/-- `save_data` as it is now: temporary file in the same directory, then atomic replace -/
def saveOps (new : Bytes) : List Op := [.openTruncTmp, .writeTmp new, .replace]

/-- the in-place save of the unchanged tree (kept for the counterexample) -/
def saveOpsInPlace (new : Bytes) : List Op := [.openTruncTarget, .writeTarget new]

/-- a write interrupted after `k` bytes -/
def cut (k : Nat) : Op → Op
  | .writeTmp d => .writeTmp (d.take k)
  | .writeTarget d => .writeTarget (d.take k)
  | o => o

/-- the file system after a crash: `done` operations completed, and (optionally) the next one was
    a write interrupted after `k` bytes -/
def crash (fs : FS) (ops : List Op) (done : Nat) (cutAt : Option Nat) : FS :=
  let fs1 := (ops.take done).foldl apply fs
  match cutAt, ops[done]? with
  | some k, some o => apply fs1 (cut k o)
  | _, _ => fs1

end HapVerif.Store
