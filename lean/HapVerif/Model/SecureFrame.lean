import HapVerif.Bytes

/-! # Model of `SecureHomeKitProtocol.send_bytes` / `.data_received` (encrypted IP session framing)

The AEAD is a parameter (`Sealer`, `Opener`, both indexed by the frame counter that becomes the
nonce `00000000 ‖ LE64 counter`), so the theorems hold for every key and for genuine as well as
corrupted streams; the driver instantiates it with the executable ChaCha20-Poly1305. -/

namespace HapVerif.SecureFrame

/-- `seal ctr aad plaintext = ciphertext ‖ tag` -/
abbrev Sealer := Nat → Bytes → Bytes → Bytes
/-- `open ctr aad blockAndTag` -/
abbrev Opener := Nat → Bytes → Bytes → Option Bytes

structure St where
  buf : Bytes := []
  ctr : Nat := 0
deriving Repr, DecidableEq

def le16 (b : Bytes) : Nat := match b with | [x, y] => x.toNat + 256 * y.toNat | _ => 0

/-- the `while len(payload) > 0` loop of `send_bytes`: the list handed to `writelines` (length
    prefix and sealed block alternate) and the new outbound counter. -/
def sendAux (sl : Sealer) : Nat → Nat → Bytes → List Bytes × Nat
  | 0, c, _ => ([], c)
  | fuel+1, c, p =>
    if p = [] then ([], c) else
    let cur := p.take 1024
    let lb := natToLe 2 cur.length
    let r := sendAux sl fuel (c + 1) (p.drop 1024)
    (lb :: sl c lb cur :: r.1, r.2)

def send (sl : Sealer) (ctr : Nat) (payload : Bytes) : List Bytes × Nat :=
  sendAux sl payload.length ctr payload

/-- the `while len(buffer) >= 2` loop. Returns the plaintext blocks delivered so far and either the
    new state or `none` = RuntimeError("Could not decrypt block") (asyncio then closes the
    transport: the session ends). -/
def loop (op : Opener) : Nat → St → List Bytes → List Bytes × Option St
  | 0, s, out => (out, some s)
  | fuel+1, s, out =>
    if s.buf.length < 2 then (out, some s) else
    let n := le16 (s.buf.take 2)
    let exp := 2 + n + 16
    if s.buf.length < exp then (out, some s) else
    match op s.ctr (s.buf.take 2) ((s.buf.drop 2).take (n + 16)) with
    | none => (out, none)
    | some p => loop op fuel ⟨s.buf.drop exp, s.ctr + 1⟩ (out ++ [p])

/-- one `data_received(data)` call -/
def recv (op : Opener) (s : St) (data : Bytes) : List Bytes × Option St :=
  let s' : St := ⟨s.buf ++ data, s.ctr⟩
  loop op (s'.buf.length + 1) s' []

/-- a sequence of reads; after an error nothing more is processed -/
def recvAll (op : Opener) : St → List Bytes → List Bytes → List Bytes × Option St
  | s, [], out => (out, some s)
  | s, c :: cs, out =>
    match recv op s c with
    | (o, none) => (out ++ o, none)
    | (o, some s') => recvAll op s' cs (out ++ o)

end HapVerif.SecureFrame
