/-! # Model of the IP connection supervisor (`HomeKitConnection` / `SecureHomeKitConnection` / `IpPairing`)

One automaton carries both C10 (reconnection: back-off, single connector, waiters) and C11 (the table of
open connections).  One model event = one harness action run to quiescence of the event loop; virtual
time is a `Nat` in units of 1/8192 s, in which every back-off interval `0.5 * 1.5^n` (n <= 12) and the
10 s / 30 s / 60 s constants are exact.

What is modelled (file `aiohomekit/controller/ip/connection.py`, `pairing.py`):
`_start_connector`, `reconnect_soon`, `_start_reconnecting`, `ensure_connection`, `_stop_connector`,
`_drop_transport`, `close`, `_connection_lost`, `_get_connect_hosts`, both `_connect_once`, `_reconnect`,
`InsecureHomeKitProtocol.connection_lost`, `IpPairing._ensure_connected`, `close`, `shutdown`,
`_async_description_update`.  The simulated network scripts the outcome of every TCP connect and of every
pair-verify; pair-verify itself is C01's business, here only the *class* of its result matters. -/

namespace HapVerif.Reconnect

abbrev Host := Nat
abbrev ConnId := Nat
abbrev Time := Nat

/-- time units per second -/
def unit : Nat := 8192
def sec (n : Nat) : Nat := n * unit

/-- numeric constants of the code, in time units; regenerated into `Gen.Reconnect` and tied by `C10_gen_tie` -/
structure Consts where
  initial : Nat        -- `interval = 0.5`
  cap : Nat            -- `min(60, ...)`
  num : Nat            -- `1.5 * interval` = num/den
  den : Nat
  connectTimeout : Nat -- `asyncio_timeout(10)` around start_connection
  requestTimeout : Nat -- `loop.time() + 30` in `_send_lines`
  ensureTimeout : Nat  -- `asyncio_timeout(10)` in `_ensure_connected`
  deriving DecidableEq, Repr

def consts : Consts :=
  { initial := unit / 2, cap := sec 60, num := 3, den := 2,
    connectTimeout := sec 10, requestTimeout := sec 30, ensureTimeout := sec 10 }

def nextInterval (i : Nat) : Nat := min consts.cap (consts.num * i / consts.den)

/-- scripted result of one `start_connection` call -/
inductive Tcp
  | refused
  | timeout
  | ok (pick : Nat)     -- connects to `addrs[min pick (len-1)]`
  deriving DecidableEq, Repr

/-- class of the result of one pair-verify (the harness maps its accessory modes onto these) -/
inductive Ver
  | ok
  | wrongId     -- IncorrectPairingIdError
  | auth        -- AuthenticationError
  | fail        -- any other exception (HomeKitException or not), raised at once
  | hang        -- no answer: the 30 s request timer closes the transport
  | okLost      -- pair-verify succeeds, but the accessory drops the connection while `connection_made` is still
                -- running inside the connector (e.g. at the re-subscription request)
  deriving DecidableEq, Repr

inductive Conn
  | idle                                        -- `_connector is None`
  | sleeping (wake : Time)                      -- in the back-off sleep (`_reconnect_future` set)
  | tcpWait (till : Time) (rest : List Host)    -- inside a connect that will time out
  | verifyWait (till : Time) (c : ConnId)       -- a pair-verify request is unanswered
  | doneOk                                      -- returned after a successful `_connect_once`
  | doneAuth                                    -- raised AuthenticationError
  | finished                                    -- left the loop because `closing`
  | cancelled                                   -- stopped by `close()`
  | stuck                                       -- model ran out of fuel (never happens; see `fuelFor`)
  deriving DecidableEq, Repr

def Conn.live : Conn → Bool
  | .sleeping _ | .tcpWait _ _ | .verifyWait _ _ => true
  | _ => false

inductive WOut
  | ok | disconnected | auth | ownTimeout | cancelled
  deriving DecidableEq, Repr

structure Waiter where
  id : Nat
  deadline : Time             -- the pairing-level 10 s
  own : Option Time           -- the caller's own timeout, if any
  deriving DecidableEq, Repr

inductive Obs
  | attempt (t : Time) (targets : List Host)
  | waiter (id : Nat) (o : WOut) (t : Time)
  | sleep (t : Time) (d : Nat)                  -- the connector starts a back-off sleep of `d` at `t`
  | opened (c : ConnId) (h : Host) (t : Time)
  | closedByCtl (c : ConnId) (t : Time)         -- the controller closed connection `c`
  deriving DecidableEq, Repr

structure St where
  now : Time := 0
  hosts : List Host := []
  desc : Option (List Host) := none
  failed : List Host := []
  closing : Bool := false
  closedF : Bool := false
  shutdown : Bool := false
  conn : Conn := .idle
  liveTasks : Nat := 0
  interval : Nat := consts.initial
  count0 : Nat := 0
  current : Option ConnId := none
  curHost : Option Host := none
  secure : Bool := false
  open_ : List ConnId := []
  nextId : Nat := 0
  tcp : List Tcp := []
  ver : List Ver := []
  waiters : List Waiter := []
  resub : Bool := true           -- the next session re-subscribes inside `connection_made` (subscriptions exist and
                                 -- the polling fallback `supports_subscribe = False` has not been entered)
  obs : List Obs := []
  deriving DecidableEq, Repr

def St.isConnected (s : St) : Bool := s.current.isSome && !s.closedF && s.secure

def emit (s : St) (o : Obs) : St := { s with obs := s.obs ++ [o] }

def insertHost (h : Host) (l : List Host) : List Host := if h ∈ l then l else l ++ [h]

/-- `_get_connect_hosts` -/
def connectHosts (s : St) : List Host × List Host :=
  let hs := s.hosts.filter (fun h => !(s.failed.contains h))
  if hs.isEmpty then (s.hosts, []) else (hs, s.failed)

/-- `_drop_transport`: the controller closes the current transport, if any -/
def dropTransport (s : St) : St :=
  match s.current with
  | none => s
  | some c =>
    let s := if s.open_.contains c then emit s (.closedByCtl c s.now) else s
    { s with current := none, open_ := s.open_.filter (· ≠ c) }

/-- the connector task ends; waiters blocked on it resume -/
def resolveWaiters (s : St) (o : WOut) : St :=
  { s with waiters := [],
           obs := s.obs ++ s.waiters.map (fun w => Obs.waiter w.id o s.now) }

def finish (s : St) (c : Conn) : St :=
  let s := { s with conn := c, liveTasks := s.liveTasks - 1 }
  match c with
  | .doneOk => resolveWaiters s (if s.isConnected then .ok else .disconnected)
  | .doneAuth => resolveWaiters s .auth
  | _ => resolveWaiters s .disconnected

/-- the common tail of a failed attempt: forget stale exclusions, grow the interval, sleep -/
def backoff (s : St) : St :=
  let failed := if !s.failed.isEmpty && s.failed.length ≤ s.count0 then [] else s.failed
  let i := nextInterval s.interval
  emit { s with failed := failed, interval := i, conn := .sleeping (s.now + i) } (.sleep s.now i)

def popTcp (s : St) : Tcp × St :=
  match s.tcp with
  | [] => (.ok 0, s)
  | o :: r => (o, { s with tcp := r })

def popVer (s : St) : Ver × St :=
  match s.ver with
  | [] => (.ok, s)
  | o :: r => (o, { s with ver := r })

/-- the address answered as another accessory: remember it and drop the connection -/
def wrongIdState (s : St) : St :=
  dropTransport { s with failed := match s.curHost with
    | some h => insertHost h s.failed
    | none => s.failed }

/-- what follows the verdict of a pair-verify on the current connection; `true` = `continue` at once -/
def verifyVerdict (s : St) (v : Ver) : St × Bool :=
  match v with
  | .ok => (finish { s with secure := true } .doneOk, false)
  | .auth => (finish (dropTransport s) .doneAuth, false)
  | .fail => (backoff (dropTransport s), false)
  | .hang =>
    match s.current with
    | some c => ({ s with conn := .verifyWait (s.now + consts.requestTimeout) c }, false)
    | none => (backoff s, false)
  | .okLost =>
    -- without a request inside `connection_made` there is nothing for the accessory to drop: plain success
    if !s.resub then (finish { s with secure := true } .doneOk, false)
    else match s.current with
    | some c => (backoff { s with secure := true, current := none, open_ := s.open_.filter (· ≠ c), resub := false }, false)
    | none => (backoff s, false)
  | .wrongId =>
    let s := wrongIdState s
    if s.failed.length > s.count0 && s.hosts.any (fun h => !(s.failed.contains h)) then (s, true)
    else (backoff s, false)

/-- the TCP part of `_connect_once` from a given address list; returns `true` if the loop must `continue` -/
def tcpPhase : List Host → St → St × Bool
  | [], s => (backoff s, false)                      -- ConnectionError / TimeoutError
  | a :: as, s =>
    let s := emit s (.attempt s.now (a :: as))
    let (o, s) := popTcp s
    match o with
    | .refused => tcpPhase as s
    | .timeout => ({ s with conn := .tcpWait (s.now + consts.connectTimeout) as }, false)
    | .ok pick =>
      let h := (a :: as).getD (min pick as.length) a
      let c := s.nextId
      let s := emit { s with nextId := c + 1, current := some c, curHost := some h,
                             open_ := s.open_ ++ [c] } (.opened c h s.now)
      let (v, s) := popVer s
      verifyVerdict s v

/-- secure `_connect_once`: pick up changed addresses from the description -/
def refreshHosts (s : St) : St :=
  match s.desc with
  | some hs =>
    if hs.all (s.hosts.contains ·) && s.hosts.all (hs.contains ·) then s
    else { s with hosts := hs, failed := [] }
  | none => s

/-- the part of the secure `_connect_once` that runs before the TCP connect -/
def prepare (s : St) : St × List Host :=
  let s := refreshHosts { s with count0 := s.failed.length, secure := false }
  ({ s with failed := (connectHosts s).2 }, (connectHosts s).1)

/-- one iteration of `while not self.closing` from the top -/
def loopTop : Nat → St → St
  | 0, s => finish s .stuck
  | fuel + 1, s =>
    if s.closing then finish s .finished
    else
      let (s, targets) := prepare s
      let (s, again) := tcpPhase targets s
      if again then loopTop fuel s else s

def fuelFor (s : St) : Nat := s.hosts.length + (s.desc.getD []).length + 2

/-- `_start_connector` -/
def startConnector (s : St) : St :=
  if s.conn.live || s.isConnected then s
  else
    -- the new task runs `_reconnect` from the top with a fresh interval
    loopTop (fuelFor s) { s with liveTasks := s.liveTasks + 1, interval := consts.initial }

/-- `_start_reconnecting`; the Bool is its return value -/
def startReconnecting (s : St) : St × Bool :=
  if s.isConnected then (s, false)
  else (startConnector { s with closing := false, closedF := false }, true)

/-- `reconnect_soon` -/
def reconnectSoon (s : St) : St :=
  match s.conn with
  | .sleeping _ => loopTop (fuelFor s) s
  | _ => (startReconnecting s).1

/-- the connector continues after one of its own timers fired -/
def connectorTimer (s : St) : St :=
  match s.conn with
  | .sleeping _ => loopTop (fuelFor s) s
  | .tcpWait _ rest =>
    let (s, again) := tcpPhase rest s
    if again then loopTop (fuelFor s) s else s
  | .verifyWait _ _ =>
    -- `_send_lines` closes the transport and raises AccessoryDisconnectedError
    backoff (dropTransport s)
  | _ => s

def Conn.timer : Conn → Option Time
  | .sleeping t | .tcpWait t _ | .verifyWait t _ => some t
  | _ => none

def Waiter.due (w : Waiter) : Time :=
  match w.own with
  | some o => min o w.deadline
  | none => w.deadline

def Waiter.outcome (w : Waiter) : WOut :=
  match w.own with
  | some o => if o < w.deadline then .ownTimeout else .disconnected
  | none => .disconnected

/-- every waiter whose deadline is not after `t` gives up -/
def fireWaiters (s : St) (t : Time) : St :=
  let due := s.waiters.filter (fun w => w.due ≤ t)
  { s with now := max s.now t, waiters := s.waiters.filter (fun w => ¬ w.due ≤ t),
           obs := s.obs ++ due.map (fun w => Obs.waiter w.id w.outcome w.due) }

/-- advance to `target`, firing timers in order; at equal times waiter deadlines go first
    (the caller's cancellation is requested before the connector can finish) -/
def advanceTo : Nat → Time → St → St
  | 0, target, s => fireWaiters s target
  | fuel + 1, target, s =>
    match s.conn.timer with
    | some c =>
      if c ≤ target then advanceTo fuel target (connectorTimer (fireWaiters s c))
      else fireWaiters s target
    | none => fireWaiters s target

/-- `_stop_connector`: cancel the connector task and wait for it -/
def stopConnector (s : St) : St :=
  match s.conn with
  | .sleeping _ | .tcpWait _ _ => finish s .cancelled
  | .verifyWait _ _ => finish (dropTransport s) .cancelled
  | _ => s

/-- `HomeKitConnection.close` -/
def closeConn (s : St) : St :=
  let had := s.current.isSome
  let s := stopConnector { s with closing := true }
  let s := dropTransport s
  { s with secure := false, closedF := s.closedF || had }

inductive Ev
  | adv (dt : Nat)
  | ensure (id : Nat) (own : Option Nat)   -- a caller enters `_ensure_connected`; `own` = its own timeout
  | cancelW (id : Nat)
  | soon                                   -- zeroconf saw the device again (same addresses)
  | descr (hs : List Host)                 -- zeroconf update carrying an address list
  | close
  | shutdown
  | drop (c : ConnId)                      -- the accessory closes connection `c`
  | pushTcp (o : Tcp)
  | pushVer (v : Ver)
  deriving DecidableEq, Repr

def step (s : St) : Ev → St
  | .adv dt => advanceTo (s.tcp.length + dt / consts.initial + 4) (s.now + dt) s
  | .ensure id own =>
    if s.shutdown || s.isConnected then emit s (.waiter id .ok s.now)
    else
      let w : Waiter := ⟨id, s.now + consts.ensureTimeout, own.map (s.now + ·)⟩
      -- register first: if the connector finishes at once the waiter is resolved by `finish`
      (startReconnecting { s with waiters := s.waiters ++ [w] }).1
  | .cancelW id =>
    { s with waiters := s.waiters.filter (·.id ≠ id),
             obs := s.obs ++ (s.waiters.filter (·.id = id)).map (fun w => Obs.waiter w.id .cancelled s.now) }
  | .soon => if s.shutdown then s else reconnectSoon s
  | .descr hs => if s.shutdown then s else reconnectSoon { s with desc := some hs }
  | .close => closeConn s
  | .shutdown => closeConn { s with shutdown := true }
  | .drop c =>
    if !s.open_.contains c then s
    else
      let s := { s with open_ := s.open_.filter (· ≠ c) }
      if s.current ≠ some c then s            -- an abandoned connection: nothing else happens
      else
        match s.conn with
        | .verifyWait _ _ =>
          -- the pending pair-verify request fails; `_connection_lost` finds the connector running
          backoff { s with current := none }
        | _ =>
          let s := { s with current := none }
          if s.closing then { s with closedF := true } else startConnector s
  | .pushTcp o => { s with tcp := s.tcp ++ [o] }
  | .pushVer v => { s with ver := s.ver ++ [v] }

def run (s : St) (evs : List Ev) : St := evs.foldl step s

def init (hosts : List Host) : St := { hosts := hosts }

end HapVerif.Reconnect
