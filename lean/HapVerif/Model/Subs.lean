/-! # Model of subscriptions and event delivery of an IP pairing (C12)

`IpPairing.subscribe / unsubscribe / _update_subscriptions / connection_made / event_received`,
`AbstractPairing.subscribe / unsubscribe / dispatcher_connect / _callback_listeners`,
`HomeKitConnection.event_received`.  One model event = one harness action run to quiescence. -/

namespace HapVerif.Subs

/-- (accessory id, instance id) -/
abbrev Ch := Nat × Nat

/-- what a listener does when it is called -/
inductive Kind
  | normal
  | raises              -- raises an exception after recording the event
  | removesSelf         -- unregisters itself from inside the callback
  | adds (other : Nat)  -- registers another (normal) listener from inside the callback
  deriving DecidableEq, Repr

structure Listener where
  id : Nat
  kind : Kind
  log : List (List Ch)  -- every call it received: the keys of the event, `[]` for "connection is back"
  deriving DecidableEq, Repr

structure St where
  wanted : List Ch := []          -- `subscriptions` (a set)
  supports : Bool := true         -- `supports_subscribe`
  connected : Bool := false
  session : Nat := 0              -- number of secure sessions established so far
  registered : List Ch := []      -- what the accessory has been asked to send events for on this session
  listeners : List Listener := [] -- currently registered
  gone : List Listener := []      -- unregistered ones (their logs are still observed)
  deriving DecidableEq, Repr

def insertCh (c : Ch) (l : List Ch) : List Ch := if l.contains c then l else l ++ [c]
def union (a b : List Ch) : List Ch := b.foldl (fun acc c => insertCh c acc) a
def diff (a b : List Ch) : List Ch := a.filter (fun c => !(b.contains c))

/-- one callback round over a snapshot of the listener set (`_callback_listeners`) -/
def deliver (s : St) (keys : List Ch) : St :=
  let snapshot := s.listeners
  -- everybody in the snapshot is called exactly once
  let called := snapshot.map (fun l => { l with log := l.log ++ [keys] })
  -- side effects of the callbacks on the listener set
  let removed := called.filter (fun l => l.kind = .removesSelf)
  let kept := called.filter (fun l => l.kind ≠ .removesSelf)
  let newIds := (called.filterMap (fun l => match l.kind with | .adds k => some k | _ => none))
  let fresh := newIds.foldl (fun (acc : List Listener) k =>
      if (kept ++ acc ++ s.gone ++ removed).any (·.id = k) then acc else acc ++ [⟨k, .normal, []⟩]) []
  { s with listeners := kept ++ fresh, gone := s.gone ++ removed }

/-- the body of an EVENT message -/
inductive Body
  | chars (keys : List Ch)   -- a JSON object with a characteristics list
  | empty                    -- zero-length body
  | notJson                  -- e.g. `garbage`
  | notUtf8                  -- e.g. bytes 0xff 0xfe
  deriving DecidableEq, Repr

def deliverBody (s : St) : Body → St
  | .chars keys => deliver s keys
  | _ => s

/-- `connection_made(True)`: tell the listeners, then ask again for everything wanted -/
def onConnected (s : St) : St :=
  let s1 := deliver { s with connected := true, session := s.session + 1, registered := [] } []
  if s.supports then { s1 with registered := union [] s.wanted } else s1

inductive Ev
  | subscribe (cs : List Ch)
  | unsubscribe (cs : List Ch)
  | cutSubscribe (cs : List Ch)  -- the accessory closes the connection instead of answering the request
  | drop                         -- the accessory closes the connection
  | connect                      -- a (re)connection succeeds: new secure session
  | addListener (id : Nat) (k : Kind)
  | removeListener (id : Nat)
  | events (bodies : List Body)  -- one read (or several) carrying these EVENT messages, in order
  deriving DecidableEq, Repr

def step (s : St) : Ev → St
  | .subscribe cs =>
    let s := { s with wanted := union s.wanted cs }
    if s.supports && s.connected then { s with registered := union s.registered cs } else s
  | .unsubscribe cs =>
    if s.connected then { s with wanted := diff s.wanted cs, registered := diff s.registered cs }
    else { s with wanted := diff s.wanted cs }
  | .cutSubscribe cs =>
    let s := { s with wanted := union s.wanted cs }
    if s.supports && s.connected then { s with supports := false, connected := false, registered := [] }
    else s
  | .drop => { s with connected := false, registered := [] }
  | .connect => if s.connected then s else onConnected s
  | .addListener id k =>
    if s.listeners.any (·.id = id) || s.gone.any (·.id = id) then s
    else { s with listeners := s.listeners ++ [⟨id, k, []⟩] }
  | .removeListener id =>
    { s with listeners := s.listeners.filter (·.id ≠ id),
             gone := s.gone ++ s.listeners.filter (·.id = id) }
  | .events bodies =>
    if s.connected then bodies.foldl deliverBody s else s

def run (s : St) (evs : List Ev) : St := evs.foldl step s

/-! ## Overlapping calls

`subscribe` / `unsubscribe` are coroutines: several can be in flight on one pairing.  What each does to
`pairing.subscriptions` is atomic and in place, at a definite point of the call:

* `subscribe(cs)`  : `subscriptions.update(cs)` when the call STARTS (before it waits for the connection or the answer);
* `unsubscribe(cs)`: `subscriptions.difference_update(cs - refused)` when the call RETURNS (after the accessory's answer),
  or at once when the pairing is not connected.

The accessory registers / unregisters when a request ARRIVES; a (re)connection asks again for everything in
`subscriptions` at that moment. -/

inductive OEv
  | addWanted (cs : List Ch)     -- a subscribe() starts
  | removeWanted (cs : List Ch)  -- an unsubscribe() returns normally (cs = its argument minus what the accessory refused)
  | accReg (cs : List Ch)        -- a subscription request arrives at the accessory
  | accUnreg (cs : List Ch)      -- an unsubscription request arrives at the accessory
  | drop                         -- the connection goes away
  | reconnect                    -- a new session: everything wanted is asked for again
  deriving DecidableEq, Repr

structure OSt where
  wanted : List Ch := []
  registered : List Ch := []
  deriving DecidableEq, Repr

def ostep (s : OSt) : OEv → OSt
  | .addWanted cs => { s with wanted := union s.wanted cs }
  | .removeWanted cs => { s with wanted := diff s.wanted cs }
  | .accReg cs => { s with registered := union s.registered cs }
  | .accUnreg cs => { s with registered := diff s.registered cs }
  | .drop => { s with registered := [] }
  | .reconnect => { s with registered := union [] s.wanted }

def orun (s : OSt) (evs : List OEv) : OSt := evs.foldl ostep s

/-- what an event decides about characteristic `x` being wanted: `some true` (a subscribe naming it started),
    `some false` (an unsubscribe naming it returned), `none` (says nothing about `x`) -/
def effectOn (x : Ch) : OEv → Option Bool
  | .addWanted cs => if cs.contains x then some true else none
  | .removeWanted cs => if cs.contains x then some false else none
  | _ => none

/-- the last event of the history that decides about `x` -/
def lastEffect (x : Ch) (evs : List OEv) : Option Bool := (evs.reverse.findSome? (effectOn x))

end HapVerif.Subs
