/-! # Counter automata of the three encrypted transports (C06)

Ciphertexts are abstract (symbolic AEAD): a delivered message is either the genuine message the
accessory sealed with counter `j`, or something that authenticates under no counter.  Opening at
counter `c` succeeds exactly for `genuine c`.  A "session" is the lifetime of one set of keys;
a new session has fresh keys (assumption: distinct pair-verify runs give distinct keys).

* IP  (`SecureHomeKitProtocol`): per-frame send counter; receive counter advances on success only;
  any failure / cancel / timeout closes the connection.
* BLE (`EncryptionKey` / `DecryptionKey` + `_async_request_under_lock`): same shape, per fragment.
* CoAP (`EncryptionContext`): send counter; `_decrypt_response` with its resynchronisation
  heuristics (rewind up to 5, forward up to 5, reset to 0 - which also zeroes the SEND counter);
  events use their own counter without heuristics. -/

namespace HapVerif.Counters

inductive Ct
  | genuine (j : Nat)     -- what the accessory sealed with counter j (responses / frames)
  | corrupt               -- authenticates under no counter
  deriving DecidableEq, Repr

def opens (c : Nat) : Ct → Bool
  | .genuine j => j == c
  | .corrupt => false

/-! ## IP and BLE -/

structure St where
  sendCtr : Nat := 0
  recvCtr : Nat := 0
  alive : Bool := true
  deriving DecidableEq, Repr

inductive Ev
  | send (frames : Nat)     -- encrypt `frames` frames/fragments
  | deliver (ct : Ct)
  | abort                   -- cancellation / timeout / any other failure of the request
  deriving DecidableEq, Repr

inductive Obs
  | sealed (nonce : Nat)
  | accepted (j : Nat)
  | closed
  deriving DecidableEq, Repr

def step (s : St) : Ev → St × List Obs
  | .send n => ({ s with sendCtr := s.sendCtr + n }, (List.range' s.sendCtr n).map Obs.sealed)
  | .deliver ct =>
    if !s.alive then (s, [])           -- a closed transport delivers nothing
    else match ct with
      | .genuine j => if j = s.recvCtr then ({ s with recvCtr := s.recvCtr + 1 }, [.accepted j])
                      else ({ s with alive := false }, [.closed])
      | .corrupt => ({ s with alive := false }, [.closed])
  | .abort => if s.alive then ({ s with alive := false }, [.closed]) else (s, [])

def run : St → List Ev → List Obs
  | _, [] => []
  | s, e :: es => (step s e).2 ++ run (step s e).1 es

/-! ## CoAP responses -/

structure CoapSt where
  sendCtr : Nat := 0
  recvCtr : Nat := 0
  alive : Bool := true
  deriving DecidableEq, Repr

/-- the order in which `_decrypt_response` tries counters: the current one, then `recv-rewind ..
    recv-1`, then `recv+1 .. recv+5`, then 0 (after zeroing the send counter) -/
def candidates (recv : Nat) : List Nat :=
  let rewind := min 5 recv
  [recv] ++ List.range' (recv - rewind) rewind ++ List.range' (recv + 1) 5

inductive CoapEv
  | request                  -- encrypt one request
  | response (ct : Ct)       -- a response payload reaches `_decrypt_response`
  deriving DecidableEq, Repr

def coapStep (s : CoapSt) : CoapEv → CoapSt × List Obs
  | .request => ({ s with sendCtr := s.sendCtr + 1 }, [.sealed s.sendCtr])
  | .response ct =>
    if !s.alive then (s, []) else
    match (candidates s.recvCtr).find? (fun c => opens c ct) with
    | some c => ({ s with recvCtr := c + 1 }, [match ct with | .genuine j => .accepted j | .corrupt => .closed])
    | none =>
      -- "try zeroing out the counters": the send counter is zeroed before the attempt
      if opens 0 ct then ({ sendCtr := 0, recvCtr := 1, alive := true }, [.accepted 0])
      else ({ sendCtr := 0, recvCtr := 0, alive := false }, [.closed])

def coapRun : CoapSt → List CoapEv → List Obs
  | _, [] => []
  | s, e :: es => (coapStep s e).2 ++ coapRun (coapStep s e).1 es

/-! ## CoAP events (`decrypt_event`): own counter, no heuristics, a failure changes nothing -/

def eventStep (ctr : Nat) (ct : Ct) : Nat × List Obs :=
  if opens ctr ct then (ctr + 1, [.accepted ctr]) else (ctr, [])

def eventRun : Nat → List Ct → List Obs
  | _, [] => []
  | c, ct :: cts => (eventStep c ct).2 ++ eventRun (eventStep c ct).1 cts

/-! ## a pairing over several sessions (IP reconnects, BLE pair-verify and pair-resume)

Every pair-verify - full or resumed - installs a new key set with both counters at zero; `epoch` numbers the key
sets.  What the harness observes is, for every AEAD operation, which key set and which counter were used. -/

structure Sess where
  epoch : Nat := 0
  st : St := {}
  deriving DecidableEq, Repr

inductive SEv
  | rekey               -- a new session: fresh keys, counters at zero
  | ev (e : Ev)
  deriving DecidableEq, Repr

def sstep (s : Sess) : SEv → Sess × List (Nat × Obs)
  | .rekey => ({ epoch := s.epoch + 1, st := {} }, [])
  | .ev e => ({ s with st := (step s.st e).1 }, (step s.st e).2.map (fun o => (s.epoch, o)))

def srun : Sess → List SEv → List (Nat × Obs)
  | _, [] => []
  | s, e :: es => (sstep s e).2 ++ srun (sstep s e).1 es

def ssealedOf (o : List (Nat × Obs)) : List (Nat × Nat) :=
  o.filterMap fun | (k, .sealed n) => some (k, n) | _ => none
def sacceptedOf (o : List (Nat × Obs)) : List (Nat × Nat) :=
  o.filterMap fun | (k, .accepted j) => some (k, j) | _ => none

/-! ## observations -/

def sealedOf (o : List Obs) : List Nat := o.filterMap fun | .sealed n => some n | _ => none
def acceptedOf (o : List Obs) : List Nat := o.filterMap fun | .accepted j => some j | _ => none

end HapVerif.Counters
