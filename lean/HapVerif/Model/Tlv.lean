import HapVerif.Bytes

/-! # Model of `aiohomekit.protocol.tlv.TLV` (pairing TLV8 codec)

Mirrors `TLV.encode_list`, `TLV.decode_bytearray` (with the optional `expected` filter) and the
fragment reassembly loop of `controller/ble/client.py::_pairing_char_write`, as they are on the
current tree (after the `fix:` commit that made a missing length byte a parse error, made the
debug rendering tolerate an empty Error value, and made empty values encode as `t 00`).

Python exceptions are an explicit enum; `index` is kept as a constructor so that the statement
"decoding raises the codec's own error and no other" is a statement about constructors. -/

namespace HapVerif.Tlv

inductive Err | parse | index | value | key
  deriving DecidableEq, Repr

abbrev Item := UInt8 × Bytes
abbrev Items := List Item

/-- `while len(value) > 0:` loop of `TLV.encode_list` (fuel = len(value)). -/
def encFrag (k : UInt8) : Nat → Bytes → Bytes
  | 0, _ => []
  | _, [] => []
  | fuel+1, v => k :: UInt8.ofNat (min v.length 255) :: (v.take 255 ++ encFrag k fuel (v.drop 255))

/-- one `(key, value)` pair of `encode_list`: an empty value is the two bytes `k 00`
    (separator or not), a non-empty one is cut into 255-byte fragments. -/
def encItem (k : UInt8) (v : Bytes) : Bytes :=
  if v = [] then [k, 0] else encFrag k v.length v

def encodeList (l : Items) : Bytes := l.flatMap fun (k, v) => encItem k v

/-- `encode_list` with its `ValueError("Separator must not have data")`. -/
def encodeList? (l : Items) : Except Err Bytes :=
  if l.any (fun (k, v) => k = 255 ∧ v ≠ []) then .error .value else .ok (encodeList l)

/-- accumulator is reversed: head = `result[-1]`. -/
def push (acc : Items) (k : UInt8) (v : Bytes) : Items :=
  match acc with
  | (k', p) :: acc' => if k' = k then (k', p ++ v) :: acc' else (k, v) :: acc
  | [] => [(k, v)]

/-- `expected and key not in expected` -/
def filtered (expected : Option (List UInt8)) (k : UInt8) : Bool :=
  match expected with
  | some ex => !ex.isEmpty && !ex.contains k
  | none => false

/-- the `while len(tail) > 0` loop of `decode_bytearray`.  An item whose type the caller did not ask
    for is skipped (leniently: a cut-short unexpected item just ends the input); `skipped` records
    that the previous item was skipped, in which case the next one is never merged into
    `result[-1]`. -/
def decodeAux (expected : Option (List UInt8)) : Nat → Bytes → Items → Bool → Except Err Items
  | 0, _, acc, _ => .ok acc
  | _, [], acc, _ => .ok acc
  | fuel+1, k :: tail, acc, skipped =>
    if filtered expected k then
      match tail with
      | [] => .ok acc
      | len :: rest => decodeAux expected fuel (rest.drop len.toNat) acc true
    else match tail with
      | [] => .error .parse
      | len :: rest =>
        let value := rest.take len.toNat
        if value.length ≠ len.toNat then .error .parse
        else decodeAux expected fuel (rest.drop len.toNat)
          (if skipped then (k, value) :: acc else push acc k value) false

/-- `TLV.decode_bytearray(ba, expected)` -/
def decode (expected : Option (List UInt8)) (bs : Bytes) : Except Err Items :=
  match decodeAux expected bs.length bs [] false with
  | .error e => .error e
  | .ok acc => .ok acc.reverse

/-- `dict(items).get(k)`: the last occurrence wins -/
def lookup (k : UInt8) (l : Items) : Option Bytes := (l.reverse.find? (·.1 = k)).map (·.2)

/-! ## BLE pairing fragment reassembly (`_pairing_char_write`) -/

inductive Reasm
  | done (items : Items)            -- returned dict (as the item list it was built from)
  | err (e : Err)
  | tooMany                          -- ValueError("Reassembly failed - too many fragments")
  | starved                          -- the scripted accessory ran out of responses (harness only)
  deriving DecidableEq, Repr

/-- the `for _ in range(MAX_REASSEMBLY)` loop over the accessory's successive responses;
    returns the outcome and how many responses were consumed. -/
def reassemble : Nat → List Bytes → Bytes → Nat → Reasm × Nat
  | 0, _, _, n => (.tooMany, n)
  | _, [], _, n => (.starved, n)
  | fuel+1, r :: rs, buffer, n =>
    match decode none r with
    | .error e => (.err e, n + 1)
    | .ok items =>
      match lookup 13 items with
      | some last =>
        (match decode none (buffer ++ last) with
         | .error e => (.err e, n + 1)
         | .ok final => (.done final, n + 1))
      | none =>
        match lookup 12 items with
        | some frag => reassemble fuel rs (buffer ++ frag) (n + 1)
        | none => (.done items, n + 1)

end HapVerif.Tlv
