import HapVerif.Bytes

/-! # Schema-generic model of `aiohomekit.tlv8` (`TLVStruct.encode/decode`, `tlv_iterator`,
`tlv_array`, per-type (de)serialisers)

A `Schema` is what reflection finds in a `TLVStruct` dataclass: the ordered `(tlv_type, field type)`
list.  The translator regenerates the schema of **every** subclass in the package on every run
(`Gen/Schemas.lean`), so the generic theorems transfer to all of them, new ones included.

The model mirrors the code as it is, quirks included: an empty encoded value emits nothing, the
look-ahead merge of `tlv_iterator` stops at the end of the buffer, `Sequence[u16]` goes through
the TLV-list splitter (known finding C16/seqU16), a TLV type declared twice is assigned to the
*last* field declaring it (known finding C16/Meshcop). -/

namespace HapVerif.Tlv8

inductive Err | parse | index | value | unicode | struct | attr
  deriving DecidableEq, Repr

mutual
inductive FieldTy where
  | uint (n : Nat) | buint16 | str | bytes
  | enum (members : List Nat)
  | struct (s : Schema)
  | seqStruct (s : Schema)
  | seqU16            -- Sequence[u16] as the *code* treats it today
inductive Schema where
  | mk (fields : List (Nat × FieldTy))
end

mutual
inductive Val where
  | int (n : Nat) | raw (b : Bytes)
  | struct (v : SVal)
  | seq (vs : List SVal)
  | ids (l : List Nat)
inductive SVal where
  | mk (fields : List (Option Val))   -- positional, same order as the schema
end

/-- `struct.pack` of an out-of-range integer raises `struct.error` -/
def leBytes? (k n : Nat) : Except Err Bytes :=
  if n < 256 ^ k then .ok (natToLe k n) else .error .struct

/-- the `for offset in range(0, len(encoded), 255)` loop of `TLVStruct.encode` -/
def frag (t : UInt8) : Nat → Bytes → Bytes
  | 0, _ => []
  | _, [] => []
  | fuel+1, v => t :: UInt8.ofNat (min v.length 255) :: (v.take 255 ++ frag t fuel (v.drop 255))

mutual
def encVal : FieldTy → Val → Except Err Bytes
  | .uint n, .int x => leBytes? n x
  | .buint16, .int x => (leBytes? 2 x).map List.reverse
  | .str, .raw b => .ok b
  | .bytes, .raw b => .ok b
  | .enum _, .int x => leBytes? 1 x
  | .struct s, .struct v => encStruct s v
  | .seqStruct s, .seq vs => encSeq s vs
  | .seqU16, .ids [] => .ok []
  | .seqU16, .ids (_ :: _) => .error .attr      -- 'int' object has no attribute 'encode'
  | _, _ => .error .attr
def encStruct : Schema → SVal → Except Err Bytes
  | .mk fs, .mk vs => encFields fs vs
def encFields : List (Nat × FieldTy) → List (Option Val) → Except Err Bytes
  | (t, ty) :: fs, some v :: vs => do
      let e ← encVal ty v
      let rest ← encFields fs vs
      pure (frag (UInt8.ofNat t) e.length e ++ rest)
  | _ :: fs, none :: vs => encFields fs vs
  | _, _ => .ok []
def encSeq : Schema → List SVal → Except Err Bytes
  | _, [] => .ok []
  | s, [v] => encStruct s v
  | s, v :: vs => do
      let a ← encStruct s v
      let b ← encSeq s vs
      pure (a ++ [0, 0] ++ b)
end

/-! ## decoding -/

/-- inner look-ahead loop of `tlv_iterator`: `rest` starts right after the (type,len) header of
    the current fragment.  Returns (offset of the last fragment, last length, joined value,
    remaining bytes after the last fragment). -/
def join (t : UInt8) : Nat → Nat → Nat → Bytes → Bytes → Except Err (Nat × Nat × Bytes × Bytes)
  | 0, off, len, value, rest => .ok (off, len, value, rest.drop len)
  | f+1, off, len, value, rest =>
    if len ≠ 255 then .ok (off, len, value, rest.drop len)
    else
      let after := rest.drop len
      match after with
      | [] => .ok (off, len, value, after)                 -- peek_offset >= len: Schlage quirk
      | t' :: after' =>
        if t' ≠ t then .ok (off, len, value, after)
        else match after' with
          | [] => .error .index
          | l' :: rest' => join t f (off + 2 + len) l'.toNat (value ++ rest'.take l'.toNat) rest'

/-- `tlv_iterator`: list of (offset of the *last* fragment, type, last length, joined value). -/
def iterAux : Nat → Nat → Bytes → Except Err (List (Nat × UInt8 × Nat × Bytes))
  | 0, _, _ => .ok []
  | _, _, [] => .ok []
  | _, _, [_] => .error .index                      -- encoded_struct[offset + 1]
  | fuel+1, off, t :: l :: rest =>
    match join t fuel off l.toNat (rest.take l.toNat) rest with
    | .error e => .error e
    | .ok (off', len', value, remaining) =>
      match iterAux fuel (off' + 2 + len') remaining with
      | .error e => .error e
      | .ok items => .ok ((off', t, len', value) :: items)

def iter (b : Bytes) : Except Err (List (Nat × UInt8 × Nat × Bytes)) := iterAux (b.length + 1) 0 b

/-- `tlv_array(encoded, separator=0)` -/
def tlvArray (b : Bytes) : Except Err (List Bytes) := do
  let items ← iter b
  let (start, outs) := items.foldl (fun (acc : Nat × List Bytes) it =>
      let (start, outs) := acc
      let (off, t, _, _) := it
      if t = 0 then (off + 2, outs ++ [(b.drop start).take (off - start)]) else (start, outs)) (0, [])
  let last := b.drop start
  pure (if last.isEmpty then outs else outs ++ [last])

/-- strict UTF-8 validity, as `bytes.decode("utf-8")` checks it -/
def validUtf8 : Nat → Bytes → Bool
  | 0, _ => true
  | _, [] => true
  | f+1, b0 :: rest =>
    let c (x : UInt8) : Bool := 0x80 ≤ x ∧ x ≤ 0xBF
    if b0 < 0x80 then validUtf8 f rest
    else if 0xC2 ≤ b0 ∧ b0 ≤ 0xDF then
      match rest with
      | b1 :: r => c b1 && validUtf8 f r
      | _ => false
    else if 0xE0 ≤ b0 ∧ b0 ≤ 0xEF then
      match rest with
      | b1 :: b2 :: r =>
        let lo : UInt8 := if b0 = 0xE0 then 0xA0 else 0x80
        let hi : UInt8 := if b0 = 0xED then 0x9F else 0xBF
        (lo ≤ b1 ∧ b1 ≤ hi) && c b2 && validUtf8 f r
      | _ => false
    else if 0xF0 ≤ b0 ∧ b0 ≤ 0xF4 then
      match rest with
      | b1 :: b2 :: b3 :: r =>
        let lo : UInt8 := if b0 = 0xF0 then 0x90 else 0x80
        let hi : UInt8 := if b0 = 0xF4 then 0x8F else 0xBF
        (lo ≤ b1 ∧ b1 ≤ hi) && c b2 && c b3 && validUtf8 f r
      | _ => false
    else false

mutual
def decVal : FieldTy → Bytes → Except Err Val
  | .uint _, b => .ok (.int (leToNat b))
  | .buint16, b => .ok (.int (beToNat b))
  | .str, b => if validUtf8 b.length b then .ok (.raw b) else .error .unicode
  | .bytes, b => .ok (.raw b)
  | .enum ms, b => let n := leToNat b; if ms.contains n then .ok (.int n) else .error .value
  | .struct s, b => (decStruct s b).map .struct
  | .seqStruct s, b => do
      let items ← tlvArray b
      let vs ← items.mapM (fun it => decStruct s it)
      pure (.seq vs)
  | .seqU16, b => do
      let items ← tlvArray b
      pure (.ids (items.map leToNat))
def decStruct : Schema → Bytes → Except Err SVal
  | .mk fs, b => do
    let items ← iter b
    let init : List (Option Val) := fs.map (fun _ => none)
    let res ← items.foldlM (fun (acc : List (Option Val)) it =>
        let (_, t, _, value) := it
        decField fs t.toNat value 0 acc) init
    pure (.mk res)
/-- find the *last* field with this TLV type (dict comprehension: later fields win) and set it -/
def decField : List (Nat × FieldTy) → Nat → Bytes → Nat → List (Option Val) → Except Err (List (Option Val))
  | [], _, _, _, _ => .error .parse                                   -- Unknown TLV type
  | (t', ty) :: fs, t, value, idx, acc =>
    if fs.any (fun f => f.1 = t) then decField fs t value (idx + 1) acc
    else if t' = t then (decVal ty value).map (fun v => acc.set idx (some v))
    else decField fs t value (idx + 1) acc
end

end HapVerif.Tlv8
