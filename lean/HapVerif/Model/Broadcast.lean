import HapVerif.Bytes

/-! # Model of BLE encrypted broadcast notifications
(`BleController._device_detected` routing, `BlePairing._async_notification`, `from_bytes`)

Symbolic partial-tag AEAD: an advertisement payload is either the genuine sealing - under this
pairing's broadcast key, for advertising identifier `advId`, with nonce counter `g` - of
`inner(2, LE) ‖ iid(2, LE) ‖ value(8)`, or something that opens under no candidate counter
(wrong key, wrong identifier, any altered byte).  A 32-bit tag is forgeable with probability
2⁻³² per candidate: outside this model, stated as an assumption. -/

namespace HapVerif.Broadcast

inductive Adv
  | genuine (advId : Nat) (g inner iid : Nat) (value : Bytes)
  | foreign (advId : Nat)
  | short (advId : Nat)          -- payload shorter than tag + header: the truncated "expected tag" may match by prefix
  deriving DecidableEq, Repr

def Adv.advId : Adv → Nat
  | .genuine a _ _ _ _ => a
  | .foreign a => a
  | .short a => a

structure St where
  advId : Nat          -- the paired accessory's advertising identifier (= its device id)
  stateNum : Nat       -- description.state_num: last accepted / advertised state number
  hasKey : Bool := true
  deriving DecidableEq, Repr

inductive Out
  | delivered (iid : Nat) (value : Bytes)   -- listeners called with {(1, iid): {"value": ...}}
  | ignored                                  -- nothing happens
  | fallback                                 -- `_process_disconnected_events()` (a poll over a connection)
  | notRouted                                -- no pairing for this identifier
  | noDelivery                               -- ignored or fall-back, depending on a tag-prefix coincidence; nothing delivered
  | silent                                   -- accepted (the state number advances) for an instance id the cached database does not know: nobody is called
  deriving DecidableEq, Repr

/-- candidate order of `_async_notification`: next, current (⇒ stale), then +2 … +99 -/
def candidates (s : Nat) : List Nat := [s + 1, s] ++ List.range' (s + 2) 98

def step (s : St) (a : Adv) : St × Out :=
  if a.advId ≠ s.advId then (s, .notRouted)
  else if !s.hasKey then (s, .fallback)
  else match a with
    | .foreign _ => (s, .fallback)
    | .short _ => (s, .noDelivery)   -- decrypts (if at all) to fewer than 2 bytes: inner counter 0 never equals a candidate ≥ 1
    | .genuine _ g inner iid value =>
      if g ∈ candidates s.stateNum then
        if g = s.stateNum then (s, .ignored)                 -- stale state number
        else if inner ≠ g then (s, .ignored)                 -- GSN mismatch
        else ({ s with stateNum := g }, .delivered iid value)
      else (s, .fallback)

/-- what listeners observe: an accepted notification for an instance id that is not in the cached accessory
    database (`unknown`) advances the state number like any other but calls nobody -/
def observe (unknown : List Nat) : Out → Out
  | .delivered iid value => if iid ∈ unknown then .silent else .delivered iid value
  | o => o

def run : St → List Adv → List Out
  | _, [] => []
  | s, a :: as => (step s a).2 :: run (step s a).1 as

def finalState : St → List Adv → St
  | s, [] => s
  | s, a :: as => finalState (step s a).1 as

/-! ## `from_bytes(char, value)` for the 8 value bytes -/

inductive Fmt | bool | uint8 | uint16 | uint32 | uint64 | int | float | string | other
  deriving DecidableEq, Repr

inductive Val
  | b (v : Bool) | n (v : Int) | f32 (bits : Bytes) | s (raw : Bytes) | hex (raw : Bytes)
  deriving DecidableEq, Repr

def decodeValue (f : Fmt) (v : Bytes) : Val :=
  match f with
  | .bool => .b (v.head? != some 0 && v.head?.isSome)
  | .uint8 => .n (HapVerif.leToNat (v.take 1))
  | .uint16 => .n (HapVerif.leToNat (v.take 2))
  | .uint32 => .n (HapVerif.leToNat (v.take 4))
  | .uint64 => .n (HapVerif.leToNat (v.take 8))
  | .int => let u := HapVerif.leToNat (v.take 4); .n (if u ≥ 2 ^ 31 then (u : Int) - 2 ^ 32 else u)
  | .float => .f32 (v.take 4)
  | .string => .s v
  | .other => .hex v

end HapVerif.Broadcast
