import HapVerif.Model.Tlv
import HapVerif.Gen.Protocol
import HapVerif.Gen.Tlv

/-! # Model of the reply checks of the pairing state machines (`protocol/__init__.py`) and of the
add/remove-pairing reply checks (IP and BLE)

`handle_state_step` and `error_handler` as they are after the two `fix:` commits (an Error TLV is
honoured when State is absent; pair-verify M2 expects the Error type).  The error table and the
per-step expectation lists come from `Gen.Protocol` (regenerated from the source on every run). -/

namespace HapVerif.Protocol
open HapVerif.Tlv

/-- exception classes of `aiohomekit.exceptions` that the reply checks can raise -/
inductive PErr
  | invalid | auth | backoff | maxPeers | maxTries | unavailable | busy | unknown | unpaired | other
  deriving DecidableEq, Repr

def classOfName : String → PErr
  | "InvalidError" => .invalid
  | "AuthenticationError" => .auth
  | "BackoffError" => .backoff
  | "MaxPeersError" => .maxPeers
  | "MaxTriesError" => .maxTries
  | "UnavailableError" => .unavailable
  | "BusyError" => .busy
  | "UnknownError" => .unknown
  | "UnpairedError" => .unpaired
  | _ => .other

/-- `error_handler(error, stage)`: first matching row of the `if error == ...: raise ...` chain -/
def errorHandler (code : Bytes) : PErr :=
  match Gen.Protocol.errorTable.find? (fun r => r.1 = code) with
  | some r => classOfName r.2
  | none => classOfName Gen.Protocol.errorDefault

def tState : UInt8 := 6
def tError : UInt8 := 7

/-- `handle_state_step(tlv_dict, expected_state)` -/
def handleStateStep (d : Items) (expected : Bytes) : Except PErr Unit :=
  match lookup tState d with
  | none =>
    match lookup tError d with
    | some code => .error (errorHandler code)
    | none => .ok ()
  | some st =>
    if st ≠ expected then .error .invalid
    else match lookup tError d with
      | some code => .error (errorHandler code)
      | none => .ok ()

/-- what `TLV.decode_bytes(..., expected)` leaves of an item list: items of other types are skipped
    (C15_expected_filter_allows / _skips) -/
def applyFilter (ex : List Nat) (items : Items) : Items :=
  if ex.isEmpty then items else items.filter (fun it => ex.contains it.1.toNat)

inductive Step | setupM2 | setupM4 | setupM6 | verifyM2 | verifyM4
  deriving DecidableEq, Repr

def Step.state : Step → Bytes
  | .setupM2 => [2] | .setupM4 => [4] | .setupM6 => [6] | .verifyM2 => [2] | .verifyM4 => [4]

def Step.expectations : Step → List Nat
  | .setupM2 => Gen.Protocol.expect_setupM2
  | .setupM4 => Gen.Protocol.expect_setupM4
  | .setupM6 => Gen.Protocol.expect_setupM6
  | .verifyM2 => Gen.Protocol.expect_verifyM2
  | .verifyM4 => Gen.Protocol.expect_verifyM4

/-- the dict the generator sees: IP and CoAP decode with the step's expectation list, BLE without -/
def Step.view (s : Step) (filtered : Bool) (reply : Items) : Items :=
  if filtered then applyFilter s.expectations reply else reply

/-- a generator step: the state/error check comes first, everything else (`post`: presence checks,
    proofs, decryption, signatures - C01/C03) only runs when it passed -/
def runStep {α} (s : Step) (filtered : Bool) (reply : Items) (post : Items → Except PErr α) : Except PErr α :=
  match handleStateStep (s.view filtered reply) s.state with
  | .error e => .error e
  | .ok () => post (s.view filtered reply)

/-- the presence checks that follow, up to the first cryptographic operation (`none` = outcome is
    decided by cryptography from here on) -/
def Step.presence (s : Step) (d : Items) : Except PErr (Option Unit) :=
  let need (t : UInt8) : Bool := (lookup t d).isSome
  match s with
  | .setupM2 => if !need 3 then .error .invalid else if !need 2 then .error .invalid else .ok (some ())
  | .setupM4 => if !need 4 then .error .invalid else .ok none
  | .setupM6 => if !need 5 then .error .invalid else .ok none
  | .verifyM2 => if !need 3 then .error .invalid else if !need 5 then .error .invalid else .ok none
  | .verifyM4 => .ok (some ())

/-! ## add / remove pairing -/

/-- `IpPairing.add_pairing`: `data.get(State, M2) != M2` then `error_handler` -/
def ipAddPairing (reply : Items) : Except PErr Unit :=
  if (lookup tState reply).getD [2] ≠ [2] then .error .invalid
  else match lookup tError reply with
    | some code => .error (errorHandler code)
    | none => .ok ()

/-- `IpPairing.remove_pairing`, `BlePairing.add_pairing`, `BlePairing.remove_pairing` -/
def removeLike (reply : Items) : Except PErr Unit :=
  if (lookup tState reply).getD [2] ≠ [2] then .error .invalid
  else match lookup tError reply with
    | some code => if code = [2] then .error .auth else .error .unknown
    | none => .ok ()

end HapVerif.Protocol
