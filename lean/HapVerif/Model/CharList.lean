import HapVerif.Gen.Status

/-! # Model of the per-characteristic result handling: `format_characteristic_list`,
`to_status_code`, `IpPairing.put_characteristics`, the CoAP and BLE write paths

JSON values are a small inductive type so that "non-dict entry" and "id-less entry" are
constructors.  Domain: the reply is a JSON object, ids and statuses are integers. -/

namespace HapVerif.CharList

inductive J
  | null | bool (b : Bool) | int (n : Int) | str (s : String)
  | arr (l : List J) | obj (kv : List (String × J))
  deriving Repr, Inhabited

abbrev Obj := List (String × J)
abbrev Key := Int × Int

/-- `dict.get(k)` on an association list built in insertion order with "last write wins" -/
def oget (o : Obj) (k : String) : Option J := (o.reverse.find? (·.1 = k)).map (·.2)
/-- `del d[k]` -/
def odel (o : Obj) (k : String) : Obj := o.filter (·.1 ≠ k)
/-- `d[k] = v` (an existing key keeps its position) -/
def oset (o : Obj) (k : String) (v : J) : Obj :=
  if o.any (·.1 = k) then o.map (fun kv => if kv.1 = k then (k, v) else kv) else o ++ [(k, v)]

def asInt : J → Option Int
  | .int n => some n
  | _ => none

/-- `to_status_code`: `abs(status) * -1`, then the enum lookup, `UNKNOWN` (-1) when undefined.
    Returns (value, description). -/
def toStatusCode (status : Int) : Int × String :=
  let normalized : Int := -(status.natAbs : Int)
  match Gen.Status.hap.find? (fun r => r.2.1 = normalized) with
  | some r => (r.2.1, r.2.2)
  | none => match Gen.Status.hap.find? (fun r => r.1 = "UNKNOWN") with
    | some r => (r.2.1, r.2.2)
    | none => (-1, "")

def isUnknown (status : Int) : Bool := (toStatusCode status).1 = -1

def describe (status : Int) : String :=
  if isUnknown status then s!"Unknown error code: {status}" else (toStatusCode status).2

/-- result map of a read: key → remaining entry fields, "last write wins", insertion order -/
abbrev Result := List (Key × Obj)

def rset (r : Result) (k : Key) (v : Obj) : Result :=
  if r.any (·.1 = k) then r.map (fun kv => if kv.1 = k then (k, v) else kv) else r ++ [(k, v)]

def rget (r : Result) (k : Key) : Option Obj := (r.find? (·.1 = k)).map (·.2)

/-- one entry of `data["characteristics"]` -/
def formatEntry (tmp : Result) (c : J) : Result :=
  match c with
  | .obj o =>
    match (oget o "aid").bind asInt, (oget o "iid").bind asInt with
    | some aid, some iid =>
      let o := odel (odel o "aid") "iid"
      let o := match (oget o "status").bind asInt with
        | some 0 => odel o "status"
        | some s => oset o "description" (.str (describe s))
        | none => o
      rset tmp (aid, iid) o
    | _, _ => tmp
  | _ => tmp

/-- `format_characteristic_list(data, requested_characteristics)` -/
def format (data : Obj) (requested : List Key) : Result :=
  let tmp : Result :=
    match (oget data "status").bind asInt with
    | some s => if s ≠ 0 then
        requested.foldl (fun t k => rset t k [("status", .int s), ("description", .str (describe s))]) []
      else []
    | none => []
  let entries := match oget data "characteristics" with
    | some (.arr l) => l
    | _ => []
  entries.foldl formatEntry tmp

/-! ## IP write -/

structure PutResult where
  notified : List Key          -- listener update (keys, in request order)
  status : Result              -- returned response_status
  deriving Repr

/-- `IpPairing.put_characteristics` after the request: `readable` = requested keys with the
    paired-read permission (request order), `response` = parsed 207 body or `none` for 204 -/
def ipPut (readable : List Key) (response : Option Obj) : PutResult :=
  match response with
  | none => ⟨readable, []⟩
  | some resp =>
    let entries := match oget resp "characteristics" with
      | some (.arr l) => l
      | _ => []
    entries.foldl (fun (acc : PutResult) c =>
      match c with
      | .obj o =>
        match (oget o "aid").bind asInt, (oget o "iid").bind asInt, (oget o "status").bind asInt with
        | some aid, some iid, some s =>
          let sc := toStatusCode s
          ⟨if sc.1 ≠ 0 then acc.notified.filter (· ≠ (aid, iid)) else acc.notified,
           rset acc.status (aid, iid) [("status", .int s), ("description", .str sc.2)]⟩
        | _, _, _ => acc
      | _ => acc) ⟨readable, []⟩

/-! ## The HTTP layer in front of the IP write: `request()` raises for 4xx, `put_json` returns `{}` for 204 only and
otherwise parses the body - whatever the status line says -/

inductive HttpPut
  | failed                      -- the call raises (HttpErrorResponse for 4xx; a body that is not a JSON object)
  | result (r : PutResult)
  deriving Repr

/-- `IpPairing.put_characteristics` seen from the wire: status code and parsed body (`none` = no JSON object) -/
def ipPutHttp (readable : List Key) (code : Nat) (body : Option Obj) : HttpPut :=
  if 400 ≤ code ∧ code ≤ 499 then .failed
  else if code = 204 then .result (ipPut readable none)
  else match body with
    | none => .failed
    | some resp => .result (ipPut readable (some resp))

/-! ## CoAP write: per-item PDU results (0 = success) in request order -/

def coapPut (requested : List (Key × Bool)) (results : List Nat) : PutResult :=
  let z := requested.zip results
  ⟨(z.filter (fun x => x.2 = 0 ∧ x.1.2)).map (·.1.1),
   (z.filter (fun x => x.2 ≠ 0)).map (fun x => (x.1.1, [("status", .int (-(x.2 : Int)))]))⟩

/-! ## BLE write: one request per characteristic, in order; a rejected one raises -/

inductive Perm | readWrite | writeOnly | timedWrite | timedReadWrite | readOnly
  deriving DecidableEq, Repr

def Perm.readable : Perm → Bool
  | .readWrite | .timedReadWrite | .readOnly => true
  | _ => false
def Perm.writable : Perm → Bool
  | .readOnly => false
  | _ => true

/-- returns (notified so far, error entries, raised?) -/
def blePut : List (Key × Perm × Bool) → List Key → Result → List Key × Result × Bool
  | [], n, r => (n, r, false)
  | (k, p, accepted) :: rest, n, r =>
    if !p.writable then blePut rest n (r ++ [(k, [("status", .int (-70404))])])
    else if !accepted then (n, r, true)
    else blePut rest (if p.readable then n ++ [k] else n) r

/-! ## BLE read: one request per characteristic; what the accessory refuses is logged and skipped

`BlePairing._get_characteristics_while_connected`: a `PDUStatusError` of any status (and a value that does not
decode) makes the loop `continue`; only values reach the result. -/

/-- the accessory's answer to one characteristic read -/
inductive BleAnswer
  | value (v : Nat)          -- status 0; `v` names the decoded value
  | refused (status : Nat)   -- PDU status 1..6
  | undecodable              -- status 0 but the bytes do not decode in the characteristic's format
  deriving DecidableEq, Repr

/-- the result dictionary: requested keys with their values, in fetch order -/
def bleGet : List (Key × BleAnswer) → List (Key × Nat)
  | [] => []
  | (k, .value v) :: rest => (k, v) :: bleGet rest
  | (_, _) :: rest => bleGet rest

end HapVerif.CharList
