/-! # Model of the BLE session lifecycle of one pairing (C01: no session traffic on a link whose peer has proven nothing)

`BlePairing`: `_ensure_connected` (a new GATT link when there is none), `_populate_accessories_and_characteristics`
(`if not self._encryption_key: await self._async_pair_verify()`), `_async_pair_verify` (installs the session keys),
`_async_disconnected` (bleak's disconnected callback) and `_close_while_locked` (disconnect - which may raise, in which
case bleak never delivers the callback - then `client = None` and an explicit `_async_reset_connection_state()`).

A link is a number; the keys remember the link on which the pair-verify (or pair-resume) that produced them ran. -/

namespace HapVerif.BleSession

structure St where
  link : Option Nat := none      -- the connected GATT link, if any
  nextLink : Nat := 0
  keys : Option Nat := none      -- session keys, tagged with the link they were negotiated on
  traffic : List (Nat × Nat) := []   -- (link, link of the keys) of every encrypted request sent
  verifies : List Nat := []          -- the link of every pair-verify / pair-resume attempt (successful or not)
  deriving DecidableEq, Repr

inductive Ev
  | connect            -- `_ensure_connected` finds no connected client and establishes a new link
  | verifyOk           -- the operation's `if not self._encryption_key` branch: pair-verify / pair-resume succeeds
  | verifyFail         -- ... or fails (an impostor, an error reply): no keys
  | request            -- an encrypted request goes out (needs a link and keys)
  | closeOk            -- close(): disconnect succeeds; bleak delivers the disconnected callback
  | closeRaises        -- close(): disconnect raises (dead D-Bus socket, BleakError ...): NO callback
  | lost               -- the link drops; bleak delivers the disconnected callback
  deriving DecidableEq, Repr

def step (s : St) : Ev → St
  | .connect => match s.link with
    | some _ => s
    | none => { s with link := some s.nextLink, nextLink := s.nextLink + 1 }
  | .verifyOk => match s.link, s.keys with
    | some l, none => { s with keys := some l, verifies := s.verifies ++ [l] }
    | _, _ => s                       -- no link, or keys already there: pair-verify is not run
  | .verifyFail => match s.link, s.keys with
    | some l, none => { s with verifies := s.verifies ++ [l] }
    | _, _ => s
  | .request => match s.link, s.keys with
    | some l, some k => { s with traffic := s.traffic ++ [(l, k)] }
    | _, _ => s
  | .closeOk => match s.link with
    | some _ => { s with link := none, keys := none }
    | none => s
  | .closeRaises => match s.link with
    | some _ => { s with link := none, keys := none }   -- `client = None` + the explicit reset
    | none => s
  | .lost => { s with link := none, keys := none }

def run (s : St) (evs : List Ev) : St := evs.foldl step s

/-- one public operation of the pairing (`get`, `put`, `list_accessories_and_characteristics` ...) against a peer that
    either holds the accessory's long-term key or does not: connect if needed, pair-verify if there are no keys, then
    the encrypted request (which goes out only if there are keys) -/
def op (s : St) (genuine : Bool) : St :=
  step (step (step s .connect) (if genuine then .verifyOk else .verifyFail)) .request

end HapVerif.BleSession
