/-! # Model of `check_convert_value` (numeric and bool formats) over exact rationals

Inputs are the exact rationals Python's `Decimal(...)` constructor produces (ints, the binary value
of floats, the decimal reading of strings - the constructor is exact and trusted).

* clamp to `[minValue, maxValue]` (each optional);
* `minStep` (if truthy): `offset + to_integral((val - offset) / step) * step` under
  `ROUND_HALF_UP`; for the float format every arithmetic result is rounded to 6 significant
  digits (`ctx.prec = 6`), `to_integral_value()` itself is exact; for integer formats the context
  keeps its default precision, which is exact on the domain of 64-bit formats - modelled as exact
  rational arithmetic (validated by the correspondence up to 2^64);
* integer formats: `int(val.to_integral_value())` runs *after* the `with` block, in the default
  context, i.e. ROUND_HALF_EVEN; float format: nearest double (done by the harness). -/

namespace HapVerif.Convert

/-- number of decimal digits of a positive natural -/
def ndigits : Nat → Nat → Nat
  | 0, _ => 0
  | fuel+1, n => if n = 0 then 0 else 1 + ndigits fuel (n / 10)

def pow10 (e : Int) : Rat := if e ≥ 0 then ((10 ^ e.toNat : Nat) : Rat) else 1 / ((10 ^ (-e).toNat : Nat) : Rat)

/-- round half away from zero to an integer (`to_integral_value` under ROUND_HALF_UP) -/
def roundHalfUpInt (q : Rat) : Int :=
  let a := if q < 0 then -q else q
  let f := a.floor
  let r := if a - f ≥ (1 : Rat) / 2 then f + 1 else f
  if q < 0 then -r else r

/-- round half to even (the *default* decimal context, active again after the `with` block) -/
def roundHalfEvenInt (q : Rat) : Int :=
  let f := q.floor
  let r := q - f
  if r < (1 : Rat) / 2 then f else if r > (1 : Rat) / 2 then f + 1 else (if f % 2 = 0 then f else f + 1)

/-- adjusted exponent: floor(log10 |q|) for q ≠ 0 -/
def adjExp (q : Rat) : Int :=
  let a := if q < 0 then -q else q
  let n := a.num.toNat; let d := a.den
  let e0 : Int := (ndigits (n+1) n : Int) - (ndigits (d+1) d : Int)
  if pow10 e0 ≤ a then (if pow10 (e0+1) ≤ a then e0 + 1 else e0) else e0 - 1

/-- round to `prec` significant digits, ROUND_HALF_UP -/
def roundSig (prec : Nat) (q : Rat) : Rat :=
  if q = 0 then 0 else
  let e := adjExp q
  let scale := pow10 (e - (prec : Int) + 1)
  (roundHalfUpInt (q / scale) : Rat) * scale

/-- the context rounding applied after each arithmetic operation: 6 digits for the float format,
    none (exact on the 64-bit domain) for integer formats -/
def ctxRound (isInt : Bool) (q : Rat) : Rat := if isInt then q else roundSig 6 q

def stepRound (isInt : Bool) (v off step : Rat) : Rat :=
  let d := ctxRound isInt (v - off)
  let q := ctxRound isInt (d / step)
  let i : Rat := (roundHalfUpInt q : Rat)
  let m := ctxRound isInt (i * step)
  ctxRound isInt (off + m)

def clamp (minV maxV : Option Rat) (v : Rat) : Rat :=
  let v := match minV with | some m => if m > v then m else v | none => v
  match maxV with | some m => if m < v then m else v | none => v

/-- `check_convert_value` for a number format -/
def convert (isInt : Bool) (minV maxV step : Option Rat) (v : Rat) : Rat :=
  let v := clamp minV maxV v
  let v := match step with
    | some s => if s = 0 then v else stepRound isInt v (minV.getD 0) s
    | none => v
  if isInt then (roundHalfEvenInt v : Rat) else v

/-- `strtobool(str(val))` then `1 if val else 0` -/
def convertBool (s : String) : Option Nat :=
  let l := s.toLower
  if l ∈ ["y", "yes", "t", "true", "on", "1"] then some 1
  else if l ∈ ["n", "no", "f", "false", "off", "0"] then some 0
  else none

end HapVerif.Convert
