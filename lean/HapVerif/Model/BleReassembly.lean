import HapVerif.Bytes

/-! # Model of the BLE pairing-reply reassembly (`_pairing_char_write` in `controller/ble/client.py`, C04 over BLE)

Every reply of the accessory to a write on a pairing characteristic is decoded and classified: it carries a `FragmentLast`
item, a `FragmentData` item, or neither.  The loop tests for `FragmentLast` FIRST (append, decode the buffer, return), then for
`FragmentData` (append, acknowledge, keep reading), and otherwise returns the reply AS IT IS - whatever has been buffered is
abandoned.  At most `maxReassembly` replies are read. -/

namespace HapVerif.BleReassembly
open HapVerif

/-- one decoded reply, by what the loop looks at -/
inductive Reply
  | last (chunk : Bytes)      -- carries FragmentLast
  | data (chunk : Bytes)      -- carries FragmentData (and no FragmentLast)
  | plain (id : Nat)          -- carries neither: an unfragmented reply (identified by a number here)
  deriving DecidableEq, Repr

inductive Result
  | assembled (buffer : Bytes)   -- `dict(TLV.decode_bytes(buffer))` is handed to the state machine
  | plain (id : Nat)             -- the unfragmented reply is handed over as it is
  | tooMany                      -- `ValueError("Reassembly failed - too many fragments")`
  | starved                      -- (model only) the script of replies ended before the loop did
  deriving DecidableEq, Repr

def loop : Nat → Bytes → List Reply → Result
  | 0, _, _ => .tooMany
  | _ + 1, _, [] => .starved
  | _ + 1, buf, .last c :: _ => .assembled (buf ++ c)
  | fuel + 1, buf, .data c :: rest => loop fuel (buf ++ c) rest
  | _ + 1, _, .plain p :: _ => .plain p

def run (maxReassembly : Nat) (replies : List Reply) : Result := loop maxReassembly [] replies

end HapVerif.BleReassembly
