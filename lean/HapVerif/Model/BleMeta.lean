import HapVerif.Bytes

/-! # Model of the HAP-BLE characteristic-signature metadata route (C14: how the declared range and step reach the model)

`aiohomekit/controller/ble/structs.py`, class `Characteristic`: `min_max_value` (the "valid range" descriptor: two values
of the characteristic's presentation format, little-endian, lower bound first), `_unpack_value` (used for the value and for
the "step value" descriptor).  `BlePairing._async_fetch_gatt_database` copies `to_dict()` of this object into the
accessory database, so `minValue` / `maxValue` / `minStep` of every BLE characteristic come from here.

Presentation formats are the Bluetooth SIG "Characteristic Presentation Format" codes HAP-BLE uses (R2 table 7-51):
0x01 bool, 0x04 uint8, 0x06 uint16, 0x08 uint32, 0x0A uint64, 0x10 sint32, 0x14 float32, 0x19 utf8, 0x1B opaque. -/

namespace HapVerif.BleMeta
open HapVerif

structure IntFmt where
  width : Nat
  signed : Bool
  deriving DecidableEq, Repr

/-- the integer formats, by presentation-format code -/
def intFmt (code : Nat) : Option IntFmt :=
  if code = 0x04 then some ⟨1, false⟩
  else if code = 0x06 then some ⟨2, false⟩
  else if code = 0x08 then some ⟨4, false⟩
  else if code = 0x0A then some ⟨8, false⟩
  else if code = 0x10 then some ⟨4, true⟩
  else none

def floatCode : Nat := 0x14

/-- little-endian two's complement -/
def decodeInt (f : IntFmt) (b : Bytes) : Int :=
  let n := leToNat b
  if f.signed && decide (2 ^ (8 * f.width - 1) ≤ n) then (n : Int) - (2 ^ (8 * f.width) : Nat) else (n : Int)

/-- what the accessory writes for the value `v` (any `v` in the format's range) -/
def encodeInt (f : IntFmt) (v : Int) : Bytes := natToLe f.width (v % ((2 ^ (8 * f.width) : Nat) : Int)).toNat

def inRange (f : IntFmt) (v : Int) : Prop :=
  if f.signed then -((2 ^ (8 * f.width - 1) : Nat) : Int) ≤ v ∧ v < ((2 ^ (8 * f.width - 1) : Nat) : Int)
  else 0 ≤ v ∧ v < ((2 ^ (8 * f.width) : Nat) : Int)

inductive Range
  | none                          -- no descriptor, or a format without a range
  | error                         -- `struct.error`: the descriptor has the wrong length
  | ints (lo hi : Int)
  | floats (lo hi : Bytes)        -- IEEE-754 binary32 bit patterns (little-endian), not interpreted here
  deriving DecidableEq, Repr

/-- `Characteristic.min_max_value` -/
def minMax (code : Nat) (validRange : Bytes) : Range :=
  if validRange.isEmpty then .none
  else match intFmt code with
    | some f =>
      if validRange.length = 2 * f.width then
        .ints (decodeInt f (validRange.take f.width)) (decodeInt f (validRange.drop f.width))
      else .error
    | none =>
      if code = floatCode then
        if validRange.length = 8 then .floats (validRange.take 4) (validRange.drop 4) else .error
      else .none

inductive Step
  | none | error | int (v : Int) | float (bits : Bytes) | other
  deriving DecidableEq, Repr

/-- `Characteristic.min_step` = `_unpack_value(step_value)` for the numeric formats (`other`: bool, text, opaque, unknown) -/
def minStep (code : Nat) (stepValue : Bytes) : Step :=
  if stepValue.isEmpty then .none
  else match intFmt code with
    | some f => if stepValue.length = f.width then .int (decodeInt f stepValue) else .error
    | none => if code = floatCode then (if stepValue.length = 4 then .float stepValue else .error) else .other

end HapVerif.BleMeta
