import HapVerif.Bytes

/-! # Model of device waiters (`async_find`) and advertisement parsing

One automaton serves the mDNS-based controllers (`ZeroconfController`) and the BLE controller
(`BleController`, after the `fix:` that registers the waiter): ids are lower-cased on both sides;
time is virtual (milliseconds). -/

namespace HapVerif.Waiters

inductive Outcome
  | found (t : Nat)
  | notFound (t : Nat)
  | cancelled
  deriving DecidableEq, Repr

structure Pending where
  k : Nat            -- waiter name
  id : Nat           -- device id (already normalised)
  deadline : Nat
  deriving DecidableEq, Repr

structure St where
  now : Nat := 0
  discovered : List Nat := []
  pending : List Pending := []
  done : List (Nat × Outcome) := []
  deriving DecidableEq, Repr

inductive Ev
  | start (k id timeout : Nat)
  | adv (id : Nat)            -- a valid advertisement for `id` is processed
  | cancel (k : Nat)
  | advance (t : Nat)         -- the clock moves to `t` (timers due by then fire)
  deriving DecidableEq, Repr

def step (s : St) : Ev → St
  | .start k id timeout =>
    if id ∈ s.discovered then { s with done := s.done ++ [(k, .found s.now)] }
    else { s with pending := s.pending ++ [⟨k, id, s.now + timeout⟩] }
  | .adv id =>
    { s with
      discovered := if id ∈ s.discovered then s.discovered else s.discovered ++ [id],
      pending := s.pending.filter (·.id ≠ id),
      done := s.done ++ (s.pending.filter (·.id = id)).map (fun p => (p.k, .found s.now)) }
  | .cancel k =>
    { s with
      pending := s.pending.filter (·.k ≠ k),
      done := s.done ++ (s.pending.filter (·.k = k)).map (fun p => (p.k, .cancelled)) }
  | .advance t =>
    let t := max t s.now
    { s with
      now := t,
      pending := s.pending.filter (fun p => t < p.deadline),
      done := s.done ++ (s.pending.filter (fun p => p.deadline ≤ t)).map (fun p => (p.k, .notFound p.deadline)) }

def run (s : St) (evs : List Ev) : St := evs.foldl step s

def outcomeOf (s : St) (k : Nat) : Option Outcome := (s.done.find? (·.1 = k)).map (·.2)

/-! ## BLE manufacturer data (`HomeKitAdvertisement.from_manufacturer_data`, after the company id) -/

structure BleAdv where
  id : Bytes          -- 6 bytes, rendered lower-case hex with colons by the code
  statusFlags : Nat
  category : Nat
  stateNum : Nat
  configNum : Nat
  setupHash : Bytes
  deriving DecidableEq, Repr

def le16 (a b : UInt8) : Nat := a.toNat + 256 * b.toNat

/-- `none` = ValueError (the advertisement is ignored) -/
def parseBle (data : Bytes) : Option BleAdv :=
  match data with
  | [] => none
  | t :: _ =>
    if t ≠ 0x06 then none
    else if data.length < 15 then none
    else
      match data.drop 2 with
      | sf :: i0 :: i1 :: i2 :: i3 :: i4 :: i5 :: a0 :: a1 :: g0 :: g1 :: cn :: _cv :: rest =>
        some ⟨[i0, i1, i2, i3, i4, i5], sf.toNat, le16 a0 a1, le16 g0 g1, cn.toNat,
              if data.length ≥ 19 then rest.take 4 else []⟩
      | _ => none

/-! ## mDNS record (`HomeKitService.from_service_info`) -/

inductive AddrKind | ok | linkLocal | unspecified
  deriving DecidableEq, Repr

structure Mdns where
  id : String
  address : String
  addresses : List String
  configNum : Nat
  stateNum : Nat
  featureFlags : Nat
  statusFlags : Nat
  category : Nat
  deriving DecidableEq, Repr

def lookupTxt (props : List (String × Option String)) (key : String) : Option String :=
  -- `{k.lower(): v for k, v in props if v is not None}`: the last entry with that lower-cased key wins
  ((props.filter (fun kv => kv.1.toLower = key ∧ kv.2.isSome)).getLast?).bind (·.2)

/-- plain decimal digits (the domain the harness keeps TXT numbers in); `none` = ValueError -/
def parseNat (s : String) : Option Nat := if s.isEmpty ∨ !s.all Char.isDigit then none else s.toNat?

def parseMdns (addrs : List (AddrKind × String)) (props : List (String × Option String)) : Option Mdns :=
  if addrs.isEmpty then none else
  let valid := (addrs.filter (·.1 = .ok)).map (·.2)
  match valid with
  | [] => none
  | first :: _ =>
    match lookupTxt props "id" with
    | none => none
    | some id =>
      let num (key : String) (dflt : Nat) : Option Nat :=
        match lookupTxt props key with
        | none => some dflt
        | some v => parseNat v
      match num "c#" 0, num "s#" 0, num "ff" 0, num "sf" 0, num "ci" 1 with
      | some c, some s, some ff, some sf, some ci => some ⟨id.toLower, first, valid, c, s, ff, sf, ci⟩
      | _, _, _, _, _ => none

end HapVerif.Waiters

/-! # Below the quiescence abstraction: waiter futures inside one event-loop iteration

`Task.cancel()` (or the waiter's own timeout) completes the waiter's future AT ONCE; the `finally` / `except` of
`async_find` that unregisters it only runs when its task runs, at the next loop iteration.  An advertisement processed
in between meets a registered future that is already done: the callbacks guard `set_result` with `not future.done()`. -/

namespace HapVerif.Waiters.Micro

inductive FutState
  | pending
  | cancelled        -- `Task.cancel()`: done, task not yet run
  | timedOut         -- the timeout fired: done, task not yet run
  | resolved         -- holds the discovery: done, task not yet run
  deriving DecidableEq, Repr

inductive Outcome
  | found
  | notFound
  | cancelled
  deriving DecidableEq, Repr

structure Entry where
  k : Nat
  id : Nat
  st : FutState
  registered : Bool      -- still in `_waiters[id]` / `_ble_futures[id]`
  deriving DecidableEq, Repr

structure St where
  discovered : List Nat := []
  entries : List Entry := []          -- waiters whose task has not finished
  done : List (Nat × Outcome) := []
  raised : Bool := false              -- an exception escaped a callback
  deriving DecidableEq, Repr

/-- `future.set_result(discovery)` on a future that is already done raises `InvalidStateError` -/
def setResult (e : Entry) : Except Unit Entry :=
  if e.st = .pending then .ok { e with st := .resolved } else .error ()

/-- the advertisement callback on one registered future: it gets the discovery unless it is already done (the guard
    `if not future.done()`); the second component says whether `set_result` raised -/
def wake (id : Nat) (e : Entry) : Entry × Bool :=
  if e.id = id ∧ e.registered then
    if e.st = .pending then
      match setResult e with
      | .ok x => ({ x with registered := false }, false)
      | .error _ => ({ e with registered := false }, true)
    else ({ e with registered := false }, false)
  else (e, false)

/-- the loop runs: every task whose future is done finishes with its outcome (and unregisters itself) -/
def settle (s : St) : St :=
  let fin := s.entries.filter (fun e => e.st ≠ .pending)
  { s with entries := s.entries.filter (fun e => e.st = .pending),
           done := s.done ++ fin.map (fun e => (e.k, match e.st with
             | .resolved => Outcome.found | .timedOut => .notFound | _ => .cancelled)) }

inductive Ev
  | start (k id : Nat)      -- a task calls `async_find` (the loop runs)
  | adv (id : Nat)          -- an advertisement for `id` is processed; the loop does NOT run
  | cancel (k : Nat)        -- `task.cancel()`; the loop does NOT run
  | timeout (k : Nat)       -- the waiter's timer fires; the loop does NOT run
  | tick                    -- the loop runs
  deriving DecidableEq, Repr

def step (s : St) : Ev → St
  | .start k id =>
    let s := settle s
    if id ∈ s.discovered then { s with done := s.done ++ [(k, .found)] }
    else { s with entries := s.entries ++ [⟨k, id, .pending, true⟩] }
  | .adv id =>
    { s with discovered := if id ∈ s.discovered then s.discovered else s.discovered ++ [id],
             entries := s.entries.map (fun e => (wake id e).1),
             raised := s.raised || s.entries.any (fun e => (wake id e).2) }
  | .cancel k =>
    -- a task whose future already holds the discovery but has not run yet is cancelled all the same
    { s with entries := s.entries.map (fun e => if e.k = k then { e with st := .cancelled } else e) }
  | .timeout k =>
    { s with entries := s.entries.map (fun e => if e.k = k ∧ e.st = .pending then { e with st := .timedOut } else e) }
  | .tick => settle s

def run (s : St) (evs : List Ev) : St := evs.foldl step s

end HapVerif.Waiters.Micro
