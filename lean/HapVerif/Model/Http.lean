import HapVerif.Bytes

/-! # Model of `aiohomekit.http.response.HttpResponse.parse` and of the `while data:` feed loop of
`InsecureHomeKitProtocol.data_received`

The byte buffer (`raw`) is kept apart from everything else (`core`), so "receiving more bytes" is
`app p d` and the header-line function cannot see the buffer by construction.

Domain of the model (checked by the harness, cases outside it are skipped for the correspondence
and counted): numeric fields (status code, Content-Length, chunk sizes) are plain ASCII digit /
hex-digit strings - Python's `int()` additionally accepts surrounding whitespace, a sign and
underscores; status and header lines are ASCII (Python decodes UTF-8 and then applies Unicode-aware
`strip()`/`title()`). -/

namespace HapVerif.Http

inductive Err | http | value | index | runtime deriving DecidableEq, Repr

def findCRLF : Bytes → Option Nat
  | [] => none
  | [_] => none
  | a :: b :: t => if a = 13 ∧ b = 10 then some 0 else (findCRLF (b :: t)).map (· + 1)

/-- `bytes.split(sep, maxsplit)` for a one-byte separator -/
def splitN (sep : UInt8) : Nat → Bytes → List Bytes
  | 0, l => [l]
  | n+1, l =>
    match l.span (· ≠ sep) with
    | (a, []) => [a]
    | (a, _ :: rest) => a :: splitN sep n rest

def isDigit (c : UInt8) : Bool := 48 ≤ c ∧ c ≤ 57
def parseDec (b : Bytes) : Option Nat :=
  if b.isEmpty ∨ !b.all isDigit then none else some (b.foldl (fun a c => a * 10 + (c.toNat - 48)) 0)
def hexVal (c : UInt8) : Option Nat :=
  if 48 ≤ c ∧ c ≤ 57 then some (c.toNat - 48) else if 97 ≤ c ∧ c ≤ 102 then some (c.toNat - 87)
  else if 65 ≤ c ∧ c ≤ 70 then some (c.toNat - 55) else none
def parseHex (b : Bytes) : Option Nat :=
  if b.isEmpty then none else b.foldlM (fun a c => (hexVal c).map (a * 16 + ·)) 0

def isSpace (c : UInt8) : Bool := c = 32 ∨ (9 ≤ c ∧ c ≤ 13) ∨ (28 ≤ c ∧ c ≤ 31)
def strip (b : Bytes) : Bytes := ((b.dropWhile isSpace).reverse.dropWhile isSpace).reverse
def isUpper (c : UInt8) : Bool := 65 ≤ c ∧ c ≤ 90
def isLower (c : UInt8) : Bool := 97 ≤ c ∧ c ≤ 122
/-- ASCII `str.title()` -/
def titleAux : Bool → Bytes → Bytes
  | _, [] => []
  | prevCased, c :: t =>
    if isUpper c then (if prevCased then c + 32 else c) :: titleAux true t
    else if isLower c then (if prevCased then c else c - 32) :: titleAux true t
    else c :: titleAux false t
def title (b : Bytes) : Bytes := titleAux false b

/-- everything except the byte buffer -/
structure Core where
  state : Nat := 0            -- 0 pre-status, 1 headers, 2 body, 3 done
  chunked : Bool := false
  hadEmpty : Bool := false
  clen : Option Nat := none   -- None = -1
  version : Bytes := []
  code : Nat := 0
  headers : List (Bytes × Bytes) := []
  body : Bytes := []
deriving Repr, DecidableEq

structure P where
  core : Core := {}
  raw : Bytes := []
deriving Repr, DecidableEq

def Core.complete (c : Core) : Bool :=
  if c.chunked then c.hadEmpty
  else if c.state < 2 then false
  else match c.clen with
    | some n => c.body.length == n
    | none => true

def strTE : Bytes := "Transfer-Encoding".toUTF8.toList
def strCL : Bytes := "Content-Length".toUTF8.toList
def strChunked : Bytes := "chunked".toUTF8.toList

/-- processing of one status/header line (never looks at the buffer) -/
def headLine (p : Core) (line : Bytes) : Except Err Core :=
  if p.state = 0 then
    match splitN 32 2 line with
    | [v, c, r] =>
      if !(v ++ r).all (· < 128) then .error .value else
      match parseDec c with
      | some code => .ok { p with version := v, code := code, state := 1 }
      | none => .error .value
    | _ => .error .http
  else if line = [] then .ok { p with state := 2 }
  else
    match splitN 58 1 line with
    | [n, v] =>
      if !(n ++ v).all (· < 128) then .error .value else
      let name := title (strip n)
      let value := strip v
      if name = strTE then
        .ok { p with chunked := p.chunked || (value == strChunked), headers := p.headers ++ [(name, value)] }
      else if name = strCL then
        match parseDec value with
        | some n => .ok { p with clen := some n, headers := p.headers ++ [(name, value)] }
        | none => .error .value
      else .ok { p with headers := p.headers ++ [(name, value)] }
    | _ => .error .index

/-- first `while` loop: status line and headers -/
def headLoop : Nat → P → Except Err P
  | 0, p => .ok p
  | fuel+1, p =>
    if p.core.state ≥ 2 then .ok p else
    match findCRLF p.raw with
    | none => .ok p
    | some pos =>
      match headLine p.core (p.raw.take pos) with
      | .error e => .error e
      | .ok c => headLoop fuel ⟨c, p.raw.drop (pos + 2)⟩

/-- chunked body loop -/
def chunkLoop : Nat → P → Except Err P
  | 0, p => .ok p
  | fuel+1, p =>
    match findCRLF p.raw with
    | none => .ok p
    | some pos =>
      let rest := p.raw.drop (pos + 2)
      match parseHex (p.raw.take pos) with
      | none => .error .value
      | some len =>
        if len + 2 > rest.length then .ok p            -- put back: raw unchanged
        else if len = 0 then .ok ⟨{ p.core with hadEmpty := true, state := 3 }, rest.drop 2⟩
        else chunkLoop fuel ⟨{ p.core with body := p.core.body ++ rest.take len }, rest.drop (len + 2)⟩

def chunkPhase (fuel : Nat) (p : P) : Except Err P :=
  if p.core.state = 2 ∧ p.core.chunked then chunkLoop fuel p else .ok p

def bodyStep (p : P) : P :=
  match p.core.clen with
  | some n => if p.core.state = 2 ∧ n > 0 then
      let remaining := n - p.core.body.length
      ⟨{ p.core with body := p.core.body ++ p.raw.take remaining }, p.raw.drop remaining⟩
    else p
  | none => p

/-- the three phases run on the current buffer -/
def norm (p : P) : Except Err P := do
  let p ← headLoop (p.raw.length + 1) p
  let p ← chunkPhase (p.raw.length + 1) p
  pure (bodyStep p)

def app (p : P) (d : Bytes) : P := ⟨p.core, p.raw ++ d⟩

/-- `HttpResponse.parse(part)`: new state and the returned leftover -/
def parse (p : P) (part : Bytes) : Except Err (P × Bytes) := do
  let p ← norm (app p part)
  if p.core.complete then pure (p, p.raw) else pure (p, [])

structure Msg where
  name : Bytes     -- version.split("/")[0]
  code : Nat
  headers : List (Bytes × Bytes)
  body : Bytes
deriving Repr, DecidableEq

def Core.msg (p : Core) : Msg := ⟨p.version.takeWhile (· ≠ 47), p.code, p.headers, p.body⟩

/-- `while data:` loop of `data_received`: the messages completed by this read (each is handed to
    a waiting request or to the event listeners *before* the loop goes on, so they are kept even
    when a later part of the read raises) and the parser afterwards, or the error raised.
    The Python loop has no bound; it terminates because every completed message consumed input.
    `fuel` only makes the recursion structural - `feed` supplies more than can be used
    (`feedLoop_fuel` in Proofs/HttpFeed.lean). -/
def feedLoop : Nat → P → Bytes → List Msg × Except Err P
  | 0, p, _ => ([], .ok p)
  | fuel+1, p, data =>
    if data = [] then ([], .ok p) else
    match norm (app p data) with
    | .error e => ([], .error e)
    | .ok p' =>
      if p'.core.complete then
        let r := feedLoop fuel {} p'.raw
        (p'.core.msg :: r.1, r.2)
      else ([], .ok p')

/-- one `data_received(data)` call -/
def feed (p : P) (data : Bytes) : List Msg × Except Err P :=
  feedLoop (p.raw.length + data.length + 1) p data

/-- sequencing of two reads: nothing more is processed after an error (asyncio closes the
    transport when `data_received` raises) -/
def seq2 (r1 : List Msg × Except Err P) (k : P → List Msg × Except Err P) : List Msg × Except Err P :=
  match r1 with
  | (o1, .error e) => (o1, .error e)
  | (o1, .ok p1) => ((o1 ++ (k p1).1), (k p1).2)

/-- a sequence of reads -/
def feedAll : P → List Bytes → List Msg × Except Err P
  | p, [] => ([], .ok p)
  | p, c :: cs => seq2 (feed p c) (fun p1 => feedAll p1 cs)

end HapVerif.Http
