/-! # Model of the accessory database round trip (C20)

`Accessories.serialize()` -> JSON -> `Accessories.from_list()` as the characteristic cache and the pairing
restart use them (`aiohomekit/model/__init__.py`, `model/services/service.py`,
`model/characteristics/characteristic.py`).

Python values are `J` (dynamically typed JSON values: what matters to the code is `is None`, truthiness,
`bool(...)`, numeric order for the default-value clamp, and the first element of `valid-values`).  A JSON
object is a record of `Option J`: `none` = key absent, `some .null` = key present with `null`.

The metadata table `characteristics[type]` (defaults by characteristic type) and `normalize_uuid` are
parameters; the theorems hold for every table and every idempotent normaliser. -/

namespace HapVerif.EntityMap

inductive J
  | null
  | bool (b : Bool)
  | num (q : Rat)
  | str (s : String)
  | nums (l : List Rat)               -- a list of numbers (`valid-values`)
  | other (truthy : Bool) (id : Nat)  -- any other value (object, nested array): opaque, only its truthiness matters
  deriving DecidableEq, Repr

/-- Python truthiness -/
def J.truthy : J → Bool
  | .null => false
  | .bool b => b
  | .num q => q != 0
  | .str s => s != ""
  | .nums l => !l.isEmpty
  | .other t _ => t

/-- `x is not None` -/
def J.isSome (j : J) : Bool := j != .null

inductive Err
  | typeError      -- `max`/`min` of values that do not compare, `valid_values[0]` on a non-list
  | keyError       -- a link names a service iid the accessory does not have
  deriving DecidableEq, Repr

/-- numeric reading for `max`/`min` (Python: bool is an int) -/
def J.asNum : J → Option Rat
  | .num q => some q
  | .bool b => some (if b then 1 else 0)
  | _ => none

/-- `max(a, b)`: `a` unless `b > a` -/
def pyMax (a b : J) : Except Err J :=
  match a.asNum, b.asNum with
  | some x, some y => .ok (if x < y then b else a)
  | _, _ => .error .typeError

/-- `min(a, b)`: `a` unless `b < a` -/
def pyMin (a b : J) : Except Err J :=
  match a.asNum, b.asNum with
  | some x, some y => .ok (if y < x then b else a)
  | _, _ => .error .typeError

/-- one row of the metadata table `characteristics[type]` (only the keys `_get_configuration` is asked for) -/
structure Meta where
  format : Option J := none
  description : Option J := none
  unit : Option J := none
  minValue : Option J := none
  maxValue : Option J := none
  minStep : Option J := none
  deriving DecidableEq, Repr

abbrev Table := String → Option Meta

/-- the JSON object of one characteristic -/
structure CharD where
  type : String
  iid : Nat
  perms : List String
  format : Option J := none
  value : Option J := none
  ev : Option J := none
  description : Option J := none
  unit : Option J := none
  minValue : Option J := none
  maxValue : Option J := none
  minStep : Option J := none
  maxLen : Option J := none
  validValues : Option J := none
  handle : Option J := none
  disconnectedEvents : Option J := none
  broadcastEvents : Option J := none
  deriving DecidableEq, Repr

/-- the `Characteristic` object (the attributes the serialiser reads) -/
structure Char where
  type : String
  iid : Nat
  perms : List String
  format : J
  value : J
  ev : J
  description : J
  unit : J
  minValue : J
  maxValue : J
  minStep : J
  maxLen : J
  validValues : J
  handle : J
  disconnectedEvents : J
  broadcastEvents : J
  deriving DecidableEq, Repr

def emitIf (c : Bool) (v : J) : Option J := if c then some v else none

/-- `Characteristic.to_accessory_and_service_list` -/
def serChar (c : Char) : CharD :=
  { type := c.type, iid := c.iid, perms := c.perms, format := some c.format
    value := emitIf (c.perms.contains "pr") c.value
    ev := emitIf c.ev.truthy c.ev
    description := emitIf c.description.truthy c.description
    unit := emitIf c.unit.truthy c.unit
    minValue := emitIf c.minValue.isSome c.minValue
    maxValue := emitIf c.maxValue.isSome c.maxValue
    minStep := emitIf c.minStep.isSome c.minStep
    maxLen := emitIf (c.maxLen.truthy && c.format == .str "string") c.maxLen
    validValues := emitIf c.validValues.isSome c.validValues
    handle := emitIf c.handle.isSome c.handle
    disconnectedEvents := emitIf c.disconnectedEvents.isSome c.disconnectedEvents
    broadcastEvents := emitIf c.broadcastEvents.isSome c.broadcastEvents }

/-- `_get_configuration(kwargs, key, None)`: the given value if the key was passed, else the table's, else `None` -/
def cfg (tbl : Table) (ty : String) (given : Option J) (sel : Meta → Option J) : J :=
  match given with
  | some v => v
  | none => match tbl ty with
    | none => .null
    | some m => (sel m).getD .null

/-- `DEFAULT_FOR_TYPE.get(format)` -/
def defaultFor : J → J
  | .str "bool" => .bool false
  | .str "uint8" => .num 0
  | .str "uint16" => .num 0
  | .str "uint32" => .num 0
  | .str "uint64" => .num 0
  | .str "int" => .num 0
  | .str "float" => .num 0
  | .str "string" => .str ""
  | .str "array" => .nums []
  | .str "dict" => .other false 0
  | _ => .null

/-- the value a readable characteristic gets from the constructor when none is passed -/
def initialValue (format validValues minValue maxValue : J) : Except Err J :=
  if validValues.truthy then
    match validValues with
    | .nums (q :: _) => .ok (.num q)
    | _ => .error .typeError
  else do
    let v0 := defaultFor format
    let v1 ← if minValue.truthy then pyMax (if v0.truthy then v0 else minValue) minValue else pure v0
    let v2 ← if maxValue.truthy then pyMin (if v1.truthy then v1 else maxValue) maxValue else pure v1
    pure v2

/-- `set_value`: a bool characteristic stores `bool(new_val)` -/
def coerce (format v : J) : J := if format = .str "bool" then .bool v.truthy else v

/-- the attributes `Characteristic.__init__` takes from the keyword arguments or the metadata table -/
def dFormat (norm : String → String) (tbl : Table) (d : CharD) : J := cfg tbl (norm d.type) d.format (·.format)
def dValid (norm : String → String) (tbl : Table) (d : CharD) : J := cfg tbl (norm d.type) d.validValues (fun _ => none)
def dMin (norm : String → String) (tbl : Table) (d : CharD) : J := cfg tbl (norm d.type) d.minValue (·.minValue)
def dMax (norm : String → String) (tbl : Table) (d : CharD) : J := cfg tbl (norm d.type) d.maxValue (·.maxValue)

/-- the constructor's value: `None` without the read permission, else the default computed from the format/range -/
def ctorValue (norm : String → String) (tbl : Table) (d : CharD) : Except Err J :=
  if d.perms.contains "pr" then initialValue (dFormat norm tbl d) (dValid norm tbl d) (dMin norm tbl d) (dMax norm tbl d)
  else .ok .null

/-- the object once the constructor's value `v0` is known; then
    `if char_data.get("value") is not None: char.set_value(char_data["value"])` -/
def buildChar (norm : String → String) (tbl : Table) (d : CharD) (v0 : J) : Char :=
  let ty := norm d.type
  { type := ty, iid := d.iid, perms := d.perms, format := dFormat norm tbl d
    value := (match d.value with
      | some x => if x.isSome then coerce (dFormat norm tbl d) x else v0
      | none => v0)
    ev := .null
    description := cfg tbl ty d.description (·.description)
    unit := cfg tbl ty d.unit (·.unit)
    minValue := dMin norm tbl d, maxValue := dMax norm tbl d
    minStep := cfg tbl ty d.minStep (·.minStep)
    maxLen := .num 64
    validValues := dValid norm tbl d
    handle := cfg tbl ty d.handle (fun _ => none)
    disconnectedEvents := cfg tbl ty d.disconnectedEvents (fun _ => none)
    broadcastEvents := cfg tbl ty d.broadcastEvents (fun _ => none) }

/-- `Characteristic(service, type, iid=..., perms=..., **kwargs)` followed by the optional `set_value` -/
def loadChar (norm : String → String) (tbl : Table) (d : CharD) : Except Err Char :=
  match ctorValue norm tbl d with
  | .error e => .error e
  | .ok v0 => .ok (buildChar norm tbl d v0)

/-- a later `set_value` (an event, a poll result, a write echoed to the model) -/
def setValue (c : Char) (v : J) : Char := { c with value := coerce c.format v }

/-! ## Services and accessories -/

structure ServiceD where
  iid : Nat
  type : String
  chars : List CharD
  linked : Option (List Nat) := none    -- `none` = key absent
  deriving DecidableEq, Repr

structure Service where
  iid : Nat
  type : String
  chars : List Char
  linked : List Nat          -- the iids of the linked `Service` objects, in order
  deriving DecidableEq, Repr

structure AccessoryD where
  aid : Nat
  services : List ServiceD
  deriving DecidableEq, Repr

structure Accessory where
  aid : Nat
  services : List Service
  deriving DecidableEq, Repr

def serService (s : Service) : ServiceD :=
  { iid := s.iid, type := s.type, chars := s.chars.map serChar
    linked := if s.linked.isEmpty then none else some s.linked }

def serAccessory (a : Accessory) : AccessoryD := { aid := a.aid, services := a.services.map serService }

/-- first pass of `create_from_dict` over one service: `Service(accessory, type, iid=iid)` takes the given iid
    unless it is 0 (`iid or accessory.get_next_id()`); every characteristic evaluates
    `service.accessory.get_next_id()` as the (unused) default of its iid, so the counter moves on -/
def loadServiceShell (norm : String → String) (tbl : Table) (next : Nat) (d : ServiceD) : Except Err (Service × Nat) := do
  let (iid, next) := if d.iid = 0 then (next + 1, next + 1) else (d.iid, next)
  let chars ← d.chars.mapM (loadChar norm tbl)
  pure ({ iid := iid, type := norm d.type, chars := chars, linked := [] }, next + d.chars.length)

def loadShells (norm : String → String) (tbl : Table) : Nat → List ServiceD → Except Err (List Service)
  | _, [] => pure []
  | next, d :: ds => do
    let (s, next') ← loadServiceShell norm tbl next d
    let rest ← loadShells norm tbl next' ds
    pure (s :: rest)

/-- `accessory.services.iid(x)`: the dictionary keeps the LAST service registered under an iid -/
def hasIid (ss : List Service) (x : Nat) : Bool := ss.any (·.iid == x)

/-- append `target` to the links of the last service whose iid is `owner` -/
def addLink (ss : List Service) (owner target : Nat) : List Service :=
  match ss with
  | [] => []
  | s :: rest =>
    if s.iid = owner ∧ ¬ hasIid rest owner then { s with linked := s.linked ++ [target] } :: rest
    else s :: addLink rest owner target

/-- second pass: `for linked_service in service_data.get("linked", []): if linked_service: ...` -/
def linkOne (ss : List Service) (owner : Nat) : List Nat → Except Err (List Service)
  | [] => pure ss
  | l :: ls =>
    if l = 0 then linkOne ss owner ls
    else if hasIid ss owner ∧ hasIid ss l then linkOne (addLink ss owner l) owner ls
    else .error .keyError

def linkAll (ss : List Service) : List ServiceD → Except Err (List Service)
  | [] => pure ss
  | d :: ds => do
    let ss' ← linkOne ss d.iid (d.linked.getD [])
    linkAll ss' ds

/-- `Accessory.create_from_dict` -/
def loadAccessory (norm : String → String) (tbl : Table) (d : AccessoryD) : Except Err Accessory := do
  let shells ← loadShells norm tbl 0 d.services
  let ss ← linkAll shells d.services
  pure { aid := d.aid, services := ss }

/-! ## The cache entry and the write-through store (`CharacteristicCacheFile`) -/

/-- one entry of the characteristic cache -/
structure Entry (A : Type) where
  configNum : Nat
  accessories : A
  broadcastKey : Option String
  stateNum : Option Nat
  deriving DecidableEq, Repr

/-- the in-memory map: an association list keyed by the HomeKit id (latest binding first) -/
abbrev CacheMap (A : Type) := List (String × Entry A)

def CacheMap.get {A} (m : CacheMap A) (k : String) : Option (Entry A) := (m.find? (·.1 == k)).map (·.2)

inductive CacheOp (A : Type)
  | put (k : String) (e : Entry A)     -- async_create_or_update_map
  | del (k : String)                   -- async_delete_map
  deriving Repr

def applyOp {A} (m : CacheMap A) : CacheOp A → CacheMap A
  | .put k e => (k, e) :: m.filter (·.1 != k)
  | .del k => m.filter (·.1 != k)

/-- the file-backed cache: every operation rewrites the whole file (`_do_save`) -/
structure FileCache (A : Type) where
  mem : CacheMap A
  file : Option (CacheMap A)     -- what a parse of the file content yields; `none` = absent / unparsable
  deriving Repr

def FileCache.step {A} (c : FileCache A) (op : CacheOp A) : FileCache A :=
  let m := applyOp c.mem op
  { mem := m, file := some m }

/-- `CharacteristicCacheFile.__init__`: a missing, truncated or unparsable file is a cold cache -/
def FileCache.restart {A} (c : FileCache A) : FileCache A :=
  { mem := c.file.getD [], file := c.file }

end HapVerif.EntityMap
