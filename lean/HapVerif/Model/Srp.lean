import HapVerif.Bytes
import HapVerif.Gen.Srp

/-! # Model of `aiohomekit.crypto.srp.SrpClient` (SRP-6a, controller side)

The hash is a parameter (`H : Bytes → Bytes`), so the value theorems hold for any hash function;
the driver instantiates it with the executable SHA-512.  Group constants come from `Gen.Srp`. -/

namespace HapVerif.Srp
open HapVerif

/-- `to_byte_array(num)`: minimal big-endian bytes, empty for 0 -/
def toByteArray (n : Nat) : Bytes :=
  if h : n = 0 then [] else toByteArray (n / 256) ++ [UInt8.ofNat (n % 256)]
termination_by n
decreasing_by omega

/-- `pad_left(data, length)`: `bytes(length - len(data)) + data` (Python raises for a negative
    count; callers stay within the length - proved in C02_padding) -/
def padLeft (b : Bytes) (len : Nat) : Bytes := List.replicate (len - b.length) 0 ++ b

/-- `int.from_bytes(b, "big")` -/
def os2ip (b : Bytes) : Nat := beToNat b

/-- `pow(b, e, m)` by square-and-multiply (what CPython does, as a structural recursion) -/
def powMod (b e m : Nat) : Nat :=
  if h : e = 0 then 1 % m else
    let half := powMod b (e / 2) m
    let sq := half * half % m
    if e % 2 = 1 then sq * (b % m) % m else sq
termination_by e
decreasing_by omega

def xorBytes (a b : Bytes) : Bytes := List.zipWith (· ^^^ ·) a b

structure Group where
  N : Nat
  g : Nat
  k : Nat
  keyLen : Nat
  saltLen : Nat

def hapGroup : Group := ⟨Gen.Srp.N, Gen.Srp.g, Gen.Srp.k, Gen.Srp.keyLen, Gen.Srp.saltLen⟩

/-- `H_GROUP = H(N) xor H(g)` over the minimal byte forms -/
def hGroup (H : Bytes → Bytes) (G : Group) : Bytes := xorBytes (H (toByteArray G.N)) (H (toByteArray G.g))

structure Client where
  A_b : Bytes        -- get_public_key_bytes
  salt_b : Bytes
  x : Nat
  u : Nat
  S : Nat            -- get_shared_secret
  K : Bytes          -- get_session_key_bytes
  M1 : Bytes         -- get_proof_bytes
  expectM2 : Bytes   -- what verify_servers_proof compares with (as an integer)

/-- `SrpClient.get_shared_secret`: `pow(B - k*v, a + u*x, n)` with `v = pow(g, x, n)` and Python's sign-correct modular
    reduction of a negative base.  The exponent is NOT reduced (it may only ever be reduced modulo the group order). -/
def sharedSecret (B k g x n a u : Nat) : Nat :=
  let v := powMod g x n
  let base : Nat := (((B : Int) - (k : Int) * (v : Int)) % (n : Int)).toNat
  powMod base (a + u * x) n

/-- everything `SrpClient` computes for one exchange: identity `I`, password `P`, the salt and the
    server public key bytes as received, the client's private key `a` -/
def client (H : Bytes → Bytes) (G : Group) (I P salt Bb : Bytes) (a : Nat) : Client :=
  let A := powMod G.g a G.N
  let A_b := padLeft (toByteArray A) G.keyLen
  let salt_b := padLeft (toByteArray (os2ip salt)) G.saltLen
  let x := os2ip (H (salt_b ++ H (I ++ [58] ++ P)))
  let u := os2ip (H (A_b ++ Bb))
  let B := os2ip Bb
  let S := sharedSecret B G.k G.g x G.N a u
  let K := H (padLeft (toByteArray S) G.keyLen)
  let M1 := H (hGroup H G ++ H I ++ salt_b ++ A_b ++ Bb ++ K)
  ⟨A_b, salt_b, x, u, S, K, M1, H (A_b ++ M1 ++ K)⟩

/-- `verify_servers_proof_bytes(M_b)`: integer comparison -/
def accepts (c : Client) (M : Bytes) : Bool := os2ip c.expectM2 == os2ip M

end HapVerif.Srp
