import HapVerif.Model.Crypto.Abstract
import HapVerif.Model.Protocol

/-! # Model of `perform_pair_setup_part1` / `perform_pair_setup_part2` (controller side)

The SRP client is abstracted to what part 2 uses of it (`SrpView`): its public value, its proof,
the session key `K`, and its verdict on the accessory's proof (C02 is about those values). -/

namespace HapVerif.PairSetup
open HapVerif HapVerif.Tlv HapVerif.Protocol

inductive SErr
  | proto (e : PErr)
  | illegalData | invalidSignature | valueError | tlvParse | unicode
  deriving DecidableEq, Repr

structure SrpView where
  A_b : Bytes
  M1 : Bytes
  K : Bytes
  accepts : Bytes → Bool

def noncePad : Bytes := [0, 0, 0, 0]

def lift (r : Except PErr Unit) : Except SErr Unit :=
  match r with | .error e => .error (.proto e) | .ok () => .ok ()

/-- part 1, M2: returns (salt, accessory SRP public key) -/
def processM2 (m2 : Items) : Except SErr (Bytes × Bytes) := do
  lift (handleStateStep m2 [2])
  let some pk := lookup 3 m2 | .error (.proto .invalid)
  let some salt := lookup 2 m2 | .error (.proto .invalid)
  pure (salt, pk)

def m3 (s : SrpView) : Items := [(6, [3]), (3, s.A_b), (4, s.M1)]

def processM4 (s : SrpView) (m4 : Items) : Except SErr Unit := do
  lift (handleStateStep m4 [4])
  let some proof := lookup 4 m4 | .error (.proto .invalid)
  if !s.accepts proof then .error (.proto .auth)
  pure ()

def encKey (C : Crypto) (K : Bytes) : Bytes := C.hkdf K (str "Pair-Setup-Encrypt-Salt") (str "Pair-Setup-Encrypt-Info") 32
def iosX (C : Crypto) (K : Bytes) : Bytes :=
  C.hkdf K (str "Pair-Setup-Controller-Sign-Salt") (str "Pair-Setup-Controller-Sign-Info") 32
def accX (C : Crypto) (K : Bytes) : Bytes :=
  C.hkdf K (str "Pair-Setup-Accessory-Sign-Salt") (str "Pair-Setup-Accessory-Sign-Info") 32

def m5 (C : Crypto) (K iosId ltsk : Bytes) : Items :=
  let ltpk := C.edPub ltsk
  let sig := C.edSign ltsk (iosX C K ++ iosId ++ ltpk)
  let sub := encodeList [(1, iosId), (3, ltpk), (10, sig)]
  [(6, [5]), (5, C.aeadSeal (encKey C K) (noncePad ++ str "PS-Msg05") [] sub)]

structure Record where
  accessoryId : Bytes
  accessoryLTPK : Bytes
  iosId : Bytes
  iosLTSK : Bytes
  iosLTPK : Bytes
  deriving DecidableEq, Repr

def asciiOnly (b : Bytes) : Bool := b.all (· < 128)

def processM6 (C : Crypto) (K iosId ltsk : Bytes) (m6 : Items) : Except SErr Record := do
  lift (handleStateStep m6 [6])
  let some enc := lookup 5 m6 | .error (.proto .invalid)
  let some plain := C.aeadOpen (encKey C K) (noncePad ++ str "PS-Msg06") [] enc | .error .illegalData
  let d ← match decode none plain with
    | .ok d => pure d
    | .error _ => .error .tlvParse
  let some sig := lookup 10 d | .error (.proto .invalid)
  let some ident := lookup 1 d | .error (.proto .invalid)
  let some ltpk := lookup 3 d | .error (.proto .invalid)
  if ltpk.length ≠ 32 then .error .valueError
  if !C.edVerify ltpk (accX C K ++ ident ++ ltpk) sig then .error .invalidSignature
  if !asciiOnly ident then .error .unicode
  pure ⟨ident, ltpk, iosId, ltsk, C.edPub ltsk⟩

/-- part 2 as a whole: replies M4 and M6 -/
def part2 (C : Crypto) (s : SrpView) (iosId ltsk : Bytes) (m4 m6 : Items) : Except SErr Record := do
  processM4 s m4
  processM6 C s.K iosId ltsk m6

end HapVerif.PairSetup
