import HapVerif.Model.Crypto.Abstract
import HapVerif.Model.Protocol

/-! # Model of `get_session_keys` (pair-verify, controller side), `resume_m1` / `resume_m3`, and of
the key derivations at the three install sites (IP, CoAP, BLE) -/

namespace HapVerif.PairVerify
open HapVerif HapVerif.Tlv HapVerif.Protocol

inductive VErr
  | proto (e : PErr)            -- raised by handle_state_step / presence checks
  | invalidAuthTag | incorrectPairingId | invalidSignature
  | valueError                   -- wrong-length key handed to cryptography
  | tlvParse | unicode
  deriving DecidableEq, Repr

structure Pairing where
  accessoryId : Bytes       -- AccessoryPairingID (utf-8)
  accessoryLTPK : Bytes
  iosId : Bytes
  iosLTSK : Bytes

def noncePad : Bytes := [0, 0, 0, 0]

/-- M1 (no resume): State=1, PublicKey -/
def m1 (C : Crypto) (eph : Bytes) : Items := [(6, [1]), (3, C.dhPub eph)]

structure Verified where
  m3 : Items
  shared : Bytes
  accPk : Bytes
  sig : Bytes

/-- bytes valid as the UTF-8 identifier (`.decode()`): ASCII is what accessories send; anything
    else is treated as a decode error here (outside the model's domain, see harness) -/
def asciiOnly (b : Bytes) : Bool := b.all (· < 128)

/-- M2 processing of `get_session_keys` (non-resume path) -/
def processM2 (C : Crypto) (p : Pairing) (eph : Bytes) (m2 : Items) : Except VErr Verified := do
  match handleStateStep m2 [2] with
  | .error e => .error (.proto e)
  | .ok () => pure ()
  let some accPk := lookup 3 m2 | .error (.proto .invalid)
  let some enc := lookup 5 m2 | .error (.proto .invalid)
  if accPk.length ≠ 32 then .error .valueError
  let shared := C.dh eph accPk
  -- cryptography refuses an all-zero shared secret (low-order peer key) with ValueError
  if shared.all (· = 0) then .error .valueError
  let key := C.hkdf shared (str "Pair-Verify-Encrypt-Salt") (str "Pair-Verify-Encrypt-Info") 32
  let some plain := C.aeadOpen key (noncePad ++ str "PV-Msg02") [] enc | .error .invalidAuthTag
  let d1 ← match decode none plain with
    | .ok d => pure d
    | .error _ => .error .tlvParse
  let some ident := lookup 1 d1 | .error (.proto .invalid)
  let some sig := lookup 10 d1 | .error (.proto .invalid)
  if !asciiOnly ident then .error .unicode
  if ident ≠ p.accessoryId then .error .incorrectPairingId
  if p.accessoryLTPK.length ≠ 32 then .error .valueError
  let iosPk := C.dhPub eph
  if !C.edVerify p.accessoryLTPK (accPk ++ ident ++ iosPk) sig then .error .invalidSignature
  let iosSig := C.edSign p.iosLTSK (iosPk ++ p.iosId ++ accPk)
  let sub := encodeList [(1, p.iosId), (10, iosSig)]
  let enc3 := C.aeadSeal key (noncePad ++ str "PV-Msg03") [] sub
  pure ⟨[(6, [3]), (5, enc3)], shared, accPk, sig⟩

/-- M4 processing: only the state/error check -/
def processM4 (m4 : Items) : Except VErr Unit :=
  match handleStateStep m4 [4] with
  | .error e => .error (.proto e)
  | .ok () => .ok ()

structure Keys where
  sessionId : Bytes
  c2a : Bytes        -- controller → accessory ("Control-Write-Encryption-Key")
  a2c : Bytes        -- accessory → controller ("Control-Read-Encryption-Key")
  event : Bytes      -- CoAP events ("Event-Read-Encryption-Key")
  deriving DecidableEq, Repr

/-- the `derive` closure returned by the generator, applied at the install sites -/
def keysOf (C : Crypto) (shared : Bytes) : Keys :=
  ⟨C.hkdf shared (str "Pair-Verify-ResumeSessionID-Salt") (str "Pair-Verify-ResumeSessionID-Info") 8,
   C.hkdf shared (str "Control-Salt") (str "Control-Write-Encryption-Key") 32,
   C.hkdf shared (str "Control-Salt") (str "Control-Read-Encryption-Key") 32,
   C.hkdf shared (str "Event-Salt") (str "Event-Read-Encryption-Key") 32⟩

/-- the whole exchange against given replies; a failure carries no key material -/
def run (C : Crypto) (p : Pairing) (eph : Bytes) (m2 m4 : Items) : Except VErr (Items × Keys) := do
  let v ← processM2 C p eph m2
  processM4 m4
  pure (v.m3, keysOf C v.shared)

/-! ## session resumption (Table 6-27) -/

/-- `resume_m1(session_id, pub_key, derive)` where `derive salt info = hkdf prevShared salt info` -/
def resumeM1 (C : Crypto) (prevShared sessionId eph : Bytes) : Items :=
  let pk := C.dhPub eph
  let reqKey := C.hkdf prevShared (pk ++ sessionId) (str "Pair-Resume-Request-Info") 32
  [(6, [1]), (0, [6]), (3, pk), (14, sessionId), (5, C.aeadSeal reqKey (noncePad ++ str "PR-Msg01") [] [])]

/-- `resume_m3`: `none` = fall through to the full exchange; `some shared'` = resumed -/
def resumeM3 (C : Crypto) (prevShared eph : Bytes) (m2 : Items) : Option (Bytes × Bytes) :=
  match lookup 0 m2 with
  | none => none
  | some method =>
    if method = [] then none
    else if leToNat method ≠ 6 then none
    else match lookup 14 m2 with
      | none => none
      | some sid =>
        if sid = [] then none else
        match lookup 5 m2 with
        | none => none
        | some tag =>
          if tag = [] then none else
          let pk := C.dhPub eph
          let respKey := C.hkdf prevShared (pk ++ sid) (str "Pair-Resume-Response-Info") 32
          match C.aeadOpen respKey (noncePad ++ str "PR-Msg02") [] tag with
          | none => none
          | some plain =>
            if plain ≠ [] then none
            else some (sid, C.hkdf prevShared (pk ++ sid) (str "Pair-Resume-Shared-Secret-Info") 32)

/-- the resume branch of `get_session_keys` at M2: the state/error check runs first (`handle_state_step`), then
    `resume_m3`; `.ok none` = fall through to the full exchange -/
def verifyM2Resume (C : Crypto) (prevShared eph : Bytes) (m2 : Items) : Except VErr (Option (Bytes × Bytes)) :=
  match handleStateStep m2 [2] with
  | .error e => .error (.proto e)
  | .ok () => .ok (resumeM3 C prevShared eph m2)

end HapVerif.PairVerify
