import HapVerif.Bytes

/-! # Model of HAP PDU framing: `aiohomekit.pdu` (BLE), `_read_pdu` and `controller/coap/pdu.py` -/

namespace HapVerif.Pdu

inductive Err | struct | value | index | encryption
  deriving DecidableEq, Repr

def le16b (n : Nat) : Bytes := [UInt8.ofNat (n % 256), UInt8.ofNat (n / 256 % 256)]
def le16 (b : Bytes) : Nat := match b with | [x, y] => x.toNat + 256 * y.toNat | _ => 0

/-! ## BLE request side: `encode_pdu` -/

/-- continuation fragments: `for i in range(0, len(data), next_size)` with `next_size = fs - 2` -/
def conts (tid : UInt8) (sz : Nat) : Nat → Bytes → List Bytes
  | 0, _ => []
  | _, [] => []
  | fuel+1, d => (0x80 :: tid :: d.take sz) :: conts tid sz fuel (d.drop sz)

/-- `encode_pdu(opcode, tid, iid, data, fragment_size)` -/
def encodePdu (opcode tid : UInt8) (iid : Nat) (data : Bytes) (fs : Nat) : List Bytes :=
  let hdr : Bytes := [0, opcode, tid] ++ le16b iid
  if data = [] then [hdr]
  else (hdr ++ le16b data.length ++ data.take (fs - 7)) :: conts tid (fs - 2) data.length (data.drop (fs - 7))

/-! ## BLE response side: `decode_pdu`, `decode_pdu_continuation`, `_read_pdu` -/

/-- number of members of `PDUStatus` (0..6): `PDUStatus(status)` raises ValueError beyond -/
def bleStatusCount : Nat := 7

/-- `decode_pdu(expected_tid, data)` = (status, expected_length, body) -/
def decodeFirst (tid : UInt8) (data : Bytes) : Except Err (Nat × Nat × Bytes) :=
  match data with
  | _control :: t :: status :: rest =>
    if status.toNat ≥ bleStatusCount then .error .value
    else if t ≠ tid then .error .value
    else if data.length < 5 then .ok (status.toNat, 0, [])
    else .ok (status.toNat, le16 (rest.take 2), rest.drop 2)
  | _ => .error .struct

/-- `decode_pdu_continuation(expected_tid, data)` -/
def decodeCont (tid : UInt8) (data : Bytes) : Except Err Bytes :=
  match data with
  | control :: t :: rest =>
    if control.toNat &&& 0x80 = 0 then .error .value
    else if t ≠ tid then .error .value
    else .ok rest
  | _ => .error .struct

/-- the `while len(data) < expected_length` loop; `frags` are the successive GATT reads (already
    decrypted by `dec`, `none` = DecryptionError → EncryptionError).  Returns the outcome and the
    number of reads consumed. -/
def readLoop (tid : UInt8) (exp : Nat) : List (Option Bytes) → Bytes → Nat → Except Err Bytes × Nat
  | frags, data, n =>
    if data.length ≥ exp then (.ok data, n) else
    match frags with
    | [] => (.error .index, n)        -- harness ran out of scripted reads
    | none :: _ => (.error .encryption, n + 1)
    | some f :: rest =>
      match decodeCont tid f with
      | .error e => (.error e, n + 1)
      | .ok body => readLoop tid exp rest (data ++ body) (n + 1)

def readPdu (tid : UInt8) (frags : List (Option Bytes)) : Except Err (Nat × Bytes) × Nat :=
  match frags with
  | [] => (.error .index, 0)
  | none :: _ => (.error .encryption, 1)
  | some f :: rest =>
    match decodeFirst tid f with
    | .error e => (.error e, 1)
    | .ok (status, exp, data) =>
      match readLoop tid exp rest data 1 with
      | (.error e, n) => (.error e, n)
      | (.ok body, n) => (.ok (status, body), n)

/-! ## CoAP: `encode_all_pdus`, `decode_pdu`, `decode_all_pdus` -/

/-- per-item result: a body, or a status (`PDUStatus` value; 256 = TID_MISMATCH, 257 = BAD_CONTROL) -/
inductive Res | body (b : Bytes) | status (s : Nat)
  deriving DecidableEq, Repr

def coapEncodeOne (opcode : UInt8) (tid : Nat) (iid : Nat) (data : Bytes) : Bytes :=
  [0, opcode, UInt8.ofNat tid] ++ le16b iid ++ le16b data.length ++ data

def coapEncodeAll (opcode : UInt8) (items : List (Nat × Bytes)) : Bytes :=
  (items.zipIdx.map fun ((iid, data), idx) => coapEncodeOne opcode idx iid data).flatten

/-- CoAP `decode_pdu(expected_tid, data)` = (body_len, body | status) -/
def coapDecodeOne (tid : Nat) (data : Bytes) : Except Err (Nat × Res) :=
  match data with
  | control :: t :: status :: l0 :: l1 :: rest =>
    let bodyLen := l0.toNat + 256 * l1.toNat
    if status.toNat ≥ 7 then .error .value
    else if t.toNat ≠ tid then .ok (bodyLen, .status 256)
    else if status ≠ 0 then .ok (bodyLen, .status status.toNat)
    else if control.toNat &&& 0x0E ≠ 0x02 then .ok (bodyLen, .status 257)
    else .ok (bodyLen, .body (rest.take bodyLen))
  | _ => .error .struct

/-- `decode_all_pdus(starting_tid, data)` (do-while: at least one item is decoded) -/
def coapDecodeAll : Nat → Nat → Bytes → Except Err (List Res)
  | 0, _, _ => .ok []
  | fuel+1, tid, data =>
    match coapDecodeOne tid data with
    | .error e => .error e
    | .ok (bodyLen, r) =>
      if 5 + bodyLen ≥ data.length then .ok [r]
      else match coapDecodeAll fuel (tid + 1) (data.drop (5 + bodyLen)) with
        | .error e => .error e
        | .ok rs => .ok (r :: rs)

def coapDecode (startTid : Nat) (data : Bytes) : Except Err (List Res) :=
  coapDecodeAll (data.length + 1) startTid data

/-- the `for idx, result in enumerate(pdu_results): ids[idx]` zips of the CoAP read/write/subscribe
    result mappers: an error if there are more results than requested ids -/
def attributeTo {α} (ids : List α) (results : List Res) : Except Err (List (α × Res)) :=
  if results.length > ids.length then .error .index else .ok (ids.zip results)

end HapVerif.Pdu
