import HapVerif.Model.Srp

/-! Interpretation of the integer expressions the translator lifts out of `crypto/srp.py` (`Gen.Srp.E`):
Python integers are ℤ; `pow(b, e, m)` for `e ≥ 0`, `m > 0` is `(b mod m)^e mod m` with the sign-correct `%`. -/

namespace HapVerif.SrpGen
open HapVerif HapVerif.Srp HapVerif.Gen.Srp

abbrev Env := String → Int

/-- Python's `pow(b, e, m)` on the domain the client uses it (non-negative exponent, positive modulus) -/
def pyPowMod (b e m : Int) : Int := (powMod (b % m).toNat e.toNat m.toNat : Nat)

def eval (env : Env) (calls : Env) : E → Int
  | .var n => env n
  | .lit n => n
  | .call n => calls n
  | .add a b => eval env calls a + eval env calls b
  | .sub a b => eval env calls a - eval env calls b
  | .mul a b => eval env calls a * eval env calls b
  | .mod a b => eval env calls a % eval env calls b
  | .powmod b e m => pyPowMod (eval env calls b) (eval env calls e) (eval env calls m)

/-- run assignments in order: each binds its name in the environment -/
def exec (env : Env) (calls : Env) : List (String × E) → Env
  | [] => env
  | (n, e) :: rest =>
    let v := eval env calls e
    exec (fun m => if m = n then v else env m) calls rest

/-- the attributes of a client object as the source names them -/
def selfEnv (B k g x n a : Nat) : Env := fun s =>
  if s = "self.B" then B else if s = "self.k" then k else if s = "self.g" then g else
  if s = "self.x" then x else if s = "self.n" then n else if s = "self.a" then a else 0

def callEnv (u : Nat) : Env := fun s => if s = "self._calculate_u" then u else 0

end HapVerif.SrpGen
