import HapVerif.Proofs.Reconnect

/-! # Waiters and virtual time in the connection supervisor automaton (helper lemmas for C10) -/

namespace HapVerif.Reconnect

/-- `s'` is at the same instant as `s` and has no waiter that `s` did not have -/
def Frame (s s' : St) : Prop := s'.now = s.now ∧ ∀ w ∈ s'.waiters, w ∈ s.waiters

theorem Frame.refl (s : St) : Frame s s := ⟨rfl, fun _ h => h⟩

theorem Frame.trans {a b c : St} (h1 : Frame a b) (h2 : Frame b c) : Frame a c :=
  ⟨h2.1.trans h1.1, fun w hw => h1.2 w (h2.2 w hw)⟩

theorem frame_emit (s : St) (o : Obs) : Frame s (emit s o) := ⟨rfl, fun _ h => h⟩

theorem frame_drop (s : St) : Frame s (dropTransport s) := by
  unfold dropTransport
  split
  · exact Frame.refl s
  · split <;> exact ⟨rfl, fun _ h => h⟩

theorem frame_finish (s : St) (c : Conn) : Frame s (finish s c) := by
  unfold finish
  cases c <;> exact ⟨rfl, by simp [resolveWaiters]⟩

theorem frame_backoff (s : St) : Frame s (backoff s) := ⟨rfl, fun _ h => h⟩

theorem frame_popTcp (s : St) : Frame s (popTcp s).2 := by
  unfold popTcp; split <;> exact ⟨rfl, fun _ h => h⟩

theorem frame_popVer (s : St) : Frame s (popVer s).2 := by
  unfold popVer; split <;> exact ⟨rfl, fun _ h => h⟩

theorem frame_wrongId (s : St) : Frame s (wrongIdState s) := by
  unfold wrongIdState
  exact Frame.trans ⟨rfl, fun _ h => h⟩ (frame_drop _)

theorem frame_verdict (s : St) (v : Ver) : Frame s (verifyVerdict s v).1 := by
  cases v with
  | ok => exact Frame.trans (⟨rfl, fun _ h => h⟩ : Frame s { s with secure := true }) (frame_finish _ _)
  | auth => exact Frame.trans (frame_drop s) (frame_finish _ _)
  | fail => exact Frame.trans (frame_drop s) (frame_backoff _)
  | hang =>
    simp only [verifyVerdict]
    split
    · exact ⟨rfl, fun _ h => h⟩
    · exact frame_backoff s
  | okLost =>
    simp only [verifyVerdict]
    split
    · exact Frame.trans (⟨rfl, fun _ h => h⟩ : Frame s { s with secure := true }) (frame_finish _ _)
    · split
      · exact Frame.trans ⟨rfl, fun _ h => h⟩ (frame_backoff _)
      · exact frame_backoff s
  | wrongId =>
    simp only [verifyVerdict]
    split
    · exact frame_wrongId s
    · exact Frame.trans (frame_wrongId s) (frame_backoff _)

theorem frame_tcpPhase (as : List Host) (s : St) : Frame s (tcpPhase as s).1 := by
  induction as generalizing s with
  | nil => exact frame_backoff s
  | cons a as ih =>
    simp only [tcpPhase]
    have h1 : Frame s (popTcp (emit s (.attempt s.now (a :: as)))).2 :=
      Frame.trans (frame_emit s _) (frame_popTcp _)
    generalize popTcp (emit s (.attempt s.now (a :: as))) = p at h1
    obtain ⟨o, s2⟩ := p
    cases o with
    | refused => exact Frame.trans h1 (ih s2)
    | timeout => exact Frame.trans h1 ⟨rfl, fun _ h => h⟩
    | ok pick =>
      simp only
      refine Frame.trans h1 (Frame.trans (Frame.trans ?_ (frame_popVer _)) (frame_verdict _ _))
      exact ⟨rfl, fun _ h => h⟩

theorem frame_refresh (s : St) : Frame s (refreshHosts s) := by
  unfold refreshHosts
  split
  · split <;> exact ⟨rfl, fun _ h => h⟩
  · exact Frame.refl s

theorem frame_prepare (s : St) : Frame s (prepare s).1 := by
  simp only [prepare]
  exact Frame.trans (Frame.trans (⟨rfl, fun _ h => h⟩ : Frame s { s with count0 := s.failed.length, secure := false })
    (frame_refresh _)) ⟨rfl, fun _ h => h⟩

theorem frame_loopTop (fuel : Nat) (s : St) : Frame s (loopTop fuel s) := by
  induction fuel generalizing s with
  | zero => exact frame_finish s _
  | succ n ih =>
    simp only [loopTop]
    split
    · exact frame_finish s _
    · have h1 := Frame.trans (frame_prepare s) (frame_tcpPhase (prepare s).2 (prepare s).1)
      generalize tcpPhase (prepare s).2 (prepare s).1 = r at h1
      obtain ⟨s', again⟩ := r
      cases again with
      | true => simp only [if_true]; exact Frame.trans h1 (ih s')
      | false => simpa using h1

theorem frame_startConnector (s : St) : Frame s (startConnector s) := by
  unfold startConnector
  split
  · exact Frame.refl s
  · exact Frame.trans ⟨rfl, fun _ h => h⟩ (frame_loopTop _ _)

theorem frame_startReconnecting (s : St) : Frame s (startReconnecting s).1 := by
  unfold startReconnecting
  split
  · exact Frame.refl s
  · exact Frame.trans ⟨rfl, fun _ h => h⟩ (frame_startConnector _)

theorem frame_reconnectSoon (s : St) : Frame s (reconnectSoon s) := by
  unfold reconnectSoon
  split
  · exact frame_loopTop _ _
  · exact frame_startReconnecting s

theorem frame_connectorTimer (s : St) : Frame s (connectorTimer s) := by
  unfold connectorTimer
  split
  · exact frame_loopTop _ _
  · rename_i t rest hc
    have h1 := frame_tcpPhase rest s
    generalize tcpPhase rest s = r at h1
    obtain ⟨s', again⟩ := r
    cases again with
    | true => simp only [if_true]; exact Frame.trans h1 (frame_loopTop _ _)
    | false => simpa using h1
  · exact Frame.trans (frame_drop s) (frame_backoff _)
  · exact Frame.refl s

theorem frame_stopConnector (s : St) : Frame s (stopConnector s) := by
  unfold stopConnector
  split
  · exact frame_finish s _
  · exact frame_finish s _
  · exact Frame.trans (frame_drop s) (frame_finish _ _)
  · exact Frame.refl s

theorem frame_closeConn (s : St) : Frame s (closeConn s) := by
  simp only [closeConn]
  exact Frame.trans (Frame.trans (Frame.trans (⟨rfl, fun _ h => h⟩ : Frame s { s with closing := true })
    (frame_stopConnector _)) (frame_drop _)) ⟨rfl, fun _ h => h⟩

/-- pending waiters are never overdue and never older than the pairing-level timeout -/
def TInv (s : St) : Prop :=
  ∀ w ∈ s.waiters, s.now ≤ w.due ∧ w.deadline ≤ s.now + consts.ensureTimeout

theorem tinv_frame {s s' : St} (h : TInv s) (f : Frame s s') : TInv s' := by
  intro w hw
  have := h w (f.2 w hw)
  rw [f.1]; exact this

theorem Waiter.due_le_deadline (w : Waiter) : w.due ≤ w.deadline := by
  unfold Waiter.due; split
  · exact Nat.min_le_right _ _
  · exact Nat.le_refl _

theorem tinv_fire (s : St) (t : Time) (h : TInv s) : TInv (fireWaiters s t) := by
  intro w hw
  simp only [fireWaiters, List.mem_filter, decide_eq_true_eq] at hw
  obtain ⟨h1, h2⟩ := h w hw.1
  have h3 := hw.2
  simp only [fireWaiters]
  unfold Time at *
  constructor
  · omega
  · omega

theorem tinv_advanceTo (fuel : Nat) (target : Time) (s : St) (h : TInv s) : TInv (advanceTo fuel target s) := by
  induction fuel generalizing s with
  | zero => exact tinv_fire s target h
  | succ n ih =>
    simp only [advanceTo]
    split
    · split
      · exact ih _ (tinv_frame (tinv_fire s _ h) (frame_connectorTimer _))
      · exact tinv_fire s target h
    · exact tinv_fire s target h

theorem tinv_step (s : St) (e : Ev) (h : TInv s) : TInv (step s e) := by
  cases e with
  | adv dt => exact tinv_advanceTo _ _ _ h
  | ensure id own =>
    simp only [step]
    split
    · exact tinv_frame h (frame_emit _ _)
    · refine tinv_frame ?_ (frame_startReconnecting _)
      intro w hw
      simp only [List.mem_append, List.mem_singleton] at hw
      rcases hw with hw | rfl
      · exact h w hw
      · refine ⟨?_, Nat.le_refl _⟩
        simp only [Waiter.due]
        cases own with
        | none => simp
        | some o => simp
  | cancelW id =>
    intro w hw
    simp only [step, List.mem_filter] at hw
    exact h w hw.1
  | soon =>
    simp only [step]
    split
    · exact h
    · exact tinv_frame h (frame_reconnectSoon s)
  | descr hs =>
    simp only [step]
    split
    · exact h
    · exact tinv_frame (s := { s with desc := some hs }) h (frame_reconnectSoon _)
  | close => exact tinv_frame h (frame_closeConn s)
  | shutdown => exact tinv_frame (s := { s with shutdown := true }) h (frame_closeConn _)
  | pushTcp o => exact h
  | pushVer v => exact h
  | drop c =>
    simp only [step]
    split
    · exact h
    · split
      · exact h
      · split
        · exact tinv_frame (s := { s with open_ := s.open_.filter (· ≠ c), current := none }) h (frame_backoff _)
        · split
          · exact h
          · exact tinv_frame (s := { s with open_ := s.open_.filter (· ≠ c), current := none }) h
              (frame_startConnector _)

theorem tinv_run (hosts : List Host) (evs : List Ev) : TInv (run (init hosts) evs) := by
  have : ∀ s, TInv s → TInv (run s evs) := by
    induction evs with
    | nil => intro s h; exact h
    | cons e es ih => intro s h; exact ih _ (tinv_step s e h)
  exact this _ (by intro w hw; simp [init] at hw)

/-- after `advanceTo … target` nothing that was due by `target` is still pending -/
theorem advanceTo_fires (fuel : Nat) (target : Time) (s : St) :
    ∀ w ∈ (advanceTo fuel target s).waiters, target < w.due := by
  have hfire : ∀ s' : St, ∀ w ∈ (fireWaiters s' target).waiters, target < w.due := by
    intro s' w hw
    simp only [fireWaiters, List.mem_filter, decide_eq_true_eq] at hw
    have := hw.2
    unfold Time at *
    omega
  induction fuel generalizing s with
  | zero => exact hfire s
  | succ n ih =>
    simp only [advanceTo]
    split
    · split
      · exact ih _
      · exact hfire s
    · exact hfire s

end HapVerif.Reconnect
