import HapVerif.Proofs.ReconnectLive

/-! # After `close()` / `shutdown()` no connection attempt is made (helper lemmas for C10) -/

namespace HapVerif.Reconnect

def isAttempt : Obs → Bool
  | .attempt _ _ => true
  | _ => false

/-- the connection attempts recorded so far -/
def attempts (s : St) : List Obs := s.obs.filter isAttempt

/-- an event that (re)starts connecting: a caller asking for the connection, or zeroconf seeing the device -/
def Ev.isTrigger : Ev → Bool
  | .ensure _ _ | .soon | .descr _ => true
  | _ => false

theorem timer_none_of_not_live (c : Conn) (h : c.live = false) : c.timer = none := by
  cases c <;> simp_all [Conn.live, Conn.timer]

theorem attempts_fire (s : St) (t : Time) : attempts (fireWaiters s t) = attempts s := by
  simp only [attempts, fireWaiters, List.filter_append]
  have : ∀ l : List Waiter, (l.map (fun w => Obs.waiter w.id w.outcome w.due)).filter isAttempt = [] := by
    intro l; induction l <;> simp_all [isAttempt]
  rw [this]; simp

theorem advanceTo_idle (fuel : Nat) (target : Time) (s : St) (h : s.conn.live = false) :
    advanceTo fuel target s = fireWaiters s target := by
  cases fuel with
  | zero => rfl
  | succ n => simp [advanceTo, timer_none_of_not_live _ h]

theorem attempts_drop (s : St) : attempts (dropTransport s) = attempts s := by
  unfold dropTransport
  split
  · rfl
  · split
    · simp [attempts, emit, List.filter_append, isAttempt]
    · rfl

theorem stopConnector_idle (s : St) (h : s.conn.live = false) : stopConnector s = s := by
  unfold stopConnector
  cases hc : s.conn <;> simp_all [Conn.live]

/-- while `closing` is set, only a trigger can cause a connection attempt; everything else - time passing,
    the accessory closing connections, callers being cancelled, a repeated close - causes none -/
theorem silent_step (s : St) (e : Ev) (h : Inv s) (hcl : s.closing = true)
    (he : e.isTrigger = false ∨ s.shutdown = true) :
    attempts (step s e) = attempts s ∧ (step s e).closing = true ∧
    ((step s e).shutdown = s.shutdown ∨ e = .shutdown) := by
  have hnl := h.clo hcl
  cases e with
  | adv dt =>
    simp only [step]
    rw [advanceTo_idle _ _ _ hnl]
    exact ⟨attempts_fire _ _, hcl, Or.inl rfl⟩
  | ensure id own =>
    rcases he with he | he
    · simp [Ev.isTrigger] at he
    · have hs : step s (.ensure id own) = emit s (.waiter id .ok s.now) := by simp [step, he]
      rw [hs]
      exact ⟨by simp [attempts, emit, List.filter_append, isAttempt], hcl, Or.inl rfl⟩
  | cancelW id =>
    refine ⟨?_, hcl, Or.inl rfl⟩
    simp only [step, attempts, List.filter_append]
    have : ∀ l : List Waiter, (l.map (fun w => Obs.waiter w.id .cancelled s.now)).filter isAttempt = [] := by
      intro l; induction l <;> simp_all [isAttempt]
    rw [this]; simp
  | soon =>
    rcases he with he | he
    · simp [Ev.isTrigger] at he
    · have hs : step s .soon = s := by simp [step, he]
      rw [hs]; exact ⟨rfl, hcl, Or.inl rfl⟩
  | descr hs =>
    rcases he with he | he
    · simp [Ev.isTrigger] at he
    · have hs' : step s (.descr hs) = s := by simp [step, he]
      rw [hs']; exact ⟨rfl, hcl, Or.inl rfl⟩
  | close =>
    simp only [step, closeConn]
    have : ({ s with closing := true } : St) = s := by
      cases s; simp_all
    rw [this, stopConnector_idle s hnl]
    obtain ⟨d1, d2, _, d4, d5, d6, d7, d8, _⟩ := dropTransport_spec s h.opn
    exact ⟨attempts_drop s, by simp [d6, hcl], Or.inl (by simp [d8])⟩
  | shutdown =>
    simp only [step, closeConn]
    have hnl' : ({ s with shutdown := true, closing := true } : St).conn.live = false := hnl
    rw [stopConnector_idle _ hnl']
    have hopn : ({ s with shutdown := true, closing := true } : St).open_ =
        ({ s with shutdown := true, closing := true } : St).current.toList := h.opn
    obtain ⟨d1, d2, _, d4, d5, d6, d7, d8, _⟩ := dropTransport_spec _ hopn
    exact ⟨attempts_drop _, by simp [d6], Or.inr trivial⟩
  | pushTcp o => exact ⟨rfl, hcl, Or.inl rfl⟩
  | pushVer v => exact ⟨rfl, hcl, Or.inl rfl⟩
  | drop c =>
    simp only [step]
    split
    · exact ⟨rfl, hcl, Or.inl rfl⟩
    · split
      · exact ⟨rfl, hcl, Or.inl rfl⟩
      · split
        · rename_i t c' hc
          simp [hc, Conn.live] at hnl
        · first
            | exact ⟨rfl, hcl, Or.inl rfl⟩
            | (split
               · exact ⟨rfl, hcl, Or.inl rfl⟩
               · rename_i hx; exact absurd hcl hx)

theorem dropTransport_open_nil (s : St) (h : s.open_ = []) : (dropTransport s).open_ = [] := by
  unfold dropTransport
  split
  · exact h
  · split <;> simp [emit, h]

/-- while `closing` is set and nothing is open, nothing opens unless a trigger arrives -/
theorem closed_step (s : St) (e : Ev) (h : Inv s) (hcl : s.closing = true)
    (he : e.isTrigger = false ∨ s.shutdown = true) (ho : s.open_ = []) : (step s e).open_ = [] := by
  have hnl := h.clo hcl
  cases e with
  | adv dt =>
    simp only [step]
    rw [advanceTo_idle _ _ _ hnl]
    exact ho
  | ensure id own =>
    rcases he with he | he
    · simp [Ev.isTrigger] at he
    · have hs : step s (.ensure id own) = emit s (.waiter id .ok s.now) := by simp [step, he]
      rw [hs]; exact ho
  | cancelW id => exact ho
  | soon =>
    rcases he with he | he
    · simp [Ev.isTrigger] at he
    · have hs : step s .soon = s := by simp [step, he]
      rw [hs]; exact ho
  | descr hs =>
    rcases he with he | he
    · simp [Ev.isTrigger] at he
    · have hs' : step s (.descr hs) = s := by simp [step, he]
      rw [hs']; exact ho
  | close =>
    simp only [step, closeConn]
    have : ({ s with closing := true } : St) = s := by
      cases s; simp_all
    rw [this, stopConnector_idle s hnl]
    exact dropTransport_open_nil s ho
  | shutdown =>
    simp only [step, closeConn]
    have hnl' : ({ s with shutdown := true, closing := true } : St).conn.live = false := hnl
    rw [stopConnector_idle _ hnl']
    exact dropTransport_open_nil _ ho
  | pushTcp o => exact ho
  | pushVer v => exact ho
  | drop c =>
    have : step s (.drop c) = s := by simp [step, ho]
    rw [this]; exact ho

end HapVerif.Reconnect
