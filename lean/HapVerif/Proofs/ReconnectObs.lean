import HapVerif.Proofs.Reconnect

/-! # The observation log only grows (helper lemmas for C10) -/

namespace HapVerif.Reconnect

/-- `s'` extends the log of `s` -/
def Ext (s s' : St) : Prop := ∃ rest, s'.obs = s.obs ++ rest

theorem Ext.refl (s : St) : Ext s s := ⟨[], by simp⟩

theorem Ext.trans {a b c : St} (h1 : Ext a b) (h2 : Ext b c) : Ext a c := by
  obtain ⟨r1, h1⟩ := h1
  obtain ⟨r2, h2⟩ := h2
  exact ⟨r1 ++ r2, by rw [h2, h1, List.append_assoc]⟩

theorem Ext.same {s s' : St} (h : s'.obs = s.obs) : Ext s s' := ⟨[], by simp [h]⟩

theorem ext_emit (s : St) (o : Obs) : Ext s (emit s o) := ⟨[o], rfl⟩

theorem ext_drop (s : St) : Ext s (dropTransport s) := by
  unfold dropTransport
  split
  · exact Ext.refl s
  · split
    · exact ⟨[_], rfl⟩
    · exact Ext.same rfl

theorem ext_finish (s : St) (c : Conn) : Ext s (finish s c) := by
  unfold finish
  cases c <;> exact ⟨_, rfl⟩

theorem ext_backoff (s : St) : Ext s (backoff s) := ⟨[_], rfl⟩

theorem ext_popTcp (s : St) : Ext s (popTcp s).2 := by
  unfold popTcp; split <;> exact Ext.same rfl

theorem ext_popVer (s : St) : Ext s (popVer s).2 := by
  unfold popVer; split <;> exact Ext.same rfl

theorem ext_wrongId (s : St) : Ext s (wrongIdState s) := by
  unfold wrongIdState
  exact Ext.trans (Ext.same rfl) (ext_drop _)

theorem ext_verdict (s : St) (v : Ver) : Ext s (verifyVerdict s v).1 := by
  cases v with
  | ok => exact Ext.trans (Ext.same rfl : Ext s { s with secure := true }) (ext_finish _ _)
  | auth => exact Ext.trans (ext_drop s) (ext_finish _ _)
  | fail => exact Ext.trans (ext_drop s) (ext_backoff _)
  | hang =>
    simp only [verifyVerdict]
    split
    · exact Ext.same rfl
    · exact ext_backoff s
  | okLost =>
    simp only [verifyVerdict]
    split
    · exact Ext.trans (Ext.same rfl : Ext s { s with secure := true }) (ext_finish _ _)
    · split
      · exact Ext.trans (Ext.same rfl) (ext_backoff _)
      · exact ext_backoff s
  | wrongId =>
    simp only [verifyVerdict]
    split
    · exact ext_wrongId s
    · exact Ext.trans (ext_wrongId s) (ext_backoff _)

/-- everything `tcpPhase` records comes after the attempt it records first -/
theorem ext_tcpPhase (as : List Host) (s : St) :
    Ext s (tcpPhase as s).1 ∧
    ∀ a as', as = a :: as' → Ext (emit s (.attempt s.now (a :: as'))) (tcpPhase as s).1 := by
  induction as generalizing s with
  | nil => exact ⟨ext_backoff s, fun _ _ h => by cases h⟩
  | cons a as ih =>
    have key : Ext (emit s (.attempt s.now (a :: as))) (tcpPhase (a :: as) s).1 := by
      simp only [tcpPhase]
      have h1 := ext_popTcp (emit s (.attempt s.now (a :: as)))
      generalize popTcp (emit s (.attempt s.now (a :: as))) = p at h1
      obtain ⟨o, s2⟩ := p
      cases o with
      | refused => exact Ext.trans h1 (ih s2).1
      | timeout => exact Ext.trans h1 (Ext.same rfl)
      | ok pick =>
        simp only
        refine Ext.trans h1 (Ext.trans (Ext.trans ?_ (ext_popVer _)) (ext_verdict _ _))
        exact ⟨[_], rfl⟩
    refine ⟨Ext.trans (ext_emit _ _) key, ?_⟩
    intro a' as' h
    cases h
    exact key

end HapVerif.Reconnect
