import HapVerif.Model.CoapEvent
import HapVerif.Proofs.Srp

namespace HapVerif.CoapEventP
open HapVerif HapVerif.CoapEvent

theorem encRec_length (r : Rec) : (encRec r).length = 5 + r.body.length := by
  simp [encRec, natToLe_length]; omega

theorem encode_length_ge (rs : List Rec) : 5 * rs.length ≤ (encode rs).length := by
  induction rs with
  | nil => simp [encode]
  | cons r rest ih =>
    simp only [encode, List.flatMap_cons, List.length_append, List.length_cons] at ih ⊢
    have := encRec_length r
    omega

theorem encode_isEmpty (rs : List Rec) : (encode rs).isEmpty = rs.isEmpty := by
  cases rs with
  | nil => rfl
  | cons r rest =>
    have h := encode_length_ge (r :: rest)
    simp only [List.length_cons] at h
    cases he : encode (r :: rest) with
    | nil => rw [he] at h; simp at h
    | cons _ _ => rfl

theorem le16_natToLe (n : Nat) (h : n < 65536) (tail : Bytes) : le16 (natToLe 2 n ++ tail) = n := by
  unfold le16
  have : (natToLe 2 n ++ tail).take 2 = natToLe 2 n := by
    rw [List.take_append_of_le_length (by simp [natToLe_length])]
    exact List.take_of_length_le (by simp [natToLe_length])
  rw [this]
  exact Srp.natToLe_val 2 n (by norm_num; exact h)

theorem loop_encode (rs : List Rec) (hne : rs ≠ []) (hwf : ∀ r ∈ rs, WF r) :
    ∀ fuel, rs.length ≤ fuel → loop fuel (encode rs) = (rs, .ok) := by
  induction rs with
  | nil => exact absurd rfl hne
  | cons r rest ih =>
    intro fuel hf
    cases fuel with
    | zero => simp at hf
    | succ fuel =>
      obtain ⟨hi, hl⟩ := hwf r (by simp)
      have henc : encode (r :: rest) = 0 :: (natToLe 2 r.iid ++ (natToLe 2 r.body.length ++ (r.body ++ encode rest))) := by
        simp [encode, encRec, List.append_assoc]
      rw [henc]
      unfold loop
      have hlen : ¬ (0 :: (natToLe 2 r.iid ++ (natToLe 2 r.body.length ++ (r.body ++ encode rest)))).length < 5 := by
        simp [natToLe_length]; omega
      simp only [hlen, ↓reduceIte]
      have d1 : (0 :: (natToLe 2 r.iid ++ (natToLe 2 r.body.length ++ (r.body ++ encode rest)))).drop 1
          = natToLe 2 r.iid ++ (natToLe 2 r.body.length ++ (r.body ++ encode rest)) := rfl
      have d3 : (0 :: (natToLe 2 r.iid ++ (natToLe 2 r.body.length ++ (r.body ++ encode rest)))).drop 3
          = natToLe 2 r.body.length ++ (r.body ++ encode rest) := by
        show (natToLe 2 r.iid ++ _).drop 2 = _
        rw [List.drop_append_of_le_length (by simp [natToLe_length]), List.drop_of_length_le (by simp [natToLe_length])]
        rfl
      have d5 : ∀ k, (0 :: (natToLe 2 r.iid ++ (natToLe 2 r.body.length ++ (r.body ++ encode rest)))).drop (5 + k)
          = (r.body ++ encode rest).drop k := by
        intro k
        rw [show 5 + k = (4 + k) + 1 by omega, List.drop_succ_cons]
        rw [List.drop_append (l₁ := natToLe 2 r.iid)]
        simp only [natToLe_length]
        have : (natToLe 2 r.iid).drop (4 + k) = [] := List.drop_of_length_le (by simp [natToLe_length]; omega)
        rw [this, List.nil_append, show 4 + k - 2 = 2 + k by omega, List.drop_append (l₁ := natToLe 2 r.body.length)]
        simp only [natToLe_length]
        have : (natToLe 2 r.body.length).drop (2 + k) = [] := List.drop_of_length_le (by simp [natToLe_length])
        rw [this, List.nil_append, show 2 + k - 2 = k by omega]
      rw [d1, d3, le16_natToLe _ hi, le16_natToLe _ hl]
      have d50 := d5 0
      simp only [Nat.add_zero, List.drop_zero] at d50
      rw [d50, d5 r.body.length]
      have hb : (r.body ++ encode rest).take r.body.length = r.body := by
        rw [List.take_append_of_le_length (Nat.le_refl _)]; exact List.take_of_length_le (Nat.le_refl _)
      have hr : (r.body ++ encode rest).drop r.body.length = encode rest := by
        rw [List.drop_append_of_le_length (Nat.le_refl _), List.drop_of_length_le (Nat.le_refl _), List.nil_append]
      rw [hb, hr, encode_isEmpty]
      cases rest with
      | nil => rfl
      | cons r2 rest2 =>
        simp only [List.isEmpty_cons, Bool.false_eq_true, ↓reduceIte]
        rw [ih (by simp) (fun x hx => hwf x (List.mem_cons_of_mem _ hx)) fuel (by simpa using hf)]

end HapVerif.CoapEventP
