import HapVerif.Model.EntityMap

/-! # Lemmas for the accessory-database round trip (C20) -/

namespace HapVerif.EntityMap

variable (norm : String → String) (tbl : Table)

/-- the table's default for a key (what `_get_configuration` returns when the key was not passed) -/
abbrev tblDefault (ty : String) (sel : Meta → Option J) : J := cfg tbl ty none sel

@[simp] theorem cfg_some (ty : String) (v : J) (sel) : cfg tbl ty (some v) sel = v := rfl

@[simp] theorem cfg_none_noTbl (ty : String) : cfg tbl ty none (fun _ => none) = .null := by
  unfold cfg; cases tbl ty <;> rfl

theorem isSome_false {v : J} (h : v.isSome = false) : v = .null := by
  simpa [J.isSome] using h

theorem isSome_true {v : J} (h : v.isSome = true) : v ≠ .null := by
  simpa [J.isSome] using h

theorem cfg_emit_noTbl (ty : String) (v : J) : cfg tbl ty (emitIf v.isSome v) (fun _ => none) = v := by
  unfold emitIf
  cases h : v.isSome
  · simp [isSome_false h]
  · simp

theorem cfg_emit_tbl (ty : String) (v : J) (sel) (h : v = .null → tblDefault tbl ty sel = .null) :
    cfg tbl ty (emitIf v.isSome v) sel = v := by
  unfold emitIf
  cases hs : v.isSome
  · have hv := isSome_false hs
    simp only [Bool.false_eq_true, ↓reduceIte]
    rw [hv]; exact h hv
  · simp

theorem cfg_emit_truthy (ty : String) (v : J) (sel) (h : v.truthy = false → v = tblDefault tbl ty sel) :
    cfg tbl ty (emitIf v.truthy v) sel = v := by
  unfold emitIf
  cases hs : v.truthy
  · simp only [Bool.false_eq_true, ↓reduceIte]; exact (h hs).symm
  · simp

theorem coerce_idem (f v : J) : coerce f (coerce f v) = coerce f v := by
  unfold coerce; split <;> simp [J.truthy]

theorem coerce_ne_null (f v : J) (h : v ≠ .null) : coerce f v ≠ .null := by
  unfold coerce; split <;> simp [h]

/-- **Normal form** of a characteristic object relative to the metadata table: what every object built by
    `create_from_dict` from a clean dictionary satisfies (`loadChar_NF`), what `set_value` preserves
    (`setValue_NF`), and what makes the round trip exact (`loadChar_serChar`). -/
structure NF (c : Char) : Prop where
  type_norm : norm c.type = c.type
  ev_none : c.ev = .null
  maxLen64 : c.maxLen = .num 64
  desc : c.description.truthy = false → c.description = tblDefault tbl c.type (·.description)
  unit : c.unit.truthy = false → c.unit = tblDefault tbl c.type (·.unit)
  minV : c.minValue = .null → tblDefault tbl c.type (·.minValue) = .null
  maxV : c.maxValue = .null → tblDefault tbl c.type (·.maxValue) = .null
  minS : c.minStep = .null → tblDefault tbl c.type (·.minStep) = .null
  value_pr : c.perms.contains "pr" = true →
    ∃ v0, initialValue c.format c.validValues c.minValue c.maxValue = .ok v0 ∧
      ((c.value ≠ .null ∧ coerce c.format c.value = c.value) ∨ (c.value = .null ∧ v0 = .null))
  value_nopr : c.perms.contains "pr" = false → c.value = .null

/-- **Round trip of one characteristic**: an object in normal form is read back unchanged - every attribute,
    not just the listed ones. -/
theorem loadChar_serChar (c : Char) (h : NF norm tbl c) : loadChar norm tbl (serChar c) = .ok c := by
  obtain ⟨ht, hev, hml, hd, hu, hmin, hmax, hstep, hpr, hnopr⟩ := h
  rcases c with ⟨type, iid, perms, format, value, ev, description, unit, minValue, maxValue, minStep, maxLen,
    validValues, handle, disconnectedEvents, broadcastEvents⟩
  simp only at ht hev hml hd hu hmin hmax hstep hpr hnopr
  subst hev hml
  have e1 : dFormat norm tbl (serChar ⟨type, iid, perms, format, value, .null, description, unit, minValue, maxValue,
      minStep, .num 64, validValues, handle, disconnectedEvents, broadcastEvents⟩) = format := by
    simp only [dFormat, serChar, cfg_some]
  have e2 : dValid norm tbl (serChar ⟨type, iid, perms, format, value, .null, description, unit, minValue, maxValue,
      minStep, .num 64, validValues, handle, disconnectedEvents, broadcastEvents⟩) = validValues := by
    simp only [dValid, serChar, ht, cfg_emit_noTbl]
  have e3 : dMin norm tbl (serChar ⟨type, iid, perms, format, value, .null, description, unit, minValue, maxValue,
      minStep, .num 64, validValues, handle, disconnectedEvents, broadcastEvents⟩) = minValue := by
    simp only [dMin, serChar, ht, cfg_emit_tbl _ _ _ _ hmin]
  have e4 : dMax norm tbl (serChar ⟨type, iid, perms, format, value, .null, description, unit, minValue, maxValue,
      minStep, .num 64, validValues, handle, disconnectedEvents, broadcastEvents⟩) = maxValue := by
    simp only [dMax, serChar, ht, cfg_emit_tbl _ _ _ _ hmax]
  unfold loadChar ctorValue
  rw [e1, e2, e3, e4]
  simp only [buildChar, e1, e2, e3, e4]
  simp only [serChar, ht, cfg_emit_noTbl, cfg_emit_tbl _ _ _ _ hstep, cfg_emit_truthy _ _ _ _ hd,
    cfg_emit_truthy _ _ _ _ hu]
  rcases Bool.eq_false_or_eq_true (perms.contains "pr") with hp | hp
  · obtain ⟨v0, hv0, hcase⟩ := hpr hp
    simp only [hp, ↓reduceIte, hv0, emitIf]
    rcases hcase with ⟨hne, hco⟩ | ⟨hnull, hv0n⟩
    · have : value.isSome = true := by simpa [J.isSome] using hne
      simp [this, hco]
    · subst hnull hv0n
      simp [J.isSome]
  · have hv := hnopr hp
    subst hv
    have hp' : "pr" ∉ perms := by simpa using hp
    simp [emitIf, hp']

/-- what makes a characteristic dictionary *clean*: optional keys, when present, carry a usable value
    (`"description": ""`, `"minValue": null`, or a value on a characteristic without the read permission are
    what an accessory database does not contain; each is run on the real code by the harness). -/
structure Clean (d : CharD) : Prop where
  desc : ∀ v, d.description = some v → v.truthy = true
  unit : ∀ v, d.unit = some v → v.truthy = true
  minV : ∀ v, d.minValue = some v → v ≠ .null
  maxV : ∀ v, d.maxValue = some v → v ≠ .null
  minS : ∀ v, d.minStep = some v → v ≠ .null
  value : ∀ v, d.value = some v → v ≠ .null → d.perms.contains "pr" = true

/-- a bool characteristic declares no valid-values / range (so its constructor default is a bool) -/
def BoolPlain (c : Char) : Prop :=
  c.format = .str "bool" → c.validValues.truthy = false ∧ c.minValue.truthy = false ∧ c.maxValue.truthy = false

theorem initialValue_bool (vv mn mx : J) (h1 : vv.truthy = false) (h2 : mn.truthy = false) (h3 : mx.truthy = false) :
    initialValue (.str "bool") vv mn mx = .ok (.bool false) := by
  simp [initialValue, h1, h2, h3, defaultFor, bind, Except.bind, pure, Except.pure]

theorem bind_ok {α β : Type} {x : Except Err α} {f : α → Except Err β} {c : β} (h : (x >>= f) = .ok c) :
    ∃ v, x = .ok v ∧ f v = .ok c := by
  cases x with
  | error e => cases h
  | ok v => exact ⟨v, rfl, h⟩

theorem cfg_given_or_default (ty : String) (g : Option J) (sel) :
    (∃ v, g = some v ∧ cfg tbl ty g sel = v) ∨ (g = none ∧ cfg tbl ty g sel = tblDefault tbl ty sel) := by
  cases g with
  | none => right; exact ⟨rfl, rfl⟩
  | some v => left; exact ⟨v, rfl, rfl⟩

/-- **Whatever `create_from_dict` builds from a clean dictionary is in normal form.** -/
theorem loadChar_NF (hn : ∀ s, norm (norm s) = norm s) (d : CharD) (c : Char) (hc : Clean d)
    (h : loadChar norm tbl d = .ok c) (hb : BoolPlain c) : NF norm tbl c := by
  unfold loadChar at h
  cases hv0 : ctorValue norm tbl d with
  | error e => rw [hv0] at h; cases h
  | ok v0 =>
  rw [hv0] at h
  simp only [Except.ok.injEq] at h
  subst h
  unfold ctorValue at hv0
  refine ⟨hn _, rfl, rfl, ?_, ?_, ?_, ?_, ?_, ?_, ?_⟩
  · intro ht
    simp only [buildChar] at ht ⊢
    rcases cfg_given_or_default tbl (norm d.type) d.description (·.description) with ⟨v, hv, he⟩ | ⟨_, he⟩
    · rw [he] at ht; rw [hc.desc v hv] at ht; cases ht
    · exact he
  · intro ht
    simp only [buildChar] at ht ⊢
    rcases cfg_given_or_default tbl (norm d.type) d.unit (·.unit) with ⟨v, hv, he⟩ | ⟨_, he⟩
    · rw [he] at ht; rw [hc.unit v hv] at ht; cases ht
    · exact he
  · intro hnull
    simp only [buildChar, dMin] at hnull ⊢
    rcases cfg_given_or_default tbl (norm d.type) d.minValue (·.minValue) with ⟨v, hv, he⟩ | ⟨_, he⟩
    · rw [he] at hnull; exact absurd hnull (hc.minV v hv)
    · rw [he] at hnull; exact hnull
  · intro hnull
    simp only [buildChar, dMax] at hnull ⊢
    rcases cfg_given_or_default tbl (norm d.type) d.maxValue (·.maxValue) with ⟨v, hv, he⟩ | ⟨_, he⟩
    · rw [he] at hnull; exact absurd hnull (hc.maxV v hv)
    · rw [he] at hnull; exact hnull
  · intro hnull
    simp only [buildChar] at hnull ⊢
    rcases cfg_given_or_default tbl (norm d.type) d.minStep (·.minStep) with ⟨v, hv, he⟩ | ⟨_, he⟩
    · rw [he] at hnull; exact absurd hnull (hc.minS v hv)
    · rw [he] at hnull; exact hnull
  · intro hp
    have hp' : d.perms.contains "pr" = true := hp
    simp only [hp', ↓reduceIte] at hv0
    refine ⟨v0, hv0, ?_⟩
    have hbool : dFormat norm tbl d = .str "bool" → v0 = .bool false := by
      intro hf
      have hb' := hb
      unfold BoolPlain at hb'
      obtain ⟨b1, b2, b3⟩ := hb' hf
      have b1' : (dValid norm tbl d).truthy = false := b1
      have b2' : (dMin norm tbl d).truthy = false := b2
      have b3' : (dMax norm tbl d).truthy = false := b3
      rw [hf, initialValue_bool _ _ _ b1' b2' b3'] at hv0
      cases hv0; rfl
    have hv0case : (v0 ≠ .null ∧ coerce (dFormat norm tbl d) v0 = v0) ∨ (v0 = .null ∧ v0 = .null) := by
      by_cases hz : v0 = .null
      · right; exact ⟨hz, hz⟩
      · left
        refine ⟨hz, ?_⟩
        unfold coerce
        split
        · rename_i hf; rw [hbool hf]; rfl
        · rfl
    simp only [buildChar]
    cases hval : d.value with
    | none => exact hv0case
    | some x =>
      simp only
      cases hx : x.isSome
      · simpa using hv0case
      · simp only [↓reduceIte]
        left
        exact ⟨coerce_ne_null _ _ (isSome_true hx), coerce_idem _ _⟩
  · intro hp
    have hp' : d.perms.contains "pr" = false := hp
    simp only [hp', Bool.false_eq_true, ↓reduceIte, Except.ok.injEq] at hv0
    subst hv0
    simp only [buildChar]
    cases hval : d.value with
    | none => rfl
    | some x =>
      simp only
      cases hx : x.isSome
      · rfl
      · exact absurd (hc.value x hval (isSome_true hx)) (by rw [hp']; simp)

/-- `set_value` with a real value on a readable characteristic keeps the normal form -/
theorem setValue_NF (c : Char) (v : J) (h : NF norm tbl c) (hp : c.perms.contains "pr" = true) (hv : v ≠ .null) :
    NF norm tbl (setValue c v) := by
  obtain ⟨ht, hev, hml, hd, hu, hmin, hmax, hstep, hpr, hnopr⟩ := h
  refine ⟨ht, hev, hml, hd, hu, hmin, hmax, hstep, ?_, ?_⟩
  · intro _
    obtain ⟨v0, hv0, _⟩ := hpr hp
    exact ⟨v0, hv0, Or.inl ⟨coerce_ne_null _ _ hv, coerce_idem _ _⟩⟩
  · intro hq
    simp only [setValue] at hq
    rw [hp] at hq; cases hq

/-! ## Lists of characteristics, services, accessories -/

theorem mapM_loadChar_ser (cs : List Char) (h : ∀ c ∈ cs, NF norm tbl c) :
    (cs.map serChar).mapM (loadChar norm tbl) = .ok cs := by
  induction cs with
  | nil => rfl
  | cons c cs ih =>
    have h1 := loadChar_serChar norm tbl c (h c (by simp))
    have h2 := ih (fun x hx => h x (by simp [hx]))
    simp only [List.map_cons, List.mapM_cons, h1, h2, bind, Except.bind, pure, Except.pure]

/-- the object `Service(...)` + its characteristics, before links are attached -/
def shell (s : Service) : Service := { s with linked := [] }

/-- normal form of a service: a real instance id, a normalised type, characteristics in normal form -/
structure NFS (s : Service) : Prop where
  iid_ne : s.iid ≠ 0
  type_norm : norm s.type = s.type
  chars : ∀ c ∈ s.chars, NF norm tbl c

theorem loadServiceShell_ser (next : Nat) (s : Service) (h : NFS norm tbl s) :
    loadServiceShell norm tbl next (serService s) = .ok (shell s, next + s.chars.length) := by
  obtain ⟨hi, ht, hc⟩ := h
  simp only [loadServiceShell, serService, hi, ↓reduceIte, mapM_loadChar_ser norm tbl _ hc, ht, List.length_map, bind,
    Except.bind, pure, Except.pure, shell]

theorem loadShells_ser (ss : List Service) (h : ∀ s ∈ ss, NFS norm tbl s) (next : Nat) :
    loadShells norm tbl next (ss.map serService) = .ok (ss.map shell) := by
  induction ss generalizing next with
  | nil => rfl
  | cons s ss ih =>
    simp only [List.map_cons, loadShells, loadServiceShell_ser norm tbl next s (h s (by simp)), bind, Except.bind,
      ih (fun x hx => h x (by simp [hx])), pure, Except.pure]

def iids (ss : List Service) : List Nat := ss.map (·.iid)

theorem hasIid_iff (ss : List Service) (x : Nat) : hasIid ss x = true ↔ x ∈ iids ss := by
  unfold hasIid iids
  simp only [List.any_eq_true, List.mem_map, beq_iff_eq]

theorem iids_addLink (ss : List Service) (o t : Nat) : iids (addLink ss o t) = iids ss := by
  induction ss with
  | nil => rfl
  | cons s rest ih =>
    unfold addLink
    split
    · rfl
    · simp only [iids, List.map_cons] at ih ⊢; rw [ih]

/-- with distinct instance ids, a link is attached to exactly the service that owns it -/
theorem addLink_at (pre post : List Service) (s : Service) (t : Nat)
    (hnd : (iids (pre ++ s :: post)).Nodup) :
    addLink (pre ++ s :: post) s.iid t = pre ++ { s with linked := s.linked ++ [t] } :: post := by
  induction pre with
  | nil =>
    have : ¬ hasIid post s.iid = true := by
      rw [hasIid_iff]
      simp only [iids, List.nil_append, List.map_cons, List.nodup_cons] at hnd
      exact hnd.1
    simp [addLink, this]
  | cons p pre ih =>
    simp only [iids, List.cons_append, List.map_cons, List.nodup_cons] at hnd
    have hne : p.iid ≠ s.iid := by
      intro he
      apply hnd.1
      rw [he]
      simp
    simp only [List.cons_append, addLink, hne, false_and, ↓reduceIte]
    rw [ih hnd.2]

theorem linkOne_at (pre post : List Service) (s : Service) (ls : List Nat)
    (hnd : (iids (pre ++ s :: post)).Nodup)
    (hl : ∀ l ∈ ls, l ≠ 0 ∧ l ∈ iids (pre ++ s :: post)) :
    linkOne (pre ++ s :: post) s.iid ls = .ok (pre ++ { s with linked := s.linked ++ ls } :: post) := by
  induction ls generalizing s with
  | nil => cases s; simp [linkOne, pure, Except.pure]
  | cons l ls ih =>
    obtain ⟨hl0, hlin⟩ := hl l (by simp)
    have ho : hasIid (pre ++ s :: post) s.iid = true := by rw [hasIid_iff]; simp [iids]
    have ht : hasIid (pre ++ s :: post) l = true := by rw [hasIid_iff]; exact hlin
    simp only [linkOne, hl0, ↓reduceIte, ho, ht, and_self]
    rw [addLink_at pre post s l hnd]
    have hnd' : (iids (pre ++ { s with linked := s.linked ++ [l] } :: post)).Nodup := by
      simpa [iids] using hnd
    have := ih { s with linked := s.linked ++ [l] } hnd' (by
      intro x hx
      obtain ⟨a, b⟩ := hl x (by simp [hx])
      refine ⟨a, ?_⟩
      simpa [iids] using b)
    simpa [List.append_assoc] using this

theorem serService_links (s : Service) : (serService s).linked.getD [] = s.linked := by
  unfold serService
  cases h : s.linked with
  | nil => simp
  | cons a b => simp

theorem linkAll_ser (done todo : List Service)
    (hnd : (iids (done ++ todo)).Nodup)
    (hl : ∀ s ∈ todo, ∀ l ∈ s.linked, l ≠ 0 ∧ l ∈ iids (done ++ todo)) :
    linkAll (done ++ todo.map shell) (todo.map serService) = .ok (done ++ todo) := by
  induction todo generalizing done with
  | nil => simp [linkAll, pure, Except.pure]
  | cons s todo ih =>
    have hiids : iids (done ++ shell s :: todo.map shell) = iids (done ++ s :: todo) := by
      simp [iids, shell, Function.comp_def]
    have h1 := linkOne_at done (todo.map shell) (shell s) s.linked (by rw [hiids]; exact hnd) (by
      intro l hlm
      rw [hiids]
      exact hl s (by simp) l hlm)
    simp only [List.map_cons, linkAll, bind, Except.bind]
    have hs : (serService s).iid = (shell s).iid := rfl
    rw [hs, serService_links, h1]
    have hshell : ({ shell s with linked := (shell s).linked ++ s.linked } : Service) = s := by
      cases s; simp [shell]
    rw [hshell]
    have := ih (done ++ [s]) (by simpa [List.append_assoc] using hnd) (by
      intro x hx l hlm
      have := hl x (by simp [hx]) l hlm
      simpa [List.append_assoc] using this)
    simpa [List.append_assoc] using this

/-- normal form of an accessory: services in normal form, distinct instance ids, links that name services of
    this accessory -/
structure NFA (a : Accessory) : Prop where
  services : ∀ s ∈ a.services, NFS norm tbl s
  nodup : (iids a.services).Nodup
  links : ∀ s ∈ a.services, ∀ l ∈ s.linked, l ≠ 0 ∧ l ∈ iids a.services

theorem loadAccessory_ser (a : Accessory) (h : NFA norm tbl a) :
    loadAccessory norm tbl (serAccessory a) = .ok a := by
  obtain ⟨hs, hnd, hl⟩ := h
  simp only [loadAccessory, serAccessory, loadShells_ser norm tbl _ hs, bind, Except.bind]
  have := linkAll_ser [] a.services (by simpa using hnd) (by simpa using hl)
  simp only [List.nil_append] at this
  rw [this]
  cases a; rfl

/-! ## The write-through cache -/

theorem step_file {A} (c : FileCache A) (op : CacheOp A) : (c.step op).file = some (c.step op).mem := rfl

end HapVerif.EntityMap
