import HapVerif.Model.BleMeta
import HapVerif.Gen.BleMeta

/-! Interpretation of the `struct` format strings the translator lifts out of `controller/ble/structs.py`. -/

namespace HapVerif.BleMetaGen
open HapVerif HapVerif.BleMeta

inductive Item
  | int (f : IntFmt)
  | f32
  deriving DecidableEq, Repr

/-- one format character of Python's `struct` in standard (`<`) mode -/
def item (c : Char) : Option Item :=
  if c = 'B' then some (.int ⟨1, false⟩) else if c = 'b' then some (.int ⟨1, true⟩)
  else if c = 'H' then some (.int ⟨2, false⟩) else if c = 'h' then some (.int ⟨2, true⟩)
  else if c = 'L' then some (.int ⟨4, false⟩) else if c = 'l' then some (.int ⟨4, true⟩)
  else if c = 'I' then some (.int ⟨4, false⟩) else if c = 'i' then some (.int ⟨4, true⟩)
  else if c = 'Q' then some (.int ⟨8, false⟩) else if c = 'q' then some (.int ⟨8, true⟩)
  else if c = 'f' then some .f32 else none

def items (fmt : String) : Option (List Item) :=
  match fmt.toList with
  | '<' :: cs => cs.mapM item
  | _ => none

def Item.size : Item → Nat
  | .int f => f.width
  | .f32 => 4

inductive Val
  | int (v : Int)
  | f32 (bits : Bytes)
  deriving DecidableEq, Repr

/-- `struct.unpack(fmt, b)`: `none` is `struct.error` (wrong total length) -/
def unpack : List Item → Bytes → Option (List Val)
  | [], b => if b.isEmpty then some [] else none
  | it :: rest, b =>
    if b.length < it.size then none
    else match unpack rest (b.drop it.size) with
      | none => none
      | some vs => some ((match it with
          | .int f => Val.int (decodeInt f (b.take it.size))
          | .f32 => Val.f32 (b.take it.size)) :: vs)

def lookup (rows : List (Nat × String × String)) (code : Nat) : Option (String × String) :=
  match rows.find? (fun r => r.1 == code) with
  | some r => some r.2
  | none => none

/-- `min_max_value` as the generated rows spell it -/
def rangeByTable (rows : List (Nat × String × String)) (code : Nat) (b : Bytes) : Range :=
  if b.isEmpty then .none
  else match lookup rows code with
    | none => .none
    | some (fmt, _) =>
      match items fmt with
      | none => .error
      | some its =>
        match unpack its b with
        | some [.int lo, .int hi] => .ints lo hi
        | some [.f32 lo, .f32 hi] => .floats lo hi
        | _ => .error

/-- `min_step` as the generated rows of `_unpack_value` spell it (numeric rows: struct format + `[0]`) -/
def stepByTable (rows : List (Nat × String × String)) (code : Nat) (b : Bytes) : Step :=
  if b.isEmpty then .none
  else match lookup rows code with
    | none => .other
    | some (fmt, how) =>
      if fmt = "" || how != "first" then .other
      else match items fmt with
        | none => .error
        | some its =>
          match unpack its b with
          | some [.int v] => .int v
          | some [.f32 v] => .float v
          | _ => .error

end HapVerif.BleMetaGen
