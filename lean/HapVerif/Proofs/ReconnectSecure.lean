import HapVerif.Proofs.ReconnectSilent

/-! # While an attempt is under way the session is not marked secure (lemmas for C10)

`V` is preserved by every step of the supervisor automaton; together with the main invariant it yields
"connected ⇒ the connector is not running". -/

namespace HapVerif.Reconnect

/-- in the middle of an attempt (TCP connect or pair-verify pending) the session is not marked secure -/
def V (s : St) : Prop :=
  match s.conn with
  | .tcpWait _ _ | .verifyWait _ _ => s.secure = false
  | _ => True

theorem V_of_eq {s s' : St} (hc : s'.conn = s.conn) (hs : s'.secure = s.secure) (h : V s) : V s' := by
  unfold V at *; rw [hc, hs]; exact h

theorem V_finish (s : St) (c : Conn) (hc : c.live = false) : V (finish s c) := by
  have : (finish s c).conn = c := (finish_fields s c).1
  unfold V; rw [this]
  cases c <;> simp_all [Conn.live]

theorem V_backoff (s : St) : V (backoff s) := by
  simp [V, backoff, emit]

theorem dropTransport_conn_secure (s : St) : (dropTransport s).conn = s.conn ∧ (dropTransport s).secure = s.secure := by
  unfold dropTransport
  split
  · exact ⟨rfl, rfl⟩
  · split <;> exact ⟨rfl, rfl⟩

theorem finish_secure (s : St) (c : Conn) : (finish s c).secure = s.secure := by
  unfold finish
  cases c <;> simp [resolveWaiters]

theorem wrongIdState_secure (s : St) : (wrongIdState s).secure = s.secure := by
  unfold wrongIdState
  exact (dropTransport_conn_secure _).2

/-- the verdict of a pair-verify, reached with the session not yet marked secure: either the connector state that
    results is consistent, or the loop goes round again -/
theorem V_verifyVerdict (s : St) (v : Ver) (hs : s.secure = false) (h2 : (verifyVerdict s v).2 = false) :
    V (verifyVerdict s v).1 := by
  cases v with
  | ok => exact V_finish _ .doneOk rfl
  | auth => exact V_finish _ .doneAuth rfl
  | fail => exact V_backoff _
  | hang =>
    simp only [verifyVerdict]
    split
    · simp [V, hs]
    · exact V_backoff _
  | okLost =>
    simp only [verifyVerdict]
    split
    · exact V_finish _ .doneOk rfl
    · split
      · exact V_backoff _
      · exact V_backoff _
  | wrongId =>
    simp only [verifyVerdict] at h2 ⊢
    split at h2
    · simp at h2
    · rename_i hc
      simp only [hc]
      exact V_backoff _

theorem popTcp_secure (s : St) : (popTcp s).2.secure = s.secure := by
  unfold popTcp; split <;> rfl
theorem popVer_secure (s : St) : (popVer s).2.secure = s.secure := by
  unfold popVer; split <;> rfl

theorem V_tcpPhase : ∀ (as : List Host) (s : St), s.secure = false → (tcpPhase as s).2 = false → V (tcpPhase as s).1 := by
  intro as
  induction as with
  | nil => intro s _ _; exact V_backoff _
  | cons a as ih =>
    intro s hs h2
    simp only [tcpPhase] at h2 ⊢
    have hs1 : (popTcp (emit s (.attempt s.now (a :: as)))).2.secure = false := by
      rw [popTcp_secure]; exact hs
    generalize hp : popTcp (emit s (.attempt s.now (a :: as))) = p at h2 hs1 ⊢
    obtain ⟨o, s1⟩ := p
    simp only at h2 hs1 ⊢
    cases o with
    | refused => exact ih s1 hs1 h2
    | timeout => simp [V, hs1]
    | ok pick =>
      simp only at h2 ⊢
      generalize hq : popVer _ = q at h2 ⊢
      obtain ⟨v, s2⟩ := q
      have hs2 : s2.secure = false := by
        have h0 := congrArg (fun x => x.2.secure) hq
        simp only [popVer_secure] at h0
        rw [← h0]
        simpa [emit] using hs1
      exact V_verifyVerdict s2 v hs2 h2

theorem refreshHosts_secure (s : St) : (refreshHosts s).secure = s.secure := by
  unfold refreshHosts
  split
  · split <;> rfl
  · rfl

theorem prepare_secure (s : St) : (prepare s).1.secure = false := by
  simp [prepare, refreshHosts_secure]

theorem V_loopTop : ∀ (fuel : Nat) (s : St), V (loopTop fuel s) := by
  intro fuel
  induction fuel with
  | zero => intro s; exact V_finish _ .stuck rfl
  | succ n ih =>
    intro s
    simp only [loopTop]
    split
    · exact V_finish _ .finished rfl
    · generalize hp : prepare s = p
      obtain ⟨s1, targets⟩ := p
      have hs1 : s1.secure = false := by
        have := prepare_secure s; rw [hp] at this; exact this
      simp only
      generalize ht : tcpPhase targets s1 = r
      obtain ⟨s2, again⟩ := r
      simp only
      cases again with
      | true => exact ih s2
      | false =>
        have := V_tcpPhase targets s1 hs1 (by rw [ht])
        rw [ht] at this; exact this

theorem V_startConnector (s : St) (h : V s) : V (startConnector s) := by
  unfold startConnector
  split
  · exact h
  · exact V_loopTop _ _

theorem V_startReconnecting (s : St) (h : V s) : V (startReconnecting s).1 := by
  unfold startReconnecting
  split
  · exact h
  · exact V_startConnector _ (V_of_eq rfl rfl h)

theorem V_reconnectSoon (s : St) (h : V s) : V (reconnectSoon s) := by
  unfold reconnectSoon
  split
  · exact V_loopTop _ _
  · exact V_startReconnecting s h

theorem V_connectorTimer (s : St) (h : V s) : V (connectorTimer s) := by
  unfold connectorTimer
  split
  · exact V_loopTop _ _
  · rename_i t rest hc
    have hs : s.secure = false := by unfold V at h; rw [hc] at h; exact h
    generalize ht : tcpPhase rest s = r
    obtain ⟨s2, again⟩ := r
    simp only
    cases again with
    | true => exact V_loopTop _ _
    | false =>
      have := V_tcpPhase rest s hs (by rw [ht])
      rw [ht] at this; exact this
  · exact V_backoff _
  · exact h

theorem V_fireWaiters (s : St) (t : Time) (h : V s) : V (fireWaiters s t) := V_of_eq rfl rfl h

theorem V_advanceTo : ∀ (fuel : Nat) (target : Time) (s : St), V s → V (advanceTo fuel target s) := by
  intro fuel
  induction fuel with
  | zero => intro target s h; exact V_fireWaiters s target h
  | succ n ih =>
    intro target s h
    simp only [advanceTo]
    split
    · split
      · exact ih _ _ (V_connectorTimer _ (V_fireWaiters _ _ h))
      · exact V_fireWaiters _ _ h
    · exact V_fireWaiters _ _ h

theorem V_dropTransport (s : St) (h : V s) : V (dropTransport s) :=
  V_of_eq (dropTransport_conn_secure s).1 (dropTransport_conn_secure s).2 h

theorem V_stopConnector (s : St) (h : V s) : V (stopConnector s) := by
  unfold stopConnector
  split
  · exact V_finish _ .cancelled rfl
  · exact V_finish _ .cancelled rfl
  · exact V_finish _ .cancelled rfl
  · exact h

theorem V_closeConn (s : St) (h : V s) : V (closeConn s) := by
  unfold closeConn
  simp only [V]
  split <;> simp

theorem V_step (s : St) (e : Ev) (h : V s) : V (step s e) := by
  cases e with
  | adv dt => exact V_advanceTo _ _ _ h
  | ensure id own =>
    simp only [step]
    split
    · exact V_of_eq rfl rfl h
    · exact V_startReconnecting _ (V_of_eq rfl rfl h)
  | cancelW id => exact V_of_eq rfl rfl h
  | soon =>
    simp only [step]
    split
    · exact h
    · exact V_reconnectSoon s h
  | descr hs =>
    simp only [step]
    split
    · exact h
    · exact V_reconnectSoon _ (V_of_eq rfl rfl h)
  | close => exact V_closeConn s h
  | shutdown => exact V_closeConn _ (V_of_eq rfl rfl h)
  | pushTcp o => exact V_of_eq rfl rfl h
  | pushVer v => exact V_of_eq rfl rfl h
  | drop c =>
    simp only [step]
    split
    · exact h
    · split
      · exact V_of_eq rfl rfl h
      · split
        · exact V_backoff _
        · split
          · exact V_of_eq rfl rfl h
          · exact V_startConnector _ (V_of_eq rfl rfl h)

theorem V_run : ∀ (evs : List Ev) (s : St), V s → V (run s evs) := by
  intro evs
  induction evs with
  | nil => intro s h; exact h
  | cons e es ih => intro s h; exact ih _ (V_step s e h)

theorem V_init (hosts : List Host) : V (init hosts) := by simp [V, init]

end HapVerif.Reconnect
