import HapVerif.Model.Srp
import HapVerif.Spec.SrpServer
import Mathlib.Data.Int.ModEq
import Mathlib.Data.Nat.ModEq
import Mathlib.Tactic.Ring
import Mathlib.Tactic.Linarith
import Mathlib.Tactic.Positivity

/-! Helper lemmas for C02. -/

namespace HapVerif.Srp
open HapVerif

/-! ### modular exponentiation -/

theorem powMod_eq (b m : Nat) : ∀ e : Nat, powMod b e m = b ^ e % m := by
  intro e
  induction e using Nat.strongRecOn with
  | _ e ih =>
    rw [powMod]
    by_cases h : e = 0
    · simp [h]
    · simp only [h, dite_false]
      have hlt : e / 2 < e := Nat.div_lt_self (Nat.pos_of_ne_zero h) (by decide)
      rw [ih _ hlt]
      have hsplit : e = 2 * (e / 2) + e % 2 := (Nat.div_add_mod e 2).symm
      by_cases hodd : e % 2 = 1
      · simp only [hodd, if_true]
        have hpow : b ^ e = b ^ (e / 2) * b ^ (e / 2) * b := by
          conv => lhs; rw [hsplit, hodd, pow_succ, pow_mul, pow_two]
          rw [mul_pow]
        rw [hpow, Nat.mul_mod (b ^ (e / 2) * b ^ (e / 2)) b m, Nat.mul_mod (b ^ (e / 2)) (b ^ (e / 2)) m]
      · have hev : e % 2 = 0 := by omega
        simp only [hodd, if_false]
        have hpow : b ^ e = b ^ (e / 2) * b ^ (e / 2) := by
          conv => lhs; rw [hsplit, hev, Nat.add_zero, pow_mul, pow_two]
          rw [mul_pow]
        rw [hpow, Nat.mul_mod (b ^ (e / 2)) (b ^ (e / 2)) m]

/-! ### byte strings and integers -/

theorem foldl_init (b : Bytes) : ∀ init : Nat,
    b.foldl (fun acc x => acc * 256 + x.toNat) init = init * 256 ^ b.length + b.foldl (fun acc x => acc * 256 + x.toNat) 0 := by
  induction b with
  | nil => intro init; simp
  | cons x b ih =>
    intro init
    simp only [List.foldl_cons, List.length_cons]
    rw [ih (init * 256 + x.toNat), ih (0 * 256 + x.toNat)]
    ring

theorem beToNat_append (a b : Bytes) : beToNat (a ++ b) = beToNat a * 256 ^ b.length + beToNat b := by
  unfold beToNat
  rw [List.foldl_append, foldl_init]

theorem beToNat_singleton (x : UInt8) : beToNat [x] = x.toNat := by simp [beToNat]

theorem beToNat_lt (b : Bytes) : beToNat b < 256 ^ b.length := by
  induction b using List.reverseRecOn with
  | nil => simp [beToNat]
  | append_singleton b x ih =>
    rw [beToNat_append, beToNat_singleton]
    simp only [List.length_append, List.length_singleton, pow_succ, pow_zero, one_mul]
    have := x.toNat_lt
    nlinarith

theorem beToNat_zeros (n : Nat) (b : Bytes) : beToNat (List.replicate n 0 ++ b) = beToNat b := by
  rw [beToNat_append]
  have : beToNat (List.replicate n (0 : UInt8)) = 0 := by
    induction n with
    | zero => rfl
    | succ n ih =>
      rw [List.replicate_succ, ← List.singleton_append, beToNat_append, ih]
      simp [beToNat]
  simp [this]

/-- fixed-width big-endian representations are unique -/
theorem beToNat_inj : ∀ (a b : Bytes), a.length = b.length → beToNat a = beToNat b → a = b := by
  intro a
  induction a using List.reverseRecOn with
  | nil => intro b hl _; exact (List.length_eq_zero_iff.mp hl.symm).symm
  | append_singleton a x ih =>
    intro b hl hv
    rcases List.eq_nil_or_concat' b with rfl | ⟨b', y, rfl⟩
    · simp at hl
    · have hl' : a.length = b'.length := by simpa using hl
      rw [beToNat_append, beToNat_append, beToNat_singleton, beToNat_singleton] at hv
      simp only [List.length_singleton, pow_one] at hv
      have hx := x.toNat_lt
      have hy := y.toNat_lt
      have h1 : x.toNat = y.toNat := by omega
      have h2 : beToNat a = beToNat b' := by omega
      rw [ih b' hl' h2, UInt8.toNat_inj.mp h1]

theorem toByteArray_val : ∀ n : Nat, beToNat (toByteArray n) = n := by
  intro n
  induction n using Nat.strongRecOn with
  | _ n ih =>
    rw [toByteArray]
    by_cases h : n = 0
    · simp [h, beToNat]
    · simp only [h, dite_false]
      rw [beToNat_append, ih _ (Nat.div_lt_self (Nat.pos_of_ne_zero h) (by decide)), beToNat_singleton]
      have : n % 256 < 256 := Nat.mod_lt _ (by decide)
      simp [Nat.mod_eq_of_lt this]
      omega

theorem toByteArray_length : ∀ (len n : Nat), n < 256 ^ len → (toByteArray n).length ≤ len := by
  intro len
  induction len with
  | zero =>
    intro n h
    have : n = 0 := by simpa using h
    subst this; rw [toByteArray]; simp
  | succ len ih =>
    intro n h
    rw [toByteArray]
    by_cases h0 : n = 0
    · simp [h0]
    · simp only [h0, dite_false, List.length_append, List.length_singleton]
      have : n / 256 < 256 ^ len := by
        rw [Nat.div_lt_iff_lt_mul (by decide)]
        rw [pow_succ] at h; exact h
      have := ih _ this
      omega

theorem natToLe_val : ∀ (k n : Nat), n < 256 ^ k → leToNat (natToLe k n) = n := by
  intro k
  induction k with
  | zero => intro n h; have : n = 0 := by simpa using h
            subst this; rfl
  | succ k ih =>
    intro n h
    simp only [natToLe, leToNat, List.foldr_cons]
    have h1 : n % 256 < 256 := Nat.mod_lt _ (by decide)
    have h2 : n / 256 < 256 ^ k := by
      rw [Nat.div_lt_iff_lt_mul (by decide)]; rw [pow_succ] at h; exact h
    have := ih _ h2
    unfold leToNat at this
    rw [this]
    simp [Nat.mod_eq_of_lt h1]
    omega

theorem beToNat_reverse (b : Bytes) : beToNat b.reverse = leToNat b := by
  induction b with
  | nil => rfl
  | cons x b ih =>
    rw [List.reverse_cons, beToNat_append, ih, beToNat_singleton]
    simp [leToNat]
    ring

theorem natToBe_val (k n : Nat) (h : n < 256 ^ k) : beToNat (natToBe k n) = n := by
  unfold natToBe
  rw [beToNat_reverse, natToLe_val k n h]

theorem natToBe_length (k n : Nat) : (natToBe k n).length = k := by simp [natToBe]

/-- **Padding**: `pad_left(to_byte_array(n), len)` is the fixed-width form `I2OSP(n, len)` for
    every `n` that fits - whatever the number of leading zero bytes. -/
theorem padLeft_eq_PAD (len n : Nat) (h : n < 256 ^ len) :
    padLeft (toByteArray n) len = natToBe len n := by
  apply beToNat_inj
  · have := toByteArray_length len n h
    simp [padLeft, natToBe_length]; omega
  · rw [padLeft, beToNat_zeros, toByteArray_val, natToBe_val len n h]

/-- a salt (or any byte string) of the expected length survives the int round trip of `set_salt` -/
theorem salt_roundtrip (s : Bytes) : padLeft (toByteArray (beToNat s)) s.length = s := by
  rw [padLeft_eq_PAD _ _ (beToNat_lt s)]
  apply beToNat_inj
  · simp [natToBe_length]
  · rw [natToBe_val _ _ (beToNat_lt s)]

/-! ### the shared secret -/

theorem srp_agree_int (N g k : ℤ) (ex ea eb eu : ℕ) :
    let v := g ^ ex % N
    let A := g ^ ea % N
    let B := (k * v + g ^ eb % N) % N
    ((B - k * v) ^ (ea + eu * ex)) % N = ((A * (v ^ eu % N)) ^ eb) % N := by
  intro v A B
  have h1 : (B - k * v) ≡ g ^ eb [ZMOD N] := by
    have : B ≡ k * v + g ^ eb [ZMOD N] := by
      show (k * v + g ^ eb % N) % N % N = (k * v + g ^ eb) % N
      rw [Int.emod_emod_of_dvd _ (dvd_refl N), Int.add_emod, Int.emod_emod_of_dvd _ (dvd_refl N), ← Int.add_emod]
    calc B - k * v ≡ (k * v + g ^ eb) - k * v [ZMOD N] := this.sub_right _
      _ = g ^ eb := by ring
  have hv : v ≡ g ^ ex [ZMOD N] := Int.mod_modEq _ _
  have hA : A ≡ g ^ ea [ZMOD N] := Int.mod_modEq _ _
  have h2 : (A * (v ^ eu % N)) ≡ g ^ (ea + eu * ex) [ZMOD N] := by
    calc A * (v ^ eu % N) ≡ g ^ ea * (g ^ ex) ^ eu [ZMOD N] :=
          hA.mul ((Int.mod_modEq _ _).trans (hv.pow _))
      _ = g ^ (ea + eu * ex) := by rw [pow_add, ← pow_mul, Nat.mul_comm]
  show _ ≡ _ [ZMOD N]
  calc (B - k * v) ^ (ea + eu * ex) ≡ (g ^ eb) ^ (ea + eu * ex) [ZMOD N] := h1.pow _
    _ = (g ^ (ea + eu * ex)) ^ eb := by rw [← pow_mul, ← pow_mul, Nat.mul_comm]
    _ ≡ (A * (v ^ eu % N)) ^ eb [ZMOD N] := (h2.pow _).symm

end HapVerif.Srp
