import HapVerif.Proofs.ReconnectLive

/-! # The reconnect loop cannot spin: excluded addresses stay within the advertised list, and the loop body runs
at most once per advertised address at one instant (helper lemmas for C10) -/

namespace HapVerif.Reconnect

/-- exclusions are duplicate-free and refer to advertised addresses -/
structure H0 (s : St) : Prop where
  sub : ∀ h ∈ s.failed, h ∈ s.hosts
  nd : s.failed.Nodup

/-- ... and the addresses still to be dialled by a pending connect are advertised ones -/
structure HInv (s : St) : Prop extends H0 s where
  rest : ∀ t r, s.conn = .tcpWait t r → ∀ h ∈ r, h ∈ s.hosts

theorem dropTransport_failed (s : St) : (dropTransport s).failed = s.failed := by
  unfold dropTransport; split
  · rfl
  · split <;> rfl

theorem dropTransport_hosts (s : St) : (dropTransport s).hosts = s.hosts := by
  unfold dropTransport; split
  · rfl
  · split <;> rfl

theorem dropTransport_desc (s : St) : (dropTransport s).desc = s.desc := by
  unfold dropTransport; split
  · rfl
  · split <;> rfl

theorem dropTransport_count0 (s : St) : (dropTransport s).count0 = s.count0 := by
  unfold dropTransport; split
  · rfl
  · split <;> rfl

theorem dropTransport_conn' (s : St) : (dropTransport s).conn = s.conn := by
  unfold dropTransport; split
  · rfl
  · split <;> rfl

theorem finish_static (s : St) (c : Conn) :
    (finish s c).failed = s.failed ∧ (finish s c).hosts = s.hosts ∧ (finish s c).desc = s.desc ∧
    (finish s c).conn = c := by
  unfold finish; cases c <;> simp [resolveWaiters]

theorem insertHost_nodup (h : Host) (l : List Host) (hn : l.Nodup) : (insertHost h l).Nodup := by
  unfold insertHost
  split
  · exact hn
  · rename_i hm
    rw [List.nodup_append]
    refine ⟨hn, by simp, ?_⟩
    intro a ha b hb
    simp at hb; subst hb
    intro hab; subst hab; exact hm ha

theorem mem_insertHost (h x : Host) (l : List Host) : x ∈ insertHost h l ↔ x ∈ l ∨ x = h := by
  unfold insertHost
  split
  · rename_i hm
    constructor
    · exact Or.inl
    · rintro (h1 | rfl)
      · exact h1
      · exact hm
  · simp

theorem h0_backoff (s : St) (h : H0 s) : HInv (backoff s) := by
  refine ⟨⟨?_, ?_⟩, ?_⟩
  · intro x hx
    simp only [backoff, emit] at hx ⊢
    split at hx
    · cases hx
    · exact h.sub x hx
  · simp only [backoff, emit]
    split
    · exact List.nodup_nil
    · exact h.nd
  · intro t r hc; simp [backoff, emit] at hc

theorem h0_finish (s : St) (c : Conn) (h : H0 s) (hc : ∀ t r, c ≠ .tcpWait t r) : HInv (finish s c) := by
  obtain ⟨f1, f2, _, f4⟩ := finish_static s c
  refine ⟨⟨by rw [f1, f2]; exact h.sub, by rw [f1]; exact h.nd⟩, ?_⟩
  intro t r hh; rw [f4] at hh; exact absurd hh (hc t r)

theorem h0_wrongId (s : St) (h : H0 s) (hcur : ∀ x, s.curHost = some x → x ∈ s.hosts) :
    H0 (wrongIdState s) ∧ (wrongIdState s).hosts = s.hosts ∧ (wrongIdState s).desc = s.desc ∧
    (wrongIdState s).count0 = s.count0 := by
  unfold wrongIdState
  rw [dropTransport_hosts, dropTransport_desc, dropTransport_count0]
  refine ⟨⟨?_, ?_⟩, rfl, rfl, rfl⟩
  · intro x hx
    rw [dropTransport_failed] at hx
    rw [dropTransport_hosts]
    simp only at hx ⊢
    cases hc : s.curHost with
    | none => simp only [hc] at hx; exact h.sub x hx
    | some y =>
      simp only [hc] at hx
      rcases (mem_insertHost y x s.failed).mp hx with h1 | rfl
      · exact h.sub x h1
      · exact hcur _ hc
  · rw [dropTransport_failed]
    simp only
    cases hc : s.curHost with
    | none => exact h.nd
    | some y => exact insertHost_nodup y _ h.nd

/-- the verdict of a pair-verify keeps the exclusions well-formed; a `continue` keeps the address list, strictly
    grows the exclusions beyond their size at the top of this iteration and leaves an address unexcluded -/
theorem h0_verdict (s : St) (v : Ver) (h : H0 s) (hcur : ∀ x, s.curHost = some x → x ∈ s.hosts) :
    ((verifyVerdict s v).2 = false → HInv (verifyVerdict s v).1 ∧ (verifyVerdict s v).1.conn ≠ .stuck) ∧
    ((verifyVerdict s v).2 = true →
      H0 (verifyVerdict s v).1 ∧ (verifyVerdict s v).1.hosts = s.hosts ∧ (verifyVerdict s v).1.desc = s.desc ∧
      s.count0 < (verifyVerdict s v).1.failed.length ∧
      (verifyVerdict s v).1.failed.length < s.hosts.length) := by
  have hdrop : H0 (dropTransport s) :=
    ⟨by rw [dropTransport_failed, dropTransport_hosts]; exact h.sub, by rw [dropTransport_failed]; exact h.nd⟩
  cases v with
  | ok =>
    refine ⟨fun _ => ⟨?_, ?_⟩, by simp [verifyVerdict]⟩
    · exact h0_finish { s with secure := true } .doneOk ⟨h.sub, h.nd⟩ (by simp)
    · simp [verifyVerdict, (finish_static _ _).2.2.2]
  | auth =>
    refine ⟨fun _ => ⟨?_, ?_⟩, by simp [verifyVerdict]⟩
    · exact h0_finish (dropTransport s) .doneAuth hdrop (by simp)
    · simp [verifyVerdict, (finish_static _ _).2.2.2]
  | fail =>
    refine ⟨fun _ => ⟨h0_backoff _ hdrop, by simp [verifyVerdict, backoff, emit]⟩, by simp [verifyVerdict]⟩
  | hang =>
    simp only [verifyVerdict]
    split
    · refine ⟨fun _ => ⟨⟨⟨h.sub, h.nd⟩, by intro t r hc; simp at hc⟩, by simp⟩, by simp⟩
    · exact ⟨fun _ => ⟨h0_backoff _ h, by simp [backoff, emit]⟩, by simp⟩
  | okLost =>
    simp only [verifyVerdict]
    split
    · refine ⟨fun _ => ⟨?_, ?_⟩, by simp⟩
      · exact h0_finish { s with secure := true } .doneOk ⟨h.sub, h.nd⟩ (by simp)
      · simp [(finish_static _ _).2.2.2]
    · split
      · exact ⟨fun _ => ⟨h0_backoff _ ⟨h.sub, h.nd⟩, by simp [backoff, emit]⟩, by simp⟩
      · exact ⟨fun _ => ⟨h0_backoff _ h, by simp [backoff, emit]⟩, by simp⟩
  | wrongId =>
    obtain ⟨w1, w2, w3, w4⟩ := h0_wrongId s h hcur
    simp only [verifyVerdict]
    split
    · rename_i hc
      simp only [Bool.and_eq_true, decide_eq_true_eq, List.any_eq_true, Bool.not_eq_true',
        List.contains_eq_mem, decide_eq_false_iff_not] at hc
      refine ⟨by simp, fun _ => ⟨w1, w2, w3, by rw [← w4]; exact hc.1, ?_⟩⟩
      -- a duplicate-free sub-list of the hosts that misses one of them is strictly shorter
      obtain ⟨x, hx, hxn⟩ := hc.2
      have := List.Nodup.length_le_of_subset (l₁ := x :: (wrongIdState s).failed)
        (l₂ := (wrongIdState s).hosts) (List.nodup_cons.mpr ⟨hxn, w1.nd⟩) (by
          intro y hy
          rcases List.mem_cons.mp hy with rfl | hy
          · exact hx
          · exact w1.sub y hy)
      simp only [List.length_cons] at this
      rw [w2] at this
      show (wrongIdState s).failed.length < s.hosts.length
      omega
    · exact ⟨fun _ => ⟨h0_backoff _ w1, by simp [backoff, emit]⟩, by simp⟩

theorem popTcp_static (s : St) :
    (popTcp s).2.failed = s.failed ∧ (popTcp s).2.hosts = s.hosts ∧ (popTcp s).2.desc = s.desc ∧
    (popTcp s).2.count0 = s.count0 ∧ (popTcp s).2.curHost = s.curHost := by
  unfold popTcp; split <;> exact ⟨rfl, rfl, rfl, rfl, rfl⟩

theorem popVer_static (s : St) :
    (popVer s).2.failed = s.failed ∧ (popVer s).2.hosts = s.hosts ∧ (popVer s).2.desc = s.desc ∧
    (popVer s).2.count0 = s.count0 ∧ (popVer s).2.curHost = s.curHost := by
  unfold popVer; split <;> exact ⟨rfl, rfl, rfl, rfl, rfl⟩

theorem getD_mem (a : Host) (as : List Host) (k : Nat) : (a :: as).getD (min k as.length) a ∈ a :: as := by
  have hlt : min k as.length < (a :: as).length := by simp; omega
  rw [List.getD_eq_getElem?_getD, List.getElem?_eq_getElem hlt]
  exact List.getElem_mem hlt

/-- the TCP phase keeps the exclusions well-formed; see `h0_verdict` for what a `continue` guarantees -/
theorem h0_tcpPhase (as : List Host) (s : St) (h : H0 s) (has : ∀ x ∈ as, x ∈ s.hosts) :
    ((tcpPhase as s).2 = false → HInv (tcpPhase as s).1 ∧ (tcpPhase as s).1.conn ≠ .stuck) ∧
    ((tcpPhase as s).2 = true →
      H0 (tcpPhase as s).1 ∧ (tcpPhase as s).1.hosts = s.hosts ∧ (tcpPhase as s).1.desc = s.desc ∧
      s.count0 < (tcpPhase as s).1.failed.length ∧ (tcpPhase as s).1.failed.length < s.hosts.length) := by
  induction as generalizing s with
  | nil =>
    simp only [tcpPhase]
    exact ⟨fun _ => ⟨h0_backoff s h, by simp [backoff, emit]⟩, by simp⟩
  | cons a as ih =>
    simp only [tcpPhase]
    obtain ⟨p1, p2, p3, p4, p5⟩ := popTcp_static (emit s (.attempt s.now (a :: as)))
    generalize popTcp (emit s (.attempt s.now (a :: as))) = p at p1 p2 p3 p4 p5
    obtain ⟨o, s2⟩ := p
    simp only [emit] at p1 p2 p3 p4 p5
    have h2 : H0 s2 := ⟨by rw [p1, p2]; exact h.sub, by rw [p1]; exact h.nd⟩
    cases o with
    | refused =>
      have := ih s2 h2 (fun x hx => by rw [p2]; exact has x (by simp [hx]))
      rw [p2, p3, p4] at this
      exact this
    | timeout =>
      refine ⟨fun _ => ⟨⟨⟨h2.sub, h2.nd⟩, ?_⟩, by simp⟩, by simp⟩
      intro t r hc
      simp only [Conn.tcpWait.injEq] at hc
      obtain ⟨_, rfl⟩ := hc
      intro x hx
      show x ∈ s2.hosts
      rw [p2]; exact has x (by simp [hx])
    | ok pick =>
      simp only
      have key : ∀ X : St, H0 X → (∀ x, X.curHost = some x → x ∈ X.hosts) → X.hosts = s.hosts →
          X.desc = s.desc → X.count0 = s.count0 →
          (((verifyVerdict (popVer X).2 (popVer X).1).2 = false →
              HInv (verifyVerdict (popVer X).2 (popVer X).1).1 ∧
              (verifyVerdict (popVer X).2 (popVer X).1).1.conn ≠ .stuck) ∧
           ((verifyVerdict (popVer X).2 (popVer X).1).2 = true →
              H0 (verifyVerdict (popVer X).2 (popVer X).1).1 ∧
              (verifyVerdict (popVer X).2 (popVer X).1).1.hosts = s.hosts ∧
              (verifyVerdict (popVer X).2 (popVer X).1).1.desc = s.desc ∧
              s.count0 < (verifyVerdict (popVer X).2 (popVer X).1).1.failed.length ∧
              (verifyVerdict (popVer X).2 (popVer X).1).1.failed.length < s.hosts.length)) := by
        intro X hX hcur e1 e2 e3
        obtain ⟨q1, q2, q3, q4, q5⟩ := popVer_static X
        have hv := h0_verdict (popVer X).2 (popVer X).1
          ⟨by rw [q1, q2]; exact hX.sub, by rw [q1]; exact hX.nd⟩
          (by intro x hx; rw [q5] at hx; rw [q2]; exact hcur x hx)
        rw [q2, q3, q4, e1, e2, e3] at hv
        exact hv
      apply key
      · exact ⟨h2.sub, h2.nd⟩
      · intro x hx
        simp only [emit, Option.some.injEq] at hx
        subst hx
        show _ ∈ s2.hosts
        rw [p2]
        exact has _ (getD_mem a as pick)
      · exact p2
      · exact p3
      · exact p4

theorem sameSet_refl (hs : List Host) : (hs.all (hs.contains ·) && hs.all (hs.contains ·)) = true := by
  simp

/-- `refreshHosts` is the identity on this state (the description carries the addresses already in use) -/
def Stable (s : St) : Prop :=
  match s.desc with
  | some hs => (hs.all (s.hosts.contains ·) && s.hosts.all (hs.contains ·)) = true
  | none => True

theorem refresh_facts (s : St) (h : H0 s) :
    H0 (refreshHosts s) ∧ Stable (refreshHosts s) ∧ (refreshHosts s).desc = s.desc ∧
    (refreshHosts s).count0 = s.count0 ∧
    (refreshHosts s).hosts.length ≤ s.hosts.length + (s.desc.getD []).length ∧
    (Stable s → refreshHosts s = s) := by
  unfold refreshHosts Stable
  cases hd : s.desc with
  | none => simp [hd]; exact ⟨h.sub, h.nd⟩
  | some hs =>
    simp only [hd]
    split
    · rename_i hsame
      refine ⟨⟨h.sub, h.nd⟩, ?_, hd, rfl, by omega, fun _ => rfl⟩
      simp only [hd]; exact hsame
    · refine ⟨⟨by simp, by simp⟩, ?_, rfl, rfl, by simp, fun hst => absurd hst (by assumption)⟩
      simp

theorem connectHosts_facts (s : St) (h : H0 s) :
    (∀ x ∈ (connectHosts s).1, x ∈ s.hosts) ∧
    (∀ x ∈ (connectHosts s).2, x ∈ s.hosts) ∧ (connectHosts s).2.Nodup ∧
    (connectHosts s).2.length ≤ s.failed.length := by
  unfold connectHosts
  simp only
  split
  · exact ⟨fun x hx => hx, by simp, by simp, by simp⟩
  · exact ⟨fun x hx => (List.mem_filter.mp hx).1, h.sub, h.nd, Nat.le_refl _⟩

/-- what `prepare` hands to the TCP phase -/
theorem prepare_facts (s : St) (h : H0 s) :
    H0 (prepare s).1 ∧ Stable (prepare s).1 ∧ (prepare s).1.desc = s.desc ∧
    (prepare s).1.count0 = s.failed.length ∧
    (∀ x ∈ (prepare s).2, x ∈ (prepare s).1.hosts) ∧
    (prepare s).1.hosts.length ≤ s.hosts.length + (s.desc.getD []).length ∧
    (Stable s → (prepare s).1.hosts = s.hosts) := by
  simp only [prepare]
  have h' : H0 { s with count0 := s.failed.length, secure := false } := ⟨h.sub, h.nd⟩
  obtain ⟨r1, r2, r3, r4, r5, r6⟩ := refresh_facts { s with count0 := s.failed.length, secure := false } h'
  obtain ⟨c1, c2, c3, _⟩ := connectHosts_facts _ r1
  refine ⟨⟨c2, c3⟩, ?_, r3, r4, c1, r5, ?_⟩
  · unfold Stable at r2 ⊢; exact r2
  · intro hst
    have := r6 (by unfold Stable at hst ⊢; exact hst)
    rw [this]

/-- with more fuel than advertised addresses not yet excluded, the loop never runs dry -/
theorem loopTop_not_stuck (fuel : Nat) (s : St) (h : H0 s) (hst : Stable s)
    (hf : s.hosts.length < fuel + s.failed.length) :
    HInv (loopTop fuel s) ∧ (loopTop fuel s).conn ≠ .stuck := by
  induction fuel generalizing s with
  | zero =>
    exfalso
    have := List.Nodup.length_le_of_subset h.nd (fun x hx => h.sub x hx)
    omega
  | succ n ih =>
    simp only [loopTop]
    split
    · exact ⟨h0_finish s _ h (by simp), by simp [(finish_static _ _).2.2.2]⟩
    · obtain ⟨p1, p2, p3, p4, p5, _, p7⟩ := prepare_facts s h
      have ht := h0_tcpPhase (prepare s).2 (prepare s).1 p1 p5
      generalize tcpPhase (prepare s).2 (prepare s).1 = r at ht
      obtain ⟨s', again⟩ := r
      cases again with
      | false => simpa using ht.1 rfl
      | true =>
        simp only [if_true]
        obtain ⟨t1, t2, t3, t4, t5⟩ := ht.2 rfl
        simp only at t1 t2 t3 t4 t5
        apply ih s' t1
        · unfold Stable at p2 ⊢
          rw [t3, t2]; exact p2
        · rw [t2, p7 hst]
          rw [p4] at t4
          omega

/-- the fuel the model gives the loop (`fuelFor`) is always enough -/
theorem loopTop_enough (fuel : Nat) (s : St) (h : H0 s)
    (hf : s.hosts.length + (s.desc.getD []).length + 2 ≤ fuel) :
    HInv (loopTop fuel s) ∧ (loopTop fuel s).conn ≠ .stuck := by
  cases fuel with
  | zero => omega
  | succ n =>
    simp only [loopTop]
    split
    · exact ⟨h0_finish s _ h (by simp), by simp [(finish_static _ _).2.2.2]⟩
    · obtain ⟨p1, p2, p3, p4, p5, p6, _⟩ := prepare_facts s h
      have ht := h0_tcpPhase (prepare s).2 (prepare s).1 p1 p5
      generalize tcpPhase (prepare s).2 (prepare s).1 = r at ht
      obtain ⟨s', again⟩ := r
      cases again with
      | false => simpa using ht.1 rfl
      | true =>
        simp only [if_true]
        obtain ⟨t1, t2, t3, t4, t5⟩ := ht.2 rfl
        simp only at t1 t2 t3 t4 t5
        apply loopTop_not_stuck n s' t1
        · unfold Stable at p2 ⊢
          rw [t3, t2]; exact p2
        · rw [t2]; omega

/-- well-formed exclusions and a loop that has not run dry -/
def G (s : St) : Prop := HInv s ∧ s.conn ≠ .stuck

theorem g_static (s s' : St) (hf : s'.failed = s.failed) (hh : s'.hosts = s.hosts) (hc : s'.conn = s.conn)
    (h : G s) : G s' := by
  obtain ⟨⟨⟨h1, h2⟩, h3⟩, h4⟩ := h
  refine ⟨⟨⟨by rw [hf, hh]; exact h1, by rw [hf]; exact h2⟩, ?_⟩, by rw [hc]; exact h4⟩
  intro t r hr; rw [hc] at hr; rw [hh]; exact h3 t r hr

theorem g_loopTop (s s0 : St) (h : G s0) (hf : s.failed = s0.failed) (hh : s.hosts = s0.hosts) :
    G (loopTop (fuelFor s) s) :=
  loopTop_enough _ s ⟨by rw [hf, hh]; exact h.1.sub, by rw [hf]; exact h.1.nd⟩ (by simp [fuelFor])

theorem g_startConnector (s : St) (h : G s) : G (startConnector s) := by
  unfold startConnector
  split
  · exact h
  · have : fuelFor s = fuelFor { s with liveTasks := s.liveTasks + 1, interval := consts.initial } := rfl
    rw [this]
    exact g_loopTop _ s h rfl rfl

theorem g_startReconnecting (s : St) (h : G s) : G (startReconnecting s).1 := by
  unfold startReconnecting
  split
  · exact h
  · exact g_startConnector _ (g_static s _ rfl rfl rfl h)

theorem g_reconnectSoon (s : St) (h : G s) : G (reconnectSoon s) := by
  unfold reconnectSoon
  split
  · exact g_loopTop s s h rfl rfl
  · exact g_startReconnecting s h

theorem g_backoff (s : St) (h : H0 s) : G (backoff s) := ⟨h0_backoff s h, by simp [backoff, emit]⟩

theorem g_connectorTimer (s : St) (h : G s) : G (connectorTimer s) := by
  unfold connectorTimer
  split
  · exact g_loopTop s s h rfl rfl
  · rename_i t rest hc
    have ht := h0_tcpPhase rest s h.1.toH0 (h.1.rest t rest hc)
    generalize tcpPhase rest s = r at ht
    obtain ⟨s', again⟩ := r
    cases again with
    | false => simpa [G] using ht.1 rfl
    | true =>
      simp only [if_true]
      obtain ⟨t1, _, _, _, _⟩ := ht.2 rfl
      exact loopTop_enough _ s' t1 (by simp [fuelFor])
  · exact g_backoff _ ⟨by rw [dropTransport_failed, dropTransport_hosts]; exact h.1.sub,
      by rw [dropTransport_failed]; exact h.1.nd⟩
  · exact h

theorem g_fire (s : St) (t : Time) (h : G s) : G (fireWaiters s t) := g_static s _ rfl rfl rfl h

theorem g_advanceTo (fuel : Nat) (target : Time) (s : St) (h : G s) : G (advanceTo fuel target s) := by
  induction fuel generalizing s with
  | zero => exact g_fire s target h
  | succ n ih =>
    simp only [advanceTo]
    split
    · split
      · exact ih _ (g_connectorTimer _ (g_fire s _ h))
      · exact g_fire s target h
    · exact g_fire s target h

theorem g_stopConnector (s : St) (h : G s) : G (stopConnector s) := by
  unfold stopConnector
  split
  · exact ⟨h0_finish s _ h.1.toH0 (by simp), by simp [(finish_static _ _).2.2.2]⟩
  · exact ⟨h0_finish s _ h.1.toH0 (by simp), by simp [(finish_static _ _).2.2.2]⟩
  · exact ⟨h0_finish _ _ ⟨by rw [dropTransport_failed, dropTransport_hosts]; exact h.1.sub,
      by rw [dropTransport_failed]; exact h.1.nd⟩ (by simp), by simp [(finish_static _ _).2.2.2]⟩
  · exact h

theorem g_closeConn (s : St) (h : G s) : G (closeConn s) := by
  simp only [closeConn]
  have h1 := g_stopConnector { s with closing := true } (g_static s _ rfl rfl rfl h)
  exact g_static _ _ (by simp [dropTransport_failed]) (by simp [dropTransport_hosts])
    (by simp [dropTransport_conn']) h1

theorem g_step (s : St) (e : Ev) (h : G s) : G (step s e) := by
  cases e with
  | adv dt => exact g_advanceTo _ _ _ h
  | ensure id own =>
    simp only [step]
    split
    · exact g_static s _ rfl rfl rfl h
    · exact g_startReconnecting _ (g_static s _ rfl rfl rfl h)
  | cancelW id => exact g_static s _ rfl rfl rfl h
  | soon =>
    simp only [step]
    split
    · exact h
    · exact g_reconnectSoon s h
  | descr hs =>
    simp only [step]
    split
    · exact h
    · exact g_reconnectSoon _ (g_static s _ rfl rfl rfl h)
  | close => exact g_closeConn s h
  | shutdown => exact g_closeConn _ (g_static s _ rfl rfl rfl h)
  | pushTcp o => exact g_static s _ rfl rfl rfl h
  | pushVer v => exact g_static s _ rfl rfl rfl h
  | drop c =>
    simp only [step]
    split
    · exact h
    · split
      · exact g_static s _ rfl rfl rfl h
      · split
        · exact g_backoff _ ⟨h.1.sub, h.1.nd⟩
        · split
          · exact g_static s _ rfl rfl rfl h
          · exact g_startConnector _ (g_static s _ rfl rfl rfl h)

theorem g_run (hosts : List Host) (evs : List Ev) : G (run (init hosts) evs) := by
  have : ∀ s, G s → G (run s evs) := by
    induction evs with
    | nil => intro s h; exact h
    | cons e es ih => intro s h; exact ih _ (g_step s e h)
  exact this _ ⟨⟨⟨by simp [init], by simp [init]⟩, by simp [init]⟩, by simp [init]⟩

end HapVerif.Reconnect
