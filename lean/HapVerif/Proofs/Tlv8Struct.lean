import HapVerif.Model.Tlv8Struct
import HapVerif.Proofs.Srp

/-! # The generic `TLVStruct` round trip (helper lemmas for C16)

`tlv_iterator` on canonically fragmented segments, `decField` indexing, the fold over the fields. -/

namespace HapVerif.Tlv8
open HapVerif HapVerif.Srp


/-- length of the last fragment of a non-empty value -/
def lastLen (e : Bytes) : Nat := e.length - 255 * ((e.length - 1) / 255)
/-- offset (relative to the first fragment) of the last fragment -/
def lastOff (e : Bytes) : Nat := 257 * ((e.length - 1) / 255)

theorem frag_nil (t : UInt8) (n : Nat) : frag t n [] = [] := by cases n <;> rfl

theorem frag_cons (t : UInt8) (n : Nat) (b : UInt8) (v : Bytes) :
    frag t (n + 1) (b :: v) = t :: UInt8.ofNat (min (b :: v).length 255) ::
      ((b :: v).take 255 ++ frag t n ((b :: v).drop 255)) := rfl

theorem ofNat_toNat_min (k : Nat) : (UInt8.ofNat (min k 255)).toNat = min k 255 := by
  have : min k 255 < 256 := by omega
  simp [UInt8.toNat_ofNat, Nat.mod_eq_of_lt this]

/-- the look-ahead loop of `tlv_iterator` on a canonically fragmented value: it joins all fragments and stops at
    the end of the buffer or at the first TLV of another type -/
theorem join_frag (t : UInt8) : ∀ (m : Nat) (e pre tail : Bytes) (n f off : Nat),
    e.length = m → e ≠ [] → (e.drop 255).length ≤ n → e.length ≤ f →
    (tail = [] ∨ ∃ t' r, tail = t' :: r ∧ t' ≠ t) →
    join t f off (min e.length 255) (pre ++ e.take 255) (e.take 255 ++ frag t n (e.drop 255) ++ tail) =
      .ok (off + lastOff e, lastLen e, pre ++ e, tail) := by
  intro m
  induction m using Nat.strongRecOn with
  | _ m ih =>
    intro e pre tail n f off hm hne hn hf htail
    by_cases hlt : e.length < 255
    · -- a single short fragment
      have hmin : min e.length 255 = e.length := by omega
      have htake : e.take 255 = e := List.take_of_length_le (by omega)
      have hdrop : e.drop 255 = [] := List.drop_of_length_le (by omega)
      have h0 : (e.length - 1) / 255 = 0 := by omega
      rw [hmin, htake, hdrop, frag_nil]
      simp only [List.append_nil]
      cases f with
      | zero => simp [join, lastOff, lastLen, h0]
      | succ f' =>
        have : e.length ≠ 255 := by omega
        simp [join, this, lastOff, lastLen, h0]
    · -- a full fragment
      have hge : 255 ≤ e.length := by omega
      have hmin : min e.length 255 = 255 := by omega
      have htl : (e.take 255).length = 255 := by simp; omega
      rw [hmin]
      cases f with
      | zero => omega
      | succ f' =>
        simp only [join, ne_eq, not_true_eq_false, if_false]
        have hdropall : (e.take 255 ++ frag t n (e.drop 255) ++ tail).drop 255 = frag t n (e.drop 255) ++ tail := by
          rw [List.append_assoc, List.drop_append_of_le_length (by omega)]
          rw [List.drop_of_length_le (by omega)]; simp
        rw [hdropall]
        by_cases hd : e.drop 255 = []
        · -- exactly 255 bytes: the value ends here
          have hlen : e.length = 255 := by
            have := congrArg List.length hd; simp at this; omega
          have htake : e.take 255 = e := List.take_of_length_le (by omega)
          have h0 : (e.length - 1) / 255 = 0 := by omega
          rw [hd, frag_nil, List.nil_append, htake]
          rcases htail with rfl | ⟨t', r, rfl, hne'⟩
          · simp [lastOff, lastLen, h0, hlen]
          · simp [hne', lastOff, lastLen, h0, hlen]
        · -- more fragments follow
          obtain ⟨b, v, hbv⟩ := List.exists_cons_of_ne_nil hd
          cases n with
          | zero => rw [hbv] at hn; simp at hn
          | succ n' =>
            rw [hbv, frag_cons]
            simp only [List.cons_append, ne_eq, not_true_eq_false, if_false]
            rw [← hbv]
            have hlen' : (e.drop 255).length = e.length - 255 := by simp
            have hgt : 256 ≤ e.length := by
              have := congrArg List.length hbv; simp at this; omega
            have := ih (e.drop 255).length (by rw [hlen', ← hm]; omega) (e.drop 255) (pre ++ e.take 255) tail n' f'
              (off + 2 + 255) rfl hd (by simp at hn ⊢; omega) (by rw [hlen']; omega) htail
            rw [ofNat_toNat_min]
            simp only [List.append_assoc] at this ⊢
            have hx : List.take (min (e.drop 255).length 255)
                (List.take 255 (e.drop 255) ++ (frag t n' (List.drop 255 (e.drop 255)) ++ tail)) = (e.drop 255).take 255 := by
              rw [List.take_append_of_le_length (by simp <;> omega)]
              rw [List.take_of_length_le (by simp <;> omega)]
            rw [hx, this]
            have h1 : (e.length - 1) / 255 = (e.length - 255 - 1) / 255 + 1 := by omega
            simp only [lastOff, lastLen, hlen', List.take_append_drop]
            rw [h1]
            refine congrArg Except.ok (Prod.ext ?_ (Prod.ext ?_ rfl))
            · show off + 2 + 255 + 257 * ((e.length - 255 - 1) / 255) = off + 257 * ((e.length - 255 - 1) / 255 + 1)
              omega
            · show e.length - 255 - 255 * ((e.length - 255 - 1) / 255) = e.length - 255 * ((e.length - 255 - 1) / 255 + 1)
              omega

theorem frag_length_ge (t : UInt8) : ∀ (n : Nat) (e : Bytes), e.length ≤ n → e.length ≤ (frag t n e).length := by
  intro n
  induction n with
  | zero => intro e h; simp at h; simp [h]
  | succ n ih =>
    intro e h
    cases e with
    | nil => simp
    | cons b v =>
      rw [frag_cons]
      have := ih ((b :: v).drop 255) (by simp at h ⊢; omega)
      simp only [List.length_cons, List.length_append, List.length_take, List.length_drop] at this ⊢
      omega

/-- `tlv_iterator` on a canonically fragmented value followed by something of another type -/
theorem iterAux_frag (t : UInt8) (e tail : Bytes) (n fuel off : Nat) (hne : e ≠ []) (hn : e.length ≤ n)
    (hf : e.length ≤ fuel)
    (htail : tail = [] ∨ ∃ t' r, tail = t' :: r ∧ t' ≠ t) :
    iterAux (fuel + 1) off (frag t n e ++ tail) =
      match iterAux fuel (off + lastOff e + 2 + lastLen e) tail with
      | .error err => .error err
      | .ok items => .ok ((off + lastOff e, t, lastLen e, e) :: items) := by
  obtain ⟨b, v, rfl⟩ := List.exists_cons_of_ne_nil hne
  cases n with
  | zero => simp at hn
  | succ n' =>
    rw [frag_cons]
    simp only [List.cons_append, iterAux]
    rw [ofNat_toNat_min]
    have htk : List.take (min (b :: v).length 255)
        (List.take 255 (b :: v) ++ frag t n' (List.drop 255 (b :: v)) ++ tail) = (b :: v).take 255 := by
      rw [List.append_assoc, List.take_append_of_le_length (by simp <;> omega)]
      rw [List.take_of_length_le (by simp <;> omega)]
    rw [htk]
    have hj := join_frag t (b :: v).length (b :: v) [] tail n' fuel off rfl (by simp)
      (by simp at hn ⊢; omega) hf htail
    simp only [List.nil_append] at hj
    rw [hj]
    rfl

/-- concatenation of canonically fragmented (type, value) segments -/
def cat : List (UInt8 × Bytes) → Bytes
  | [] => []
  | (t, e) :: rest => frag t e.length e ++ cat rest

/-- adjacent segments have different types and no segment is empty -/
def GoodSegs : List (UInt8 × Bytes) → Prop
  | [] => True
  | [(_, e)] => e ≠ []
  | (t, e) :: (t', e') :: rest => e ≠ [] ∧ t ≠ t' ∧ GoodSegs ((t', e') :: rest)

theorem cat_head (t : UInt8) (e : Bytes) (rest : List (UInt8 × Bytes)) (he : e ≠ []) :
    ∃ r, cat ((t, e) :: rest) = t :: r := by
  obtain ⟨b, v, rfl⟩ := List.exists_cons_of_ne_nil he
  refine ⟨UInt8.ofNat (min (b :: v).length 255) ::
    ((b :: v).take 255 ++ frag t v.length ((b :: v).drop 255) ++ cat rest), ?_⟩
  simp only [cat, List.length_cons, frag_cons, List.cons_append]

theorem cat_length (segs : List (UInt8 × Bytes)) : (segs.map (·.2.length)).sum ≤ (cat segs).length := by
  induction segs with
  | nil => simp [cat]
  | cons s rest ih =>
    obtain ⟨t, e⟩ := s
    have := frag_length_ge t e.length e (Nat.le_refl _)
    simp only [cat, List.map_cons, List.sum_cons, List.length_append]
    omega

/-- `tlv_iterator` recovers exactly the segments (types and joined values) -/
theorem iterAux_cat (segs : List (UInt8 × Bytes)) (h : GoodSegs segs) :
    ∀ (fuel off : Nat), (cat segs).length < fuel →
    ∃ items, iterAux fuel off (cat segs) = .ok items ∧ items.map (fun it => (it.2.1, it.2.2.2)) = segs := by
  induction segs with
  | nil =>
    intro fuel off _
    cases fuel with
    | zero => exact ⟨[], rfl, rfl⟩
    | succ f => exact ⟨[], rfl, rfl⟩
  | cons s rest ih =>
    obtain ⟨t, e⟩ := s
    intro fuel off hf
    have he : e ≠ [] := by
      cases rest with
      | nil => exact h
      | cons s' r' => obtain ⟨t', e'⟩ := s'; exact h.1
    have hrest : GoodSegs rest := by
      cases rest with
      | nil => trivial
      | cons s' r' => obtain ⟨t', e'⟩ := s'; exact h.2.2
    have htail : cat rest = [] ∨ ∃ t' r, cat rest = t' :: r ∧ t' ≠ t := by
      cases rest with
      | nil => left; rfl
      | cons s' r' =>
        obtain ⟨t', e'⟩ := s'
        right
        have he' : e' ≠ [] := by
          cases r' with
          | nil => exact h.2.2
          | cons s'' r'' => obtain ⟨t'', e''⟩ := s''; exact h.2.2.1
        obtain ⟨r, hr⟩ := cat_head t' e' r' he'
        exact ⟨t', r, hr, fun hh => h.2.1 hh.symm⟩
    cases fuel with
    | zero => omega
    | succ f =>
      have hlen := frag_length_ge t e.length e (Nat.le_refl _)
      simp only [cat, List.length_append] at hf
      have hpos : 0 < e.length := List.length_pos_iff.mpr he
      have := iterAux_frag t e (cat rest) e.length f off he (Nat.le_refl _) (by omega) htail
      simp only [cat]
      rw [this]
      obtain ⟨items, hi, hm⟩ := ih hrest f (off + lastOff e + 2 + lastLen e) (by omega)
      rw [hi]
      exact ⟨_, rfl, by simp [hm]⟩

/-! ## decoding the fields back -/

theorem decField_at (t : Nat) (ty : FieldTy) (value : Bytes) (fs2 : List (Nat × FieldTy))
    (hno : fs2.any (fun f => f.1 = t) = false) :
    ∀ (fs1 : List (Nat × FieldTy)) (idx : Nat) (acc : List (Option Val)),
    decField (fs1 ++ (t, ty) :: fs2) t value idx acc =
      (decVal ty value).map (fun v => acc.set (idx + fs1.length) (some v)) := by
  intro fs1
  induction fs1 with
  | nil =>
    intro idx acc
    simp only [List.nil_append, decField, hno, Bool.false_eq_true, if_false, if_true, List.length_nil, Nat.add_zero]
  | cons f fs1 ih =>
    intro idx acc
    obtain ⟨t', ty'⟩ := f
    have hany : (fs1 ++ (t, ty) :: fs2).any (fun f => f.1 = t) = true := by
      simp
    simp only [List.cons_append, decField, hany, if_true]
    rw [ih (idx + 1) acc]
    simp only [List.length_cons]
    congr 2
    funext v
    congr 1
    omega

/-- the per-field encodings of a positional value list -/
inductive Enc : List (Nat × FieldTy) → List (Option Val) → List (Option Bytes) → Prop
  | nil : Enc [] [] []
  | none (t ty fs vs es) : Enc fs vs es → Enc ((t, ty) :: fs) (none :: vs) (none :: es)
  | some (t ty fs vs es v e) : encVal ty v = .ok e → e ≠ [] → decVal ty e = .ok v → Enc fs vs es →
      Enc ((t, ty) :: fs) (some v :: vs) (some e :: es)

/-- the (type, encoding) segments `encFields` writes -/
def segsOf : List (Nat × FieldTy) → List (Option Bytes) → List (UInt8 × Bytes)
  | (t, _) :: fs, some e :: es => (UInt8.ofNat t, e) :: segsOf fs es
  | _ :: fs, none :: es => segsOf fs es
  | _, _ => []

theorem encFields_cat (fs : List (Nat × FieldTy)) (vs : List (Option Val)) (es : List (Option Bytes))
    (h : Enc fs vs es) : encFields fs vs = .ok (cat (segsOf fs es)) := by
  induction h with
  | nil => simp [encFields, segsOf, cat]
  | none t ty fs vs es _ ih => simp [encFields, segsOf, ih]
  | some t ty fs vs es v e he _ _ _ ih =>
    simp [encFields, segsOf, cat, he, ih, bind, Except.bind, pure, Except.pure]

def step (fs : List (Nat × FieldTy)) (acc : List (Option Val)) (it : Nat × UInt8 × Nat × Bytes) :
    Except Err (List (Option Val)) :=
  decField fs it.2.1.toNat it.2.2.2 0 acc

theorem fold_fields (fs2 : List (Nat × FieldTy)) (vs2 : List (Option Val)) (es2 : List (Option Bytes))
    (h : Enc fs2 vs2 es2) :
    ∀ (fs1 : List (Nat × FieldTy)) (pre : List (Option Val)) (items : List (Nat × UInt8 × Nat × Bytes)),
    pre.length = fs1.length →
    ((fs1 ++ fs2).map (·.1)).Nodup → (∀ f ∈ fs1 ++ fs2, f.1 < 256) →
    items.map (fun it => (it.2.1, it.2.2.2)) = segsOf fs2 es2 →
    items.foldlM (step (fs1 ++ fs2)) (pre ++ fs2.map (fun _ => none)) = .ok (pre ++ vs2) := by
  induction h with
  | nil =>
    intro fs1 pre items _ _ _ hi
    simp only [segsOf, List.map_eq_nil_iff] at hi
    subst hi
    simp [List.foldlM, pure, Except.pure]
  | none t ty fs vs es _ ih =>
    intro fs1 pre items hl hnd hlt hi
    have := ih (fs1 ++ [(t, ty)]) (pre ++ [none]) items (by simp [hl])
      (by simpa [List.append_assoc] using hnd) (by simpa [List.append_assoc] using hlt) (by simpa [segsOf] using hi)
    simpa [List.append_assoc] using this
  | some t ty fs vs es v e he hne hdec _ ih =>
    intro fs1 pre items hl hnd hlt hi
    simp only [segsOf] at hi
    cases items with
    | nil => simp at hi
    | cons it items' =>
      simp only [List.map_cons, List.cons.injEq, Prod.mk.injEq] at hi
      obtain ⟨⟨ht, hv⟩, hi'⟩ := hi
      have htlt : t < 256 := hlt (t, ty) (by simp)
      have htoNat : it.2.1.toNat = t := by
        rw [ht]; simp [UInt8.toNat_ofNat, Nat.mod_eq_of_lt htlt]
      have hno : fs.any (fun f => f.1 = t) = false := by
        rw [List.any_eq_false]
        intro f hf hft
        simp only [decide_eq_true_eq] at hft
        rw [List.map_append, List.nodup_append] at hnd
        have := hnd.2.1
        simp only [List.map_cons, List.nodup_cons, List.mem_map] at this
        exact this.1 ⟨f, hf, hft⟩
      simp only [List.foldlM_cons, step, htoNat, hv]
      rw [decField_at t ty e fs hno fs1 0 _]
      simp only [hdec, Except.map, Nat.zero_add, bind, Except.bind]
      have hset : (pre ++ List.map (fun _ => none) ((t, ty) :: fs)).set fs1.length (some v) =
          (pre ++ [some v]) ++ fs.map (fun _ => none) := by
        rw [← hl]
        simp [List.set_append_right]
      rw [hset]
      have := ih (fs1 ++ [(t, ty)]) (pre ++ [some v]) items' (by simp [hl])
        (by simpa [List.append_assoc] using hnd) (by simpa [List.append_assoc] using hlt) hi'
      simpa [List.append_assoc, step] using this

theorem ofNat_inj_lt (a b : Nat) (ha : a < 256) (hb : b < 256) (h : UInt8.ofNat a = UInt8.ofNat b) : a = b := by
  have := congrArg UInt8.toNat h
  simpa [UInt8.toNat_ofNat, Nat.mod_eq_of_lt ha, Nat.mod_eq_of_lt hb] using this

theorem segsOf_types (fs : List (Nat × FieldTy)) (vs : List (Option Val)) (es : List (Option Bytes))
    (h : Enc fs vs es) : ∀ s ∈ segsOf fs es, ∃ f ∈ fs, s.1 = UInt8.ofNat f.1 ∧ s.2 ≠ [] := by
  induction h with
  | nil => intro s hs; simp [segsOf] at hs
  | none t ty fs vs es _ ih =>
    intro s hs
    obtain ⟨f, hf, h1⟩ := ih s (by simpa [segsOf] using hs)
    exact ⟨f, by simp [hf], h1⟩
  | some t ty fs vs es v e _ hne _ _ ih =>
    intro s hs
    simp only [segsOf, List.mem_cons] at hs
    rcases hs with rfl | hs
    · exact ⟨(t, ty), by simp, rfl, hne⟩
    · obtain ⟨f, hf, h1⟩ := ih s hs
      exact ⟨f, by simp [hf], h1⟩

theorem goodSegs_of_enc (fs : List (Nat × FieldTy)) (vs : List (Option Val)) (es : List (Option Bytes))
    (h : Enc fs vs es) (hnd : (fs.map (·.1)).Nodup) (hlt : ∀ f ∈ fs, f.1 < 256) : GoodSegs (segsOf fs es) := by
  induction h with
  | nil => simp [segsOf, GoodSegs]
  | none t ty fs vs es _ ih =>
    simp only [segsOf]
    exact ih (by simpa using (List.nodup_cons.mp (by simpa using hnd)).2) (fun f hf => hlt f (by simp [hf]))
  | some t ty fs vs es v e _ hne _ henc ih =>
    have hnd' : (fs.map (·.1)).Nodup := (List.nodup_cons.mp (by simpa using hnd)).2
    have hnotin : t ∉ fs.map (·.1) := (List.nodup_cons.mp (by simpa using hnd)).1
    have ih' := ih hnd' (fun f hf => hlt f (by simp [hf]))
    simp only [segsOf]
    cases hs : segsOf fs es with
    | nil => simpa [GoodSegs] using hne
    | cons s rest =>
      obtain ⟨t', e'⟩ := s
      rw [hs] at ih'
      refine ⟨hne, ?_, ih'⟩
      obtain ⟨f, hf, h1, _⟩ := segsOf_types fs vs es henc (t', e') (by rw [hs]; simp)
      intro heq
      simp only at h1
      rw [h1] at heq
      have := ofNat_inj_lt t f.1 (hlt (t, ty) (by simp)) (hlt f (by simp [hf])) heq
      exact hnotin (by rw [this]; exact List.mem_map_of_mem hf)

/-- **Generic round trip.**  For *every* schema whose TLV types are distinct and fit a byte, and every positional
    value: if each field that is set encodes to a non-empty value that its own type decodes back (`Enc`), then
    `TLVStruct.decode(TLVStruct.encode(v)) = v`. -/
theorem struct_roundtrip (fs : List (Nat × FieldTy)) (vs : List (Option Val)) (es : List (Option Bytes))
    (h : Enc fs vs es) (hnd : (fs.map (·.1)).Nodup) (hlt : ∀ f ∈ fs, f.1 < 256) :
    encStruct (.mk fs) (.mk vs) = .ok (cat (segsOf fs es)) ∧
    decStruct (.mk fs) (cat (segsOf fs es)) = .ok (.mk vs) := by
  refine ⟨by simp [encStruct, encFields_cat fs vs es h], ?_⟩
  obtain ⟨items, hi, hm⟩ := iterAux_cat (segsOf fs es) (goodSegs_of_enc fs vs es h hnd hlt)
    ((cat (segsOf fs es)).length + 1) 0 (Nat.lt_succ_self _)
  have hf := fold_fields fs vs es h [] [] items rfl (by simpa using hnd) (by simpa using hlt) hm
  simp only [List.nil_append] at hf
  simp only [decStruct, iter, hi, bind, Except.bind]
  have : (fun (acc : List (Option Val)) (it : Nat × UInt8 × Nat × Bytes) =>
      match it with
      | (_, t, _, value) => decField fs t.toNat value 0 acc) = step fs := by
    funext acc it
    obtain ⟨a, b, c, d⟩ := it
    rfl
  rw [this, hf]
  rfl

/-! ## field-level round trips for every scalar type, and for nested structs -/

theorem natToLe_ne_nil (k n : Nat) (hk : 0 < k) : natToLe k n ≠ [] := by
  intro h
  have := congrArg List.length h
  simp at this
  omega

theorem field_uint (n x : Nat) (hn : 0 < n) (hx : x < 256 ^ n) :
    encVal (.uint n) (.int x) = .ok (natToLe n x) ∧ natToLe n x ≠ [] ∧
    decVal (.uint n) (natToLe n x) = .ok (.int x) := by
  refine ⟨by simp [encVal, leBytes?, hx], natToLe_ne_nil n x hn, ?_⟩
  simp [decVal, natToLe_val n x hx]

theorem field_buint16 (x : Nat) (hx : x < 65536) :
    encVal .buint16 (.int x) = .ok (natToLe 2 x).reverse ∧ (natToLe 2 x).reverse ≠ [] ∧
    decVal .buint16 (natToLe 2 x).reverse = .ok (.int x) := by
  have hx' : x < 256 ^ 2 := by simpa using hx
  refine ⟨by simp [encVal, leBytes?, hx, Except.map], ?_, ?_⟩
  · intro h
    have := congrArg List.length h
    simp at this
  · simp [decVal, beToNat_reverse, natToLe_val 2 x hx']

theorem field_bytes (b : Bytes) (hb : b ≠ []) :
    encVal .bytes (.raw b) = .ok b ∧ b ≠ [] ∧ decVal .bytes b = .ok (.raw b) := ⟨rfl, hb, rfl⟩

theorem field_str (b : Bytes) (hb : b ≠ []) (hu : validUtf8 b.length b = true) :
    encVal .str (.raw b) = .ok b ∧ b ≠ [] ∧ decVal .str b = .ok (.raw b) := by
  refine ⟨rfl, hb, ?_⟩
  simp [decVal, hu]

theorem field_enum (ms : List Nat) (x : Nat) (hm : x ∈ ms) (hx : x < 256) :
    encVal (.enum ms) (.int x) = .ok (natToLe 1 x) ∧ natToLe 1 x ≠ [] ∧
    decVal (.enum ms) (natToLe 1 x) = .ok (.int x) := by
  have hx' : x < 256 ^ 1 := by simpa using hx
  refine ⟨by simp [encVal, leBytes?, hx], natToLe_ne_nil 1 x (by omega), ?_⟩
  simp [decVal, natToLe_val 1 x hx', hm]

/-- a struct-typed field inherits the round trip of its own schema -/
theorem field_struct (fs : List (Nat × FieldTy)) (vs : List (Option Val)) (es : List (Option Bytes))
    (h : Enc fs vs es) (hnd : (fs.map (·.1)).Nodup) (hlt : ∀ f ∈ fs, f.1 < 256)
    (hne : cat (segsOf fs es) ≠ []) :
    encVal (.struct (.mk fs)) (.struct (.mk vs)) = .ok (cat (segsOf fs es)) ∧ cat (segsOf fs es) ≠ [] ∧
    decVal (.struct (.mk fs)) (cat (segsOf fs es)) = .ok (.struct (.mk vs)) := by
  obtain ⟨h1, h2⟩ := struct_roundtrip fs vs es h hnd hlt
  refine ⟨by simp [encVal, h1], hne, ?_⟩
  simp [decVal, h2, Except.map]

end HapVerif.Tlv8
