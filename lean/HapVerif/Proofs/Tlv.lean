import HapVerif.Model.Tlv
import HapVerif.Spec.Tlv8

/-! Helper lemmas for the C15 theorems (core Lean only). -/

namespace HapVerif.Tlv
open HapVerif.Spec.Tlv8

/-- the loop without a filter (what `decodeAux none … false` computes, see `decodeAux_none`) -/
def decodeU : Nat → Bytes → Items → Except Err Items
  | 0, _, acc => .ok acc
  | _, [], acc => .ok acc
  | fuel+1, k :: tail, acc =>
    match tail with
    | [] => .error .parse
    | len :: rest =>
      let value := rest.take len.toNat
      if value.length ≠ len.toNat then .error .parse
      else decodeU fuel (rest.drop len.toNat) (push acc k value)

/-- a filter that rejects none of the types met behaves like no filter at all -/
theorem decodeAux_unfiltered (ex : Option (List UInt8)) : ∀ (fuel : Nat) (bs : Bytes) (acc : Items),
    (∀ b ∈ bs, filtered ex b = false) → decodeAux ex fuel bs acc false = decodeU fuel bs acc := by
  intro fuel
  induction fuel with
  | zero => intro bs acc _; rfl
  | succ n ih =>
    intro bs acc h
    match bs with
    | [] => rfl
    | [k] => simp [decodeAux, decodeU, h k (by simp)]
    | k :: len :: rest =>
      simp only [decodeAux, decodeU, h k (by simp), Bool.false_eq_true, if_false]
      split
      · rfl
      · exact ih _ _ (fun b hb => h b (by
          simp only [List.mem_cons]
          right; right; exact List.mem_of_mem_drop hb))

theorem decodeAux_none (fuel : Nat) (bs : Bytes) (acc : Items) :
    decodeAux none fuel bs acc false = decodeU fuel bs acc :=
  decodeAux_unfiltered none fuel bs acc (fun _ _ => rfl)

theorem decodeAux_fuel2 : ∀ (f1 f2 : Nat) (bs : Bytes) (acc), bs.length ≤ f1 → bs.length ≤ f2 →
    decodeU f1 bs acc = decodeU f2 bs acc := by
  intro f1
  induction f1 with
  | zero =>
    intro f2 bs acc h1 h2
    have : bs = [] := by cases bs <;> simp_all
    subst this; cases f2 <;> simp [decodeU]
  | succ n ih =>
    intro f2 bs acc h1 h2
    match bs, f2 with
    | [], f2 => cases f2 <;> simp [decodeU]
    | [k], f2 + 1 => simp [decodeU]
    | k :: len :: rest, 0 => simp at h2
    | k :: len :: rest, f2 + 1 =>
      have e : decodeU n (rest.drop len.toNat) (push acc k (rest.take len.toNat))
             = decodeU f2 (rest.drop len.toNat) (push acc k (rest.take len.toNat)) := by
        apply ih <;> simp at h1 h2 ⊢ <;> omega
      simp only [decodeU, e]

theorem decodeAux_fuel (fuel : Nat) (bs : Bytes) (acc) (h : bs.length ≤ fuel) :
    decodeU fuel bs acc = decodeU bs.length bs acc :=
  decodeAux_fuel2 _ _ _ _ h (Nat.le_refl _)

theorem toNat_ofNat_min (n : Nat) : (UInt8.ofNat (min n 255)).toNat = min n 255 := by
  have : min n 255 < 256 := by omega
  simp [Nat.mod_eq_of_lt this]

theorem toNat_ofNat_le (n : Nat) (h : n ≤ 255) : (UInt8.ofNat n).toNat = n := by
  have : n < 256 := by omega
  simp [Nat.mod_eq_of_lt this]

/-- one wire item in front of `rest`, decoded without a filter -/
theorem decodeAux_step (k : UInt8) (v rest : Bytes) (acc : Items) (fuel : Nat) (hv : v.length ≤ 255)
    (hf : (k :: UInt8.ofNat v.length :: (v ++ rest)).length ≤ fuel) :
    decodeU fuel (k :: UInt8.ofNat v.length :: (v ++ rest)) acc
      = decodeU rest.length rest (push acc k v) := by
  obtain ⟨fuel', rfl⟩ : ∃ f, fuel = f + 1 := by
    cases fuel with
    | zero => simp at hf
    | succ f => exact ⟨f, rfl⟩
  simp only [decodeU, toNat_ofNat_le _ hv]
  have htake : (v ++ rest).take v.length = v := List.take_left' rfl
  have hdrop : (v ++ rest).drop v.length = rest := List.drop_left' rfl
  simp only [htake, hdrop, ne_eq, not_true_eq_false, if_false]
  apply decodeAux_fuel
  simp at hf; omega

/-- Fragments of one value, arriving after an item of the same key, are merged into it. -/
theorem decode_frags (k : UInt8) : ∀ (n : Nat) (v p : Bytes) (rest : Bytes) (acc) (fuel : Nat),
    v.length ≤ n → (encFrag k n v ++ rest).length ≤ fuel →
    decodeU fuel (encFrag k n v ++ rest) ((k, p) :: acc)
      = decodeU rest.length rest ((k, p ++ v) :: acc) := by
  intro n
  induction n with
  | zero =>
    intro v p rest acc fuel hv hf
    have : v = [] := by cases v <;> simp_all
    subst this
    simp [encFrag] at hf ⊢
    exact decodeAux_fuel _ _ _ hf
  | succ n ih =>
    intro v p rest acc fuel hv hf
    match v, hv with
    | [], _ =>
      simp [encFrag] at hf ⊢
      exact decodeAux_fuel _ _ _ hf
    | b :: v', hv =>
      have hlen : ((b :: v').take 255).length = min (b :: v').length 255 := by
        simp [List.length_take]; omega
      have hle : ((b :: v').take 255).length ≤ 255 := by rw [hlen]; omega
      have e : encFrag k (n+1) (b :: v') ++ rest
          = k :: UInt8.ofNat ((b :: v').take 255).length ::
              ((b :: v').take 255 ++ (encFrag k n ((b :: v').drop 255) ++ rest)) := by
        simp only [encFrag, List.cons_append, List.append_assoc, hlen]
      rw [e] at hf ⊢
      rw [decodeAux_step k _ _ _ fuel hle hf]
      simp only [push, if_true]
      have hv' : ((b :: v').drop 255).length ≤ n := by simp at hv ⊢; omega
      rw [ih _ _ _ _ _ hv' (Nat.le_refl _), List.append_assoc, List.take_append_drop]

def headKeyNe (acc : Items) (k : UInt8) : Prop :=
  match acc with | [] => True | (k', _) :: _ => k' ≠ k

theorem push_new (acc) (k v) (h : headKeyNe acc k) : push acc k v = (k, v) :: acc := by
  match acc, h with
  | [], _ => rfl
  | (k', p) :: acc', h => simp [push, headKeyNe] at h ⊢; exact h

/-- One item (empty or not) is decoded to exactly that item. -/
theorem decode_item (k : UInt8) (v : Bytes) (rest : Bytes) (acc) (fuel : Nat)
    (hk : headKeyNe acc k) (hf : (encItem k v ++ rest).length ≤ fuel) :
    decodeU fuel (encItem k v ++ rest) acc = decodeU rest.length rest ((k, v) :: acc) := by
  match v with
  | [] =>
    have e : encItem k [] ++ rest = k :: UInt8.ofNat ([] : Bytes).length :: ([] ++ rest) := by
      simp [encItem]
    rw [e] at hf ⊢
    rw [decodeAux_step k [] rest acc fuel (by simp) hf, push_new _ _ _ hk]
  | b :: v' =>
    have hlen : ((b :: v').take 255).length = min (b :: v').length 255 := by
      simp [List.length_take]; omega
    have hle : ((b :: v').take 255).length ≤ 255 := by rw [hlen]; omega
    have e : encItem k (b :: v') ++ rest
        = k :: UInt8.ofNat ((b :: v').take 255).length ::
            ((b :: v').take 255 ++ (encFrag k v'.length ((b :: v').drop 255) ++ rest)) := by
      simp only [encItem, List.length_cons, encFrag, hlen]
      simp
    rw [e] at hf ⊢
    rw [decodeAux_step k _ _ _ fuel hle hf, push_new _ _ _ hk]
    have hv' : ((b :: v').drop 255).length ≤ v'.length := by simp
    rw [decode_frags k _ _ _ _ _ _ hv' (Nat.le_refl _), List.take_append_drop]

theorem encodeList_cons (k v l) : encodeList ((k, v) :: l) = encItem k v ++ encodeList l := by
  simp [encodeList]

/-- well-formed item list: separators carry no data, equal-typed neighbours are kept apart -/
def WF : Items → Prop
  | [] => True
  | (k, v) :: rest => (k = 255 → v = []) ∧ (match rest with | [] => True | (k', _) :: _ => k ≠ k') ∧ WF rest

theorem decode_list : ∀ (l : Items) (acc) (fuel : Nat), WF l →
    (match l with | [] => True | (k, _) :: _ => headKeyNe acc k) →
    (encodeList l).length ≤ fuel →
    decodeU fuel (encodeList l) acc = .ok (l.reverse ++ acc) := by
  intro l
  induction l with
  | nil => intro acc fuel _ _ _; cases fuel <;> simp [encodeList, decodeU]
  | cons kv l ih =>
    obtain ⟨k, v⟩ := kv
    intro acc fuel hwf hk hf
    obtain ⟨_, hnext, hwf'⟩ := hwf
    rw [encodeList_cons] at hf ⊢
    rw [decode_item k v _ acc fuel hk hf]
    rw [ih ((k, v) :: acc) _ hwf' _ (Nat.le_refl _)]
    · simp
    · match l, hnext with
      | [], _ => trivial
      | (k', _) :: _, h => exact h

/-! ### canonical form -/

theorem encFrag_frags (k : UInt8) : ∀ (n : Nat) (v : Bytes), v ≠ [] → v.length ≤ n →
    Frags k v (encFrag k n v) := by
  intro n
  induction n with
  | zero => intro v hv hl; cases v <;> simp_all
  | succ n ih =>
    intro v hv hl
    match v, hv with
    | b :: v', _ =>
      by_cases hshort : (b :: v').length ≤ 255
      · have htake : (b :: v').take 255 = b :: v' := List.take_of_length_le hshort
        have hdrop : (b :: v').drop 255 = [] := List.drop_of_length_le hshort
        have : encFrag k (n+1) (b :: v') = k :: UInt8.ofNat (b :: v').length :: (b :: v') := by
          simp only [encFrag, htake, hdrop]
          have : min (b :: v').length 255 = (b :: v').length := by omega
          rw [this]
          cases n <;> simp [encFrag]
        rw [this]
        exact Frags.last _ hshort
      · have hlong : 255 < (b :: v').length := by omega
        have hrest : (b :: v').drop 255 ≠ [] := by
          intro h
          have := congrArg List.length h
          simp at this; simp at hlong; omega
        have hc : ((b :: v').take 255).length = 255 := by simp [List.length_take]; simp at hlong; omega
        have hmin : min (b :: v').length 255 = 255 := by omega
        have e : encFrag k (n+1) (b :: v') = k :: 255 :: ((b :: v').take 255 ++ encFrag k n ((b :: v').drop 255)) := by
          simp only [encFrag, hmin]; rfl
        rw [e]
        have hl' : ((b :: v').drop 255).length ≤ n := by simp at hl ⊢; omega
        have := Frags.more (t := k) _ _ _ hc hrest (ih _ hrest hl')
        rwa [List.take_append_drop] at this

theorem encItem_frags (k : UInt8) (v : Bytes) : Frags k v (encItem k v) := by
  unfold encItem
  split
  · rename_i h; subst h; exact Frags.last [] (by simp)
  · rename_i h; exact encFrag_frags k _ v h (Nat.le_refl _)

theorem frags_unique (t : UInt8) : ∀ (v o1 o2 : Bytes), Frags t v o1 → Frags t v o2 → o1 = o2 := by
  intro v o1 o2 h1
  induction h1 generalizing o2 with
  | last v hv =>
    intro h2
    cases h2 with
    | last _ _ => rfl
    | more c rest out hc hrest _ =>
      exfalso
      have : (c ++ rest).length ≤ 255 := hv
      have hr : 0 < rest.length := List.length_pos_iff.mpr hrest
      simp at this; omega
  | more c rest out hc hrest _ ih =>
    intro h2
    generalize hv : c ++ rest = v at h2
    cases h2 with
    | last _ hv' =>
      exfalso
      have hr : 0 < rest.length := List.length_pos_iff.mpr hrest
      have : (c ++ rest).length ≤ 255 := by rw [hv]; exact hv'
      simp at this; omega
    | more c' rest' out' hc' hrest' hf' =>
      have hcc : c = c' ∧ rest = rest' := List.append_inj hv (by omega)
      obtain ⟨rfl, rfl⟩ := hcc
      rw [ih _ hf']

/-! ### raw wire items and the conformant reader -/

theorem merge_head (t : UInt8) (v : Bytes) (rest : List (UInt8 × Bytes)) :
    ∃ x m, merge ((t, v) :: rest) = (t, v ++ x) :: m := by
  simp only [merge]
  split
  · rename_i t' v' m _
    split
    · exact ⟨v', m, rfl⟩
    · exact ⟨[], (t', v') :: m, by simp⟩
  · exact ⟨[], [], by simp⟩

theorem merge_same (t : UInt8) (p v2 : Bytes) (raw : List (UInt8 × Bytes)) :
    merge ((t, p) :: (t, v2) :: raw) = merge ((t, p ++ v2) :: raw) := by
  conv => lhs; rw [merge]
  conv => rhs; rw [merge]
  rw [merge]
  cases merge raw with
  | nil => simp
  | cons hd m =>
    obtain ⟨t', v'⟩ := hd
    by_cases h : t = t'
    · simp [h]
    · simp [h]

theorem merge_diff (t t2 : UInt8) (p v2 : Bytes) (raw : List (UInt8 × Bytes)) (h : t ≠ t2) :
    merge ((t, p) :: (t2, v2) :: raw) = (t, p) :: merge ((t2, v2) :: raw) := by
  obtain ⟨x, m, hm⟩ := merge_head t2 v2 raw
  conv => lhs; rw [merge]
  rw [hm]
  simp [h]

theorem foldl_push_merge : ∀ (raw : List (UInt8 × Bytes)) (t : UInt8) (p : Bytes) (acc : Items),
    (raw.foldl (fun a (kv : UInt8 × Bytes) => push a kv.1 kv.2) ((t, p) :: acc)).reverse
      = acc.reverse ++ merge ((t, p) :: raw) := by
  intro raw
  induction raw with
  | nil => intro t p acc; simp [merge]
  | cons kv raw ih =>
    obtain ⟨t2, v2⟩ := kv
    intro t p acc
    rw [List.foldl_cons]
    by_cases h : t = t2
    · subst h
      have hp : push ((t, p) :: acc) t v2 = (t, p ++ v2) :: acc := by simp [push]
      show (List.foldl _ (push ((t, p) :: acc) t v2) raw).reverse = _
      rw [hp, ih, merge_same]
    · have hp : push ((t, p) :: acc) t2 v2 = (t2, v2) :: (t, p) :: acc := by simp [push, h]
      show (List.foldl _ (push ((t, p) :: acc) t2 v2) raw).reverse = _
      rw [hp, ih, merge_diff _ _ _ _ _ h]
      simp

theorem foldl_push_merge_nil (raw : List (UInt8 × Bytes)) :
    (raw.foldl (fun a (kv : UInt8 × Bytes) => push a kv.1 kv.2) []).reverse = merge raw := by
  cases raw with
  | nil => simp [merge]
  | cons kv raw =>
    obtain ⟨t, v⟩ := kv
    rw [List.foldl_cons]
    show (List.foldl _ (push [] t v) raw).reverse = _
    have := foldl_push_merge raw t v []
    simpa [push] using this

theorem rawEncode_cons (t v raw) : rawEncode ((t, v) :: raw) = t :: UInt8.ofNat v.length :: (v ++ rawEncode raw) := by
  simp [rawEncode]

/-- decoding a raw item sequence yields the pushes of exactly those items -/
theorem decodeU_raw : ∀ (raw : List (UInt8 × Bytes)) (acc : Items) (fuel : Nat),
    (∀ r ∈ raw, r.2.length ≤ 255) → (rawEncode raw).length ≤ fuel →
    decodeU fuel (rawEncode raw) acc
      = .ok (raw.foldl (fun a (kv : UInt8 × Bytes) => push a kv.1 kv.2) acc) := by
  intro raw
  induction raw with
  | nil =>
    intro acc fuel _ hf
    simp only [rawEncode, List.flatMap_nil, List.foldl_nil]
    cases fuel <;> simp [decodeU]
  | cons kv raw ih =>
    obtain ⟨t, v⟩ := kv
    intro acc fuel hall hf
    have ht := hall (t, v) (by simp)
    obtain ⟨fuel', rfl⟩ : ∃ f, fuel = f + 1 := by
      cases fuel with
      | zero => simp [rawEncode_cons] at hf
      | succ f => exact ⟨f, rfl⟩
    rw [rawEncode_cons] at hf ⊢
    simp only [decodeU, toNat_ofNat_le _ ht]
    have htake : (v ++ rawEncode raw).take v.length = v := List.take_left' rfl
    have hdrop : (v ++ rawEncode raw).drop v.length = rawEncode raw := List.drop_left' rfl
    simp only [htake, hdrop, ne_eq, not_true_eq_false, if_false, List.foldl_cons]
    apply ih _ _ (fun r hr => hall r (List.mem_cons_of_mem _ hr))
    simp at hf ⊢; omega

/-- every successful decode consumed a sequence of *complete* wire items -/
theorem decodeU_sound : ∀ (fuel : Nat) (bs : Bytes) (acc res : Items),
    bs.length ≤ fuel → decodeU fuel bs acc = .ok res →
    ∃ raw, bs = rawEncode raw ∧ (∀ r ∈ raw, r.2.length ≤ 255) ∧
      res = raw.foldl (fun a (kv : UInt8 × Bytes) => push a kv.1 kv.2) acc := by
  intro fuel
  induction fuel with
  | zero =>
    intro bs acc res hl h
    have : bs = [] := by cases bs <;> simp_all
    subst this
    simp [decodeU] at h
    exact ⟨[], by simp [rawEncode], by simp, by simp [h]⟩
  | succ n ih =>
    intro bs acc res hl h
    match bs with
    | [] =>
      simp [decodeU] at h
      exact ⟨[], by simp [rawEncode], by simp, by simp [h]⟩
    | [k] => simp [decodeU] at h
    | k :: len :: rest =>
      simp only [decodeU] at h
      by_cases hlen : (rest.take len.toNat).length ≠ len.toNat
      · rw [if_pos hlen] at h; cases h
      · rw [if_neg hlen] at h
        have hl' : (rest.drop len.toNat).length ≤ n := by simp at hl ⊢; omega
        obtain ⟨raw, hbs, hall, hres⟩ := ih _ _ _ hl' h
        have hlen' : (rest.take len.toNat).length = len.toNat := by simpa using hlen
        refine ⟨(k, rest.take len.toNat) :: raw, ?_, ?_, ?_⟩
        · rw [rawEncode_cons, hlen']
          simp only [UInt8.ofNat_toNat, ← hbs, List.take_append_drop]
        · intro r hr
          simp only [List.mem_cons] at hr
          rcases hr with rfl | hr
          · rw [hlen']; have := len.toNat_lt; omega
          · exact hall r hr
        · simp [hres]

end HapVerif.Tlv
