import HapVerif.Model.EntityMap
import HapVerif.Gen.EntityMap

/-! # The accessory-database model against the tables regenerated from the source (C20)

`Gen/EntityMap.lean` is rewritten on every run from `Characteristic.to_accessory_and_service_list`,
`Characteristic.__init__`, `DEFAULT_FOR_TYPE` and `Accessory.create_from_dict`.  Here the generated tables are
*interpreted* and shown to be the hand-written model, for every characteristic object / dictionary: a source edit
that changes a condition (`is not None` -> truthiness), an attribute, a key, the order, a default or a forwarded
keyword regenerates a different table and these theorems stop compiling. -/

namespace HapVerif.EntityMap
open HapVerif.Gen.EntityMap (Cond)

/-- the attribute of the model object behind a Python attribute name (`type`, `iid`, `perms` are not `J`-valued
    and are handled apart) -/
def attrOf (c : Char) : String → J
  | "format" => c.format
  | "_value" => c.value
  | "ev" => c.ev
  | "description" => c.description
  | "unit" => c.unit
  | "minValue" => c.minValue
  | "maxValue" => c.maxValue
  | "minStep" => c.minStep
  | "maxLen" => c.maxLen
  | "valid_values" => c.validValues
  | "handle" => c.handle
  | "disconnected_events" => c.disconnectedEvents
  | "broadcast_events" => c.broadcastEvents
  | _ => .other true 999

def condHolds (c : Char) : Cond → Bool
  | .always => true
  | .readable => c.perms.contains "pr"
  | .truthy a => (attrOf c a).truthy
  | .notNone a => (attrOf c a).isSome
  | .truthyAndFormatIn a fs => (attrOf c a).truthy && fs.any (fun f => c.format == .str f)

/-- the value of a JSON key of the dictionary (`none` = absent) -/
def getKey (d : CharD) : String → Option J
  | "format" => d.format
  | "value" => d.value
  | "ev" => d.ev
  | "description" => d.description
  | "unit" => d.unit
  | "minValue" => d.minValue
  | "maxValue" => d.maxValue
  | "minStep" => d.minStep
  | "maxLen" => d.maxLen
  | "valid-values" => d.validValues
  | "handle" => d.handle
  | "disconnected_events" => d.disconnectedEvents
  | "broadcast_events" => d.broadcastEvents
  | _ => none

/-- the `J`-valued entries of the dictionary the generated serialiser table describes, in emission order
    (the three structural keys `type`, `iid`, `perms` are always there) -/
def serByTable (t : List (String × Cond × String)) (c : Char) : List (String × J) :=
  (t.filter (fun r => r.1 ≠ "type" ∧ r.1 ≠ "iid" ∧ r.1 ≠ "perms")).filterMap
    (fun r => if condHolds c r.2.1 then some (r.1, attrOf c r.2.2) else none)

/-- the same entries read off the model's serialiser -/
def dictEntries (d : CharD) : List (String × J) :=
  ["format", "value", "ev", "description", "unit", "minValue", "maxValue", "minStep", "maxLen", "valid-values", "handle",
    "disconnected_events", "broadcast_events"].filterMap (fun k => (getKey d k).map (fun v => (k, v)))

/-- the row of the metadata table behind a keyword argument name (`characteristics[type][kw]`) -/
def metaSel : String → Meta → Option J
  | "format" => (·.format)
  | "description" => (·.description)
  | "unit" => (·.unit)
  | "min_value" => (·.minValue)
  | "max_value" => (·.maxValue)
  | "min_step" => (·.minStep)
  | _ => fun _ => none

/-- `_get_configuration(kwargs, kw, None)` where `kwargs[kw]` was forwarded from the JSON key the generated table
    names (absent key = keyword not passed) -/
def ctorByTable (fwd : List (String × String)) (norm : String → String) (tbl : Table) (d : CharD) (kw : String) : J :=
  cfg tbl (norm d.type) ((fwd.find? (fun r => r.2 == kw)).bind (fun r => getKey d r.1)) (metaSel kw)

/-- Python literal of a `DEFAULT_FOR_TYPE` value -/
def pyLit : String → J
  | "False" => .bool false
  | "0" => .num 0
  | "0.0" => .num 0
  | "''" => .str ""
  | "[]" => .nums []
  | "{}" => .other false 0
  | _ => .other true 998

end HapVerif.EntityMap
