import HapVerif.Proofs.Srp
import HapVerif.Proofs.BleMetaGen
import Mathlib.Tactic.Linarith
import Mathlib.Tactic.NormNum

/-! Helper lemmas for the BLE signature-metadata model (C14): two's-complement round trip, `struct.unpack` of one and two items. -/

namespace HapVerif.BleMetaP
open HapVerif HapVerif.BleMeta

theorem ble_decode_encode (w : Nat) (hw : 0 < w) (s : Bool) (v : Int) (h : inRange ⟨w, s⟩ v) :
    decodeInt ⟨w, s⟩ (encodeInt ⟨w, s⟩ v) = v := by
  have hM : 256 ^ w = 2 ^ (8 * w) := by
    rw [show (256 : Nat) = 2 ^ 8 by norm_num, ← pow_mul]
  have hH : 2 * 2 ^ (8 * w - 1) = 2 ^ (8 * w) := by
    have : 8 * w = (8 * w - 1) + 1 := by omega
    conv_rhs => rw [this, pow_succ]
    ring
  have hMpos : (0 : Int) < ((2 ^ (8 * w) : Nat) : Int) := by positivity
  have hnn : 0 ≤ v % ((2 ^ (8 * w) : Nat) : Int) := Int.emod_nonneg _ (ne_of_gt hMpos)
  have hlt : v % ((2 ^ (8 * w) : Nat) : Int) < ((2 ^ (8 * w) : Nat) : Int) := Int.emod_lt_of_pos _ hMpos
  have hcast : (((v % ((2 ^ (8 * w) : Nat) : Int)).toNat : Nat) : Int) = v % ((2 ^ (8 * w) : Nat) : Int) := Int.toNat_of_nonneg hnn
  have hn : (v % ((2 ^ (8 * w) : Nat) : Int)).toNat < 256 ^ w := by
    rw [hM]; exact_mod_cast (hcast ▸ hlt)
  unfold decodeInt encodeInt
  simp only
  rw [Srp.natToLe_val w _ hn]
  unfold inRange at h
  cases s with
  | false =>
    simp only [Bool.false_eq_true, ↓reduceIte, Bool.false_and] at h ⊢
    rw [hcast]
    exact Int.emod_eq_of_lt h.1 h.2
  | true =>
    simp only [↓reduceIte, Bool.true_and] at h ⊢
    have hH' : (2 : Int) * ((2 ^ (8 * w - 1) : Nat) : Int) = ((2 ^ (8 * w) : Nat) : Int) := by exact_mod_cast hH
    by_cases hv : 0 ≤ v
    · have e : v % ((2 ^ (8 * w) : Nat) : Int) = v := Int.emod_eq_of_lt hv (by linarith [h.2])
      have hsmall : ¬ (2 ^ (8 * w - 1) ≤ (v % ((2 ^ (8 * w) : Nat) : Int)).toNat) := by
        intro hc
        have : ((2 ^ (8 * w - 1) : Nat) : Int) ≤ (((v % ((2 ^ (8 * w) : Nat) : Int)).toNat : Nat) : Int) := by exact_mod_cast hc
        rw [hcast, e] at this
        linarith [h.2]
      simp only [hsmall, decide_false, Bool.false_eq_true, ↓reduceIte]
      rw [hcast, e]
    · have hv' : v < 0 := not_le.mp hv
      have e : v % ((2 ^ (8 * w) : Nat) : Int) = v + ((2 ^ (8 * w) : Nat) : Int) := by
        rw [← Int.add_emod_right]
        exact Int.emod_eq_of_lt (by linarith [h.1]) (by linarith)
      have hbig : 2 ^ (8 * w - 1) ≤ (v % ((2 ^ (8 * w) : Nat) : Int)).toNat := by
        have : ((2 ^ (8 * w - 1) : Nat) : Int) ≤ (((v % ((2 ^ (8 * w) : Nat) : Int)).toNat : Nat) : Int) := by
          rw [hcast, e]; linarith [h.1]
        exact_mod_cast this
      simp only [hbig, decide_true, ↓reduceIte]
      rw [hcast, e]
      ring

theorem intFmt_width_pos (code : Nat) (f : IntFmt) (h : intFmt code = some f) : 0 < f.width := by
  unfold intFmt at h
  split_ifs at h <;> (cases h; decide)

theorem encodeInt_length (f : IntFmt) (v : Int) : (encodeInt f v).length = f.width := by
  unfold encodeInt; exact natToLe_length _ _

open BleMetaGen in
theorem unpack_nil_iff (b : Bytes) : unpack [] b = if b.length = 0 then some [] else none := by
  unfold unpack
  cases b <;> simp

open BleMetaGen in
theorem unpack_pair_int (f : IntFmt) (b : Bytes) :
    unpack [.int f, .int f] b =
      if b.length = 2 * f.width then some [.int (decodeInt f (b.take f.width)), .int (decodeInt f (b.drop f.width))] else none := by
  unfold unpack
  simp only [Item.size]
  by_cases h1 : b.length < f.width
  · simp only [h1, ↓reduceIte]
    rw [if_neg (by omega)]
  · simp only [h1, ↓reduceIte]
    unfold unpack
    simp only [Item.size, List.length_drop]
    by_cases h2 : b.length - f.width < f.width
    · simp only [h2, ↓reduceIte]
      rw [if_neg (by omega)]
    · simp only [h2, ↓reduceIte, unpack_nil_iff, List.length_drop]
      by_cases h3 : b.length - f.width - f.width = 0
      · simp only [h3, ↓reduceIte]
        rw [if_pos (by omega)]
        have : (b.drop f.width).take f.width = b.drop f.width := List.take_of_length_le (by rw [List.length_drop]; omega)
        rw [this]
      · simp only [h3, ↓reduceIte]
        rw [if_neg (by omega)]

open BleMetaGen in
theorem unpack_pair_f32 (b : Bytes) :
    unpack [.f32, .f32] b = if b.length = 8 then some [.f32 (b.take 4), .f32 (b.drop 4)] else none := by
  unfold unpack
  simp only [Item.size]
  by_cases h1 : b.length < 4
  · simp only [h1, ↓reduceIte]
    rw [if_neg (by omega)]
  · simp only [h1, ↓reduceIte]
    unfold unpack
    simp only [Item.size, List.length_drop]
    by_cases h2 : b.length - 4 < 4
    · simp only [h2, ↓reduceIte]
      rw [if_neg (by omega)]
    · simp only [h2, ↓reduceIte, unpack_nil_iff, List.length_drop]
      by_cases h3 : b.length - 4 - 4 = 0
      · simp only [h3, ↓reduceIte]
        rw [if_pos (by omega)]
        have : (b.drop 4).take 4 = b.drop 4 := List.take_of_length_le (by rw [List.length_drop]; omega)
        rw [this]
      · simp only [h3, ↓reduceIte]
        rw [if_neg (by omega)]

open BleMetaGen in
theorem unpack_one_int (f : IntFmt) (b : Bytes) :
    unpack [.int f] b = if b.length = f.width then some [Val.int (decodeInt f b)] else none := by
  unfold unpack
  simp only [Item.size]
  by_cases h1 : b.length < f.width
  · simp only [h1, ↓reduceIte]
    rw [if_neg (by omega)]
  · simp only [h1, ↓reduceIte, unpack_nil_iff, List.length_drop]
    by_cases h3 : b.length - f.width = 0
    · simp only [h3, ↓reduceIte]
      rw [if_pos (by omega)]
      have : b.take f.width = b := List.take_of_length_le (by omega)
      rw [this]
    · simp only [h3, ↓reduceIte]
      rw [if_neg (by omega)]

open BleMetaGen in
theorem unpack_one_f32 (b : Bytes) :
    unpack [.f32] b = if b.length = 4 then some [Val.f32 b] else none := by
  unfold unpack
  simp only [Item.size]
  by_cases h1 : b.length < 4
  · simp only [h1, ↓reduceIte]
    rw [if_neg (by omega)]
  · simp only [h1, ↓reduceIte, unpack_nil_iff, List.length_drop]
    by_cases h3 : b.length - 4 = 0
    · simp only [h3, ↓reduceIte]
      rw [if_pos (by omega)]
      have : b.take 4 = b := List.take_of_length_le (by omega)
      rw [this]
    · simp only [h3, ↓reduceIte]
      rw [if_neg (by omega)]

end HapVerif.BleMetaP
