import HapVerif.Model.Reconnect

/-! # Invariants of the connection supervisor automaton (helper lemmas for C10 / C11) -/

namespace HapVerif.Reconnect

theorem consts_initial : consts.initial = 4096 := by decide
theorem consts_cap : consts.cap = 491520 := by decide
theorem consts_num : consts.num = 3 := by decide
theorem consts_den : consts.den = 2 := by decide

theorem nextInterval_bounds (i : Nat) (h : 4096 ≤ i) (h2 : i ≤ 491520) :
    6144 ≤ nextInterval i ∧ nextInterval i ≤ 491520 ∧ i ≤ nextInterval i := by
  unfold nextInterval
  simp only [consts_cap, consts_num, consts_den]
  omega

/-- what every recorded back-off sleep must satisfy: between 0.75 s and 60 s -/
def obsOk : Obs → Prop
  | .sleep _ d => 6144 ≤ d ∧ d ≤ 491520
  | _ => True

structure Inv (s : St) : Prop where
  opn : s.open_ = s.current.toList
  curNone : s.conn ≠ .doneOk → (∀ t c, s.conn ≠ .verifyWait t c) → s.current = none
  curVer : ∀ t c, s.conn = .verifyWait t c → s.current = some c
  curOk : s.conn = .doneOk → s.current.isSome = true → s.secure = true
  tasks : s.liveTasks = if s.conn.live then 1 else 0
  clo : s.closing = true → s.conn.live = false
  cf : s.closedF = true → s.closing = true ∧ s.current = none
  sh : s.shutdown = true → s.closing = true
  ivl : 4096 ≤ s.interval ∧ s.interval ≤ 491520
  mid : ((∃ t r, s.conn = .tcpWait t r) ∨ (∃ t c, s.conn = .verifyWait t c)) → s.failed.length ≤ s.count0
  slp : ∀ t, s.conn = .sleeping t → s.failed = [] ∨ ∀ h ∈ s.hosts, h ∈ s.failed
  obs : ∀ o ∈ s.obs, obsOk o

/-- precondition of `loopTop`: the connector task is running and holds no connection -/
structure Top (s : St) : Prop where
  cur : s.current = none
  opn : s.open_ = []
  tasks : s.liveTasks = 1
  cf : s.closedF = true → s.closing = true
  sh : s.shutdown = true → s.closing = true
  ivl : 4096 ≤ s.interval ∧ s.interval ≤ 491520
  obs : ∀ o ∈ s.obs, obsOk o

/-- inside an attempt, before a connection exists -/
structure Mid (s : St) : Prop extends Top s where
  ncl : s.closing = false
  cnt : s.failed.length ≤ s.count0

theorem init_inv (hosts : List Host) : Inv (init hosts) := by
  constructor <;> simp [init, Conn.live, consts_initial]

theorem finish_inv (s : St) (c : Conn) (h : Top s) (hc : c = .doneAuth ∨ c = .finished ∨ c = .cancelled ∨ c = .stuck) :
    Inv (finish s c) := by
  obtain ⟨h1, h2, h3, h4, h5, h6, h7⟩ := h
  rcases hc with rfl | rfl | rfl | rfl <;>
  · constructor <;> simp_all [finish, resolveWaiters, Conn.live]
    all_goals (try (intro o ho; rcases ho with ho | ⟨w, _, rfl⟩ <;> simp_all [obsOk]))

theorem backoff_inv (s : St) (h : Top s) (hcl : s.closing = false)
    (hf : s.failed.length ≤ s.count0 ∨ ∀ h ∈ s.hosts, h ∈ s.failed) : Inv (backoff s) := by
  obtain ⟨h1, h2, h3, h4, h5, h6, h7⟩ := h
  have hb := nextInterval_bounds s.interval h6.1 h6.2
  constructor
  case slp =>
    intro t _
    show (if !s.failed.isEmpty && decide (s.failed.length ≤ s.count0) then [] else s.failed) = [] ∨ _
    by_cases he : s.failed = []
    · left; simp [he]
    · by_cases hl : s.failed.length ≤ s.count0
      · left; simp [hl]
      · right
        have : ∀ h ∈ s.hosts, h ∈ s.failed := by
          rcases hf with hf | hf
          · exact absurd hf hl
          · exact hf
        simpa [hl, backoff, emit] using this
  case obs =>
    intro o ho
    simp only [backoff, emit, List.mem_append, List.mem_singleton] at ho
    rcases ho with ho | rfl
    · exact h7 o ho
    · simp only [obsOk]; omega
  case ivl => simp only [backoff, emit]; omega
  all_goals simp_all [backoff, emit, Conn.live]

theorem dropTransport_spec (s : St) (h : s.open_ = s.current.toList) :
    (dropTransport s).current = none ∧ (dropTransport s).open_ = [] ∧
    (∃ extra, (dropTransport s).obs = s.obs ++ extra ∧ ∀ o ∈ extra, obsOk o) ∧
    (dropTransport s).conn = s.conn ∧ (dropTransport s).liveTasks = s.liveTasks ∧
    (dropTransport s).closing = s.closing ∧ (dropTransport s).closedF = s.closedF ∧
    (dropTransport s).shutdown = s.shutdown ∧ (dropTransport s).interval = s.interval ∧
    (dropTransport s).failed = s.failed ∧ (dropTransport s).count0 = s.count0 ∧
    (dropTransport s).hosts = s.hosts := by
  unfold dropTransport
  cases hc : s.current with
  | none => simp_all
  | some c =>
    simp only [hc, Option.toList] at h
    simp [h, emit, obsOk]

/-- during an attempt, once a connection exists -/
structure Att (s : St) : Prop where
  opn : s.open_ = s.current.toList
  cur : s.current.isSome = true
  tasks : s.liveTasks = 1
  ncf : s.closedF = false
  nsh : s.shutdown = false
  ncl : s.closing = false
  ivl : 4096 ≤ s.interval ∧ s.interval ≤ 491520
  cnt : s.failed.length ≤ s.count0
  obs : ∀ o ∈ s.obs, obsOk o

theorem drop_top (s : St) (hopn : s.open_ = s.current.toList) (ht : s.liveTasks = 1)
    (hcf : s.closedF = true → s.closing = true) (hsh : s.shutdown = true → s.closing = true)
    (hi : 4096 ≤ s.interval ∧ s.interval ≤ 491520) (ho : ∀ o ∈ s.obs, obsOk o) : Top (dropTransport s) := by
  obtain ⟨d1, d2, ⟨extra, d3, d3'⟩, d4, d5, d6, d7, d8, d9, d10, d11, d12⟩ := dropTransport_spec s hopn
  constructor
  case obs =>
    intro o hmem
    rw [d3] at hmem
    rcases List.mem_append.mp hmem with h | h
    · exact ho o h
    · exact d3' o h
  all_goals simp_all

theorem any_not_contains_false (hosts failed : List Host)
    (h : (hosts.any fun h => !(failed.contains h)) = false) : ∀ x ∈ hosts, x ∈ failed := by
  intro x hx
  have := List.any_eq_false.mp h x hx
  simpa using this

theorem wrongIdState_aux (s : St) (f : List Host) (h : Att s) :
    Top (dropTransport { s with failed := f }) ∧ (dropTransport { s with failed := f }).closing = false := by
  obtain ⟨a1, a2, a3, a4, a5, a6, a7, a8, a9⟩ := h
  have ht := drop_top { s with failed := f } a1 a3 (by simp [a4]) (by simp [a5]) a7 a9
  obtain ⟨d1, d2, _, d4, d5, d6, d7, d8, d9, d10, d11, d12⟩ := dropTransport_spec { s with failed := f } a1
  exact ⟨ht, by rw [d6]; exact a6⟩

theorem wrongIdState_spec (s : St) (h : Att s) :
    Top (wrongIdState s) ∧ (wrongIdState s).closing = false := wrongIdState_aux s _ h

theorem verifyVerdict_inv (s : St) (v : Ver) (h : Att s) :
    ((verifyVerdict s v).2 = false → Inv (verifyVerdict s v).1) ∧
    ((verifyVerdict s v).2 = true → Top (verifyVerdict s v).1) := by
  have hw := wrongIdState_spec s h
  obtain ⟨a1, a2, a3, a4, a5, a6, a7, a8, a9⟩ := h
  cases v with
  | ok =>
    refine ⟨fun _ => ?_, by simp [verifyVerdict]⟩
    obtain ⟨c, hc⟩ := Option.isSome_iff_exists.mp a2
    constructor <;> simp_all [verifyVerdict, finish, resolveWaiters, Conn.live]
    intro o ho; rcases ho with ho | ⟨w, _, rfl⟩ <;> simp_all [obsOk]
  | auth =>
    refine ⟨fun _ => ?_, by simp [verifyVerdict]⟩
    exact finish_inv _ _ (drop_top s a1 a3 (by simp [a4]) (by simp [a5]) a7 a9) (Or.inl rfl)
  | fail =>
    refine ⟨fun _ => ?_, by simp [verifyVerdict]⟩
    have ht := drop_top s a1 a3 (by simp [a4]) (by simp [a5]) a7 a9
    obtain ⟨d1, d2, _, d4, d5, d6, d7, d8, d9, d10, d11, d12⟩ := dropTransport_spec s a1
    exact backoff_inv _ ht (by rw [d6]; exact a6) (Or.inl (by rw [d10, d11]; exact a8))
  | hang =>
    refine ⟨fun _ => ?_, by simp only [verifyVerdict]; split <;> simp⟩
    obtain ⟨c, hc⟩ := Option.isSome_iff_exists.mp a2
    simp only [verifyVerdict, hc]
    constructor <;> simp_all [Conn.live]
  | okLost =>
    obtain ⟨c, hc⟩ := Option.isSome_iff_exists.mp a2
    simp only [verifyVerdict, hc]
    split
    · refine ⟨fun _ => ?_, by simp⟩
      constructor <;> simp_all [finish, resolveWaiters, Conn.live]
      intro o ho; rcases ho with ho | ⟨w, _, rfl⟩ <;> simp_all [obsOk]
    · refine ⟨fun _ => ?_, by simp⟩
      refine backoff_inv _ ⟨rfl, ?_, a3, by simp [a4], by simp [a5], a7, a9⟩ a6 (Or.inl a8)
      simp only [a1, hc, Option.toList]
      simp
  | wrongId =>
    simp only [verifyVerdict]
    split
    · exact ⟨by simp, fun _ => hw.1⟩
    · rename_i hcond
      refine ⟨fun _ => ?_, by simp⟩
      refine backoff_inv _ hw.1 hw.2 ?_
      simp only [Bool.and_eq_true, decide_eq_true_eq, not_and, Bool.not_eq_true] at hcond
      by_cases hl : (wrongIdState s).failed.length ≤ (wrongIdState s).count0
      · exact Or.inl hl
      · right
        exact any_not_contains_false _ _ (hcond (by omega))

theorem popTcp_mid (s : St) (h : Mid s) : Mid (popTcp s).2 := by
  unfold popTcp
  split
  · exact h
  · obtain ⟨⟨h1, h2, h3, h4, h5, h6, h7⟩, h8, h9⟩ := h
    exact ⟨⟨h1, h2, h3, h4, h5, h6, h7⟩, h8, h9⟩

theorem emit_mid (s : St) (o : Obs) (ho : obsOk o) (h : Mid s) : Mid (emit s o) := by
  obtain ⟨⟨h1, h2, h3, h4, h5, h6, h7⟩, h8, h9⟩ := h
  refine ⟨⟨h1, h2, h3, h4, h5, h6, ?_⟩, h8, h9⟩
  intro o' hm
  simp only [emit, List.mem_append, List.mem_singleton] at hm
  rcases hm with hm | rfl
  · exact h7 _ hm
  · exact ho

theorem popVer_att (s : St) (h : Att s) : Att (popVer s).2 := by
  unfold popVer
  split
  · exact h
  · obtain ⟨a1, a2, a3, a4, a5, a6, a7, a8, a9⟩ := h
    exact ⟨a1, a2, a3, a4, a5, a6, a7, a8, a9⟩

theorem tcpPhase_inv (as : List Host) (s : St) (h : Mid s) :
    ((tcpPhase as s).2 = false → Inv (tcpPhase as s).1) ∧
    ((tcpPhase as s).2 = true → Top (tcpPhase as s).1) := by
  induction as generalizing s with
  | nil =>
    simp only [tcpPhase]
    exact ⟨fun _ => backoff_inv s h.toTop h.ncl (Or.inl h.cnt), by simp⟩
  | cons a as ih =>
    simp only [tcpPhase]
    have hm1 : Mid (emit s (.attempt s.now (a :: as))) := emit_mid s _ (by simp [obsOk]) h
    have hm2 := popTcp_mid _ hm1
    generalize hp : popTcp (emit s (.attempt s.now (a :: as))) = p at hm2
    obtain ⟨o, s2⟩ := p
    simp only at hm2 ⊢
    cases o with
    | refused => exact ih s2 hm2
    | timeout =>
      refine ⟨fun _ => ?_, by simp⟩
      obtain ⟨⟨h1, h2, h3, h4, h5, h6, h7⟩, h8, h9⟩ := hm2
      constructor <;> simp_all [Conn.live]
    | ok pick =>
      simp only
      generalize hh : (a :: as).getD (min pick as.length) a = hst
      have hatt : Att (emit { s2 with nextId := s2.nextId + 1, current := some s2.nextId, curHost := some hst,
                                       open_ := s2.open_ ++ [s2.nextId] } (.opened s2.nextId hst s2.now)) := by
        obtain ⟨⟨h1, h2, h3, h4, h5, h6, h7⟩, h8, h9⟩ := hm2
        constructor <;> simp_all [emit]
        intro o ho
        rcases ho with ho | rfl
        · exact h7 o ho
        · simp [obsOk]
      have hatt2 := popVer_att _ hatt
      exact verifyVerdict_inv _ _ hatt2

theorem connectHosts_len (s : St) : (connectHosts s).2.length ≤ s.failed.length := by
  unfold connectHosts
  simp only
  split <;> simp

theorem refreshHosts_spec (s : St) :
    (refreshHosts s).failed.length ≤ s.failed.length ∧
    (refreshHosts s).current = s.current ∧ (refreshHosts s).open_ = s.open_ ∧
    (refreshHosts s).liveTasks = s.liveTasks ∧ (refreshHosts s).closedF = s.closedF ∧
    (refreshHosts s).closing = s.closing ∧ (refreshHosts s).shutdown = s.shutdown ∧
    (refreshHosts s).interval = s.interval ∧ (refreshHosts s).obs = s.obs ∧
    (refreshHosts s).count0 = s.count0 := by
  unfold refreshHosts
  split
  · split <;> simp
  · simp

theorem prepare_mid (s : St) (h : Top s) (hcl : s.closing = false) : Mid (prepare s).1 := by
  obtain ⟨h1, h2, h3, h4, h5, h6, h7⟩ := h
  unfold prepare
  simp only
  obtain ⟨r1, r2, r3, r4, r5, r6, r7, r8, r9, r10⟩ :=
    refreshHosts_spec { s with count0 := s.failed.length, secure := false }
  have hl := connectHosts_len (refreshHosts { s with count0 := s.failed.length, secure := false })
  refine ⟨⟨?_, ?_, ?_, ?_, ?_, ?_, ?_⟩, ?_, ?_⟩ <;> simp_all
  omega

theorem loopTop_inv (fuel : Nat) (s : St) (h : Top s) : Inv (loopTop fuel s) := by
  induction fuel generalizing s with
  | zero => exact finish_inv s _ h (Or.inr (Or.inr (Or.inr rfl)))
  | succ n ih =>
    simp only [loopTop]
    split
    · exact finish_inv s _ h (Or.inr (Or.inl rfl))
    · rename_i hcl
      have hm := prepare_mid s h (by simpa using hcl)
      have ht := tcpPhase_inv (prepare s).2 (prepare s).1 hm
      cases hb : (tcpPhase (prepare s).2 (prepare s).1).2 with
      | true => simp only [if_true]; exact ih _ (ht.2 hb)
      | false => simpa using ht.1 hb

/-- a connector that is not running and a pairing that is not connected hold no connection -/
theorem idle_no_current (s : St) (h : Inv s) (hl : s.conn.live = false) (hc : s.isConnected = false) :
    s.current = none := by
  by_cases hd : s.conn = .doneOk
  · cases hcur : s.current with
    | none => rfl
    | some c =>
      exfalso
      have hsec := h.curOk hd (by simp [hcur])
      have hcf : s.closedF = false := by
        cases hx : s.closedF with
        | false => rfl
        | true => have := (h.cf hx).2; simp [hcur] at this
      simp [St.isConnected, hcur, hsec, hcf] at hc
  · apply h.curNone hd
    intro t c hv
    simp [hv, Conn.live] at hl

theorem startConnector_inv (s : St) (h : Inv s) : Inv (startConnector s) := by
  unfold startConnector
  split
  · exact h
  · rename_i hg
    simp only [Bool.or_eq_true, not_or, Bool.not_eq_true] at hg
    have hcur := idle_no_current s h hg.1 hg.2
    apply loopTop_inv
    have ht := h.tasks
    simp only [hg.1] at ht
    refine ⟨hcur, ?_, ?_, ?_, h.sh, ?_, h.obs⟩
    · have := h.opn; simp [hcur] at this; exact this
    · simp [ht]
    · intro hx; exact (h.cf hx).1
    · simp [consts_initial]

theorem startReconnecting_inv (s : St) (h : Inv s) (hsh : s.shutdown = false) :
    Inv (startReconnecting s).1 := by
  unfold startReconnecting
  split
  · exact h
  · apply startConnector_inv
    obtain ⟨i1, i2, i3, i4, i5, i6, i7, i8, i9, i10, i11, i12⟩ := h
    exact ⟨i1, i2, i3, i4, i5, by simp, by simp, by simp [hsh], i9, i10, i11, i12⟩

theorem sleeping_top (s : St) (h : Inv s) (t : Time) (hc : s.conn = .sleeping t) : Top s := by
  have hcur : s.current = none := h.curNone (by simp [hc]) (by simp [hc])
  have ht := h.tasks
  simp only [hc, Conn.live, if_true] at ht
  refine ⟨hcur, ?_, ht, fun hx => (h.cf hx).1, h.sh, h.ivl, h.obs⟩
  have := h.opn; simp [hcur] at this; exact this

theorem reconnectSoon_inv (s : St) (h : Inv s) (hsh : s.shutdown = false) : Inv (reconnectSoon s) := by
  unfold reconnectSoon
  split
  · rename_i t hc
    exact loopTop_inv _ _ (sleeping_top s h t hc)
  · exact startReconnecting_inv s h hsh

theorem live_not_closing (s : St) (h : Inv s) (hl : s.conn.live = true) :
    s.closing = false ∧ s.closedF = false ∧ s.shutdown = false := by
  have hcl : s.closing = false := by
    cases hx : s.closing with
    | false => rfl
    | true => have := h.clo hx; simp [hl] at this
  refine ⟨hcl, ?_, ?_⟩
  · cases hx : s.closedF with
    | false => rfl
    | true => have := (h.cf hx).1; simp [hcl] at this
  · cases hx : s.shutdown with
    | false => rfl
    | true => have := h.sh hx; simp [hcl] at this

theorem connectorTimer_inv (s : St) (h : Inv s) : Inv (connectorTimer s) := by
  unfold connectorTimer
  split
  · rename_i t hc
    exact loopTop_inv _ _ (sleeping_top s h t hc)
  · rename_i t rest hc
    obtain ⟨l1, l2, l3⟩ := live_not_closing s h (by simp [hc, Conn.live])
    have hcur : s.current = none := h.curNone (by simp [hc]) (by simp [hc])
    have ht := h.tasks
    simp only [hc, Conn.live, if_true] at ht
    have hm : Mid s := by
      refine ⟨⟨hcur, ?_, ht, fun hx => (h.cf hx).1, h.sh, h.ivl, h.obs⟩, l1, h.mid (Or.inl ⟨t, rest, hc⟩)⟩
      have := h.opn; simp [hcur] at this; exact this
    have hp := tcpPhase_inv rest s hm
    generalize tcpPhase rest s = r at hp
    obtain ⟨s', again⟩ := r
    cases again with
    | true => simp only [if_true]; exact loopTop_inv _ _ (hp.2 rfl)
    | false => simpa using hp.1 rfl
  · rename_i t c hc
    obtain ⟨l1, l2, l3⟩ := live_not_closing s h (by simp [hc, Conn.live])
    have ht := h.tasks
    simp only [hc, Conn.live, if_true] at ht
    have htop := drop_top s h.opn ht (fun hx => (h.cf hx).1) h.sh h.ivl h.obs
    obtain ⟨d1, d2, _, d4, d5, d6, d7, d8, d9, d10, d11, d12⟩ := dropTransport_spec s h.opn
    exact backoff_inv _ htop (by rw [d6]; exact l1)
      (Or.inl (by rw [d10, d11]; exact h.mid (Or.inr ⟨t, c, hc⟩)))
  · exact h

theorem fireWaiters_inv (s : St) (t : Time) (h : Inv s) : Inv (fireWaiters s t) := by
  obtain ⟨i1, i2, i3, i4, i5, i6, i7, i8, i9, i10, i11, i12⟩ := h
  refine ⟨i1, i2, i3, i4, i5, i6, i7, i8, i9, i10, i11, ?_⟩
  intro o ho
  simp only [fireWaiters, List.mem_append, List.mem_map] at ho
  rcases ho with ho | ⟨w, _, rfl⟩
  · exact i12 o ho
  · simp [obsOk]

theorem advanceTo_inv (fuel : Nat) (target : Time) (s : St) (h : Inv s) : Inv (advanceTo fuel target s) := by
  induction fuel generalizing s with
  | zero => exact fireWaiters_inv s target h
  | succ n ih =>
    simp only [advanceTo]
    split
    · split
      · exact ih _ (connectorTimer_inv _ (fireWaiters_inv s _ h))
      · exact fireWaiters_inv s target h
    · exact fireWaiters_inv s target h

theorem finish_fields (s : St) (c : Conn) :
    (finish s c).conn = c ∧ (finish s c).closing = s.closing ∧ (finish s c).shutdown = s.shutdown := by
  unfold finish
  cases c <;> simp [resolveWaiters]

theorem close_tail (s : St) (h : Inv s) (hl : s.conn.live = false) (hc : s.closing = true) (b : Bool) :
    Inv { (dropTransport s) with secure := false, closedF := b } := by
  obtain ⟨d1, d2, ⟨extra, d3, d3'⟩, d4, d5, d6, d7, d8, d9, d10, d11, d12⟩ := dropTransport_spec s h.opn
  obtain ⟨i1, i2, i3, i4, i5, i6, i7, i8, i9, i10, i11, i12⟩ := h
  constructor
  case obs =>
    intro o hmem
    simp only [d3] at hmem
    rcases List.mem_append.mp hmem with hm | hm
    · exact i12 o hm
    · exact d3' o hm
  case curVer =>
    intro t c hv
    simp only [d4] at hv
    simp [hv, Conn.live] at hl
  case mid =>
    intro hm
    exfalso
    simp only [d4] at hm
    rcases hm with ⟨t, r, hv⟩ | ⟨t, c, hv⟩ <;> simp [hv, Conn.live] at hl
  case slp =>
    intro t hv
    simp only [d4] at hv
    simp [hv, Conn.live] at hl
  all_goals simp_all

theorem stopConnector_inv (s : St) (h : Inv s) (hcl : s.closing = true) :
    Inv (stopConnector s) ∧ (stopConnector s).conn.live = false ∧ (stopConnector s).closing = true := by
  have hnl := h.clo hcl
  unfold stopConnector
  split
  · rename_i t hc; simp [hc, Conn.live] at hnl
  · rename_i t r hc; simp [hc, Conn.live] at hnl
  · rename_i t c hc; simp [hc, Conn.live] at hnl
  · exact ⟨h, hnl, hcl⟩

/-- `close()` sets `closing` first; the running connector is then cancelled -/
theorem stopConnector_closing_inv (s : St) (b : Bool) (h : Inv s) :
    Inv (stopConnector { s with closing := true, shutdown := b }) ∧
    (stopConnector { s with closing := true, shutdown := b }).conn.live = false ∧
    (stopConnector { s with closing := true, shutdown := b }).closing = true := by
  unfold stopConnector
  split
  · rename_i t hc
    simp only at hc
    have htop : Top { s with closing := true, shutdown := b } := by
      obtain ⟨t1, t2, t3, t4, t5, t6, t7⟩ := sleeping_top s h t hc
      exact ⟨t1, t2, t3, by simp, by simp, t6, t7⟩
    have hf := finish_inv _ .cancelled htop (Or.inr (Or.inr (Or.inl rfl)))
    obtain ⟨f1, f2, f3⟩ := finish_fields { s with closing := true, shutdown := b } .cancelled
    exact ⟨hf, by rw [f1]; rfl, by rw [f2]⟩
  · rename_i t r hc
    simp only at hc
    have hcur : s.current = none := h.curNone (by simp [hc]) (by simp [hc])
    have ht := h.tasks
    simp only [hc, Conn.live, if_true] at ht
    have htop : Top { s with closing := true, shutdown := b } := by
      refine ⟨hcur, ?_, ht, by simp, by simp, h.ivl, h.obs⟩
      have := h.opn; simp [hcur] at this; exact this
    have hf := finish_inv _ .cancelled htop (Or.inr (Or.inr (Or.inl rfl)))
    obtain ⟨f1, f2, f3⟩ := finish_fields { s with closing := true, shutdown := b } .cancelled
    exact ⟨hf, by rw [f1]; rfl, by rw [f2]⟩
  · rename_i t c hc
    simp only at hc
    have ht := h.tasks
    simp only [hc, Conn.live, if_true] at ht
    have htop := drop_top { s with closing := true, shutdown := b } h.opn ht (by simp) (by simp) h.ivl h.obs
    have hf := finish_inv _ .cancelled htop (Or.inr (Or.inr (Or.inl rfl)))
    obtain ⟨f1, f2, f3⟩ := finish_fields (dropTransport { s with closing := true, shutdown := b }) .cancelled
    obtain ⟨d1, d2, _, d4, d5, d6, d7, d8, d9, d10, d11, d12⟩ := dropTransport_spec { s with closing := true, shutdown := b } h.opn
    exact ⟨hf, by rw [f1]; rfl, by rw [f2, d6]⟩
  · rename_i hn1 hn2 hn3
    simp only at hn1 hn2 hn3
    have hnl : s.conn.live = false := by
      cases hc : s.conn <;> simp_all [Conn.live]
    refine ⟨?_, hnl, rfl⟩
    obtain ⟨i1, i2, i3, i4, i5, i6, i7, i8, i9, i10, i11, i12⟩ := h
    refine ⟨i1, i2, i3, i4, i5, ?_, ?_, by simp, i9, i10, i11, i12⟩
    · intro _; exact hnl
    · intro hx; exact ⟨rfl, (i7 hx).2⟩

theorem closeConn_inv (s : St) (b : Bool) (h : Inv s) : Inv (closeConn { s with shutdown := b }) := by
  obtain ⟨h1, h2, h3⟩ := stopConnector_closing_inv s b h
  exact close_tail _ h1 h2 h3 _

theorem emit_inv (s : St) (o : Obs) (ho : obsOk o) (h : Inv s) : Inv (emit s o) := by
  obtain ⟨i1, i2, i3, i4, i5, i6, i7, i8, i9, i10, i11, i12⟩ := h
  refine ⟨i1, i2, i3, i4, i5, i6, i7, i8, i9, i10, i11, ?_⟩
  intro o' hm
  simp only [emit, List.mem_append, List.mem_singleton] at hm
  rcases hm with hm | rfl
  · exact i12 _ hm
  · exact ho

theorem step_inv (s : St) (e : Ev) (h : Inv s) : Inv (step s e) := by
  cases e with
  | adv dt => exact advanceTo_inv _ _ _ h
  | ensure id own =>
    simp only [step]
    split
    · exact emit_inv _ _ (by simp [obsOk]) h
    · rename_i hg
      simp only [Bool.or_eq_true, not_or, Bool.not_eq_true] at hg
      refine startReconnecting_inv _ ?_ (by simpa using hg.1)
      obtain ⟨i1, i2, i3, i4, i5, i6, i7, i8, i9, i10, i11, i12⟩ := h
      exact ⟨i1, i2, i3, i4, i5, i6, i7, i8, i9, i10, i11, i12⟩
  | cancelW id =>
    simp only [step]
    obtain ⟨i1, i2, i3, i4, i5, i6, i7, i8, i9, i10, i11, i12⟩ := h
    refine ⟨i1, i2, i3, i4, i5, i6, i7, i8, i9, i10, i11, ?_⟩
    intro o ho
    simp only [List.mem_append, List.mem_map] at ho
    rcases ho with ho | ⟨w, _, rfl⟩
    · exact i12 o ho
    · simp [obsOk]
  | soon =>
    simp only [step]
    split
    · exact h
    · rename_i hs; exact reconnectSoon_inv s h (by simpa using hs)
  | descr hs =>
    simp only [step]
    split
    · exact h
    · rename_i hsd
      refine reconnectSoon_inv _ ?_ (by simpa using hsd)
      obtain ⟨i1, i2, i3, i4, i5, i6, i7, i8, i9, i10, i11, i12⟩ := h
      exact ⟨i1, i2, i3, i4, i5, i6, i7, i8, i9, i10, i11, i12⟩
  | close => exact closeConn_inv s s.shutdown h
  | shutdown => exact closeConn_inv s true h
  | pushTcp o =>
    obtain ⟨i1, i2, i3, i4, i5, i6, i7, i8, i9, i10, i11, i12⟩ := h
    exact ⟨i1, i2, i3, i4, i5, i6, i7, i8, i9, i10, i11, i12⟩
  | pushVer v =>
    obtain ⟨i1, i2, i3, i4, i5, i6, i7, i8, i9, i10, i11, i12⟩ := h
    exact ⟨i1, i2, i3, i4, i5, i6, i7, i8, i9, i10, i11, i12⟩
  | drop c =>
    simp only [step]
    split
    · exact h
    · rename_i hin
      simp only [Bool.not_eq_true, Bool.not_eq_false'] at hin
      have hmem : c ∈ s.open_ := by simpa using hin
      have hcur : s.current = some c := by
        rw [h.opn] at hmem
        cases hx : s.current with
        | none => simp [hx] at hmem
        | some d => simp [hx] at hmem; simp [hmem]
      have hopen : s.open_.filter (· ≠ c) = [] := by
        rw [h.opn, hcur]; simp
      simp only [hcur, ne_eq, not_true_eq_false, if_false]
      split
      · rename_i t c' hc
        obtain ⟨l1, l2, l3⟩ := live_not_closing s h (by simp [hc, Conn.live])
        have ht := h.tasks
        simp only [hc, Conn.live, if_true] at ht
        refine backoff_inv _ ⟨rfl, hopen, ht, by simp [l2], by simp [l3], h.ivl, h.obs⟩ l1 (Or.inl (h.mid (Or.inr ⟨t, c', hc⟩)))
      · rename_i hnv
        have hi : Inv { s with open_ := s.open_.filter (· ≠ c), current := none } := by
          obtain ⟨i1, i2, i3, i4, i5, i6, i7, i8, i9, i10, i11, i12⟩ := h
          refine ⟨hopen, by simp, ?_, by simp, i5, i6, ?_, i8, i9, i10, i11, i12⟩
          · intro t c' hv; exact absurd hv (hnv t c')
          · intro hx; exact ⟨(i7 hx).1, rfl⟩
        split
        · rename_i hcl
          obtain ⟨i1, i2, i3, i4, i5, i6, i7, i8, i9, i10, i11, i12⟩ := hi
          exact ⟨i1, i2, i3, i4, i5, i6, fun _ => ⟨hcl, rfl⟩, i8, i9, i10, i11, i12⟩
        · exact startConnector_inv _ hi

theorem run_inv_from (s : St) (evs : List Ev) (h : Inv s) : Inv (run s evs) := by
  induction evs generalizing s with
  | nil => exact h
  | cons e es ih => exact ih _ (step_inv s e h)

theorem run_inv (hosts : List Host) (evs : List Ev) : Inv (run (init hosts) evs) :=
  run_inv_from _ evs (init_inv hosts)

end HapVerif.Reconnect
