import HapVerif.Model.SecureFrame
import HapVerif.Spec.Frames

/-! Helper lemmas for the C05 theorems (core Lean only). -/

namespace HapVerif.SecureFrame

theorem loop_fuel (op : Opener) : ∀ (f1 f2 : Nat) (s : St) (out), s.buf.length < f1 → s.buf.length < f2 →
    loop op f1 s out = loop op f2 s out := by
  intro f1
  induction f1 with
  | zero => intro f2 s out h; omega
  | succ n ih =>
    intro f2 s out h1 h2
    obtain ⟨m, rfl⟩ : ∃ m, f2 = m + 1 := ⟨f2 - 1, by omega⟩
    simp only [loop]
    split
    · rfl
    · split
      · rfl
      · split
        · rfl
        · apply ih <;> simp <;> omega

theorem loop_out (op : Opener) : ∀ (f : Nat) (s : St) (out : List Bytes),
    loop op f s out = (out ++ (loop op f s []).1, (loop op f s []).2) := by
  intro f
  induction f with
  | zero => intro s out; simp [loop]
  | succ n ih =>
    intro s out
    simp only [loop]
    split
    · simp
    · split
      · simp
      · split
        · simp
        · rename_i p _
          rw [ih _ (out ++ [p]), ih _ ([] ++ [p])]
          simp [List.append_assoc]

def L (op : Opener) (s : St) : List Bytes × Option St := loop op (s.buf.length + 1) s []

/-- **Key lemma**: running the frame loop, then receiving `d` and running it again, is the same as
    receiving `d` first. -/
theorem loop_app (op : Opener) : ∀ (f : Nat) (s : St) (d : Bytes), s.buf.length < f →
    (match loop op f s [] with
     | (o, none) => (o, none)
     | (o, some s') => let r := L op ⟨s'.buf ++ d, s'.ctr⟩; (o ++ r.1, r.2))
    = L op ⟨s.buf ++ d, s.ctr⟩ := by
  intro f
  induction f with
  | zero => intro s d h; omega
  | succ n ih =>
    intro s d h
    rw [loop]
    by_cases h2 : s.buf.length < 2
    · simp [h2]
    · simp only [h2, if_false]
      by_cases hexp : s.buf.length < 2 + le16 (s.buf.take 2) + 16
      · simp [hexp]
      · simp only [hexp, if_false]
        have hle : 2 + le16 (s.buf.take 2) + 16 ≤ s.buf.length := by omega
        have e1 : (s.buf ++ d).take 2 = s.buf.take 2 := List.take_append_of_le_length (by omega)
        have e2 : ((s.buf ++ d).drop 2).take (le16 (s.buf.take 2) + 16) = (s.buf.drop 2).take (le16 (s.buf.take 2) + 16) := by
          rw [List.drop_append_of_le_length (by omega), List.take_append_of_le_length (by simp; omega)]
        have e3 : (s.buf ++ d).drop (2 + le16 (s.buf.take 2) + 16) = s.buf.drop (2 + le16 (s.buf.take 2) + 16) ++ d :=
          List.drop_append_of_le_length hle
        have hr2 : ¬ (s.buf ++ d).length < 2 := by simp; omega
        have hrexp : ¬ (s.buf ++ d).length < 2 + le16 (s.buf.take 2) + 16 := by simp; omega
        conv => rhs; rw [L, loop]
        simp only [hr2, if_false, e1, hrexp, e2, e3]
        cases hop : op s.ctr (s.buf.take 2) ((s.buf.drop 2).take (le16 (s.buf.take 2) + 16)) with
        | none => rfl
        | some p =>
          simp only []
          have := ih ⟨s.buf.drop (2 + le16 (s.buf.take 2) + 16), s.ctr + 1⟩ d (by simp; omega)
          rw [loop_out op n _ ([] ++ [p])]
          rw [loop_out op _ ⟨s.buf.drop (2 + le16 (s.buf.take 2) + 16) ++ d, s.ctr + 1⟩ ([] ++ [p])]
          have hf : loop op (s.buf ++ d).length ⟨s.buf.drop (2 + le16 (s.buf.take 2) + 16) ++ d, s.ctr + 1⟩ []
                  = L op ⟨s.buf.drop (2 + le16 (s.buf.take 2) + 16) ++ d, s.ctr + 1⟩ := by
            rw [L]; apply loop_fuel <;> simp <;> omega
          rw [hf, ← this]
          cases hl : loop op n ⟨s.buf.drop (2 + le16 (s.buf.take 2) + 16), s.ctr + 1⟩ [] with
          | mk o r =>
            cases r with
            | none => simp
            | some s' => simp [List.append_assoc]

/-- two reads = one read of the concatenation -/
theorem recv_recv (op : Opener) (s : St) (a b : Bytes) :
    (match recv op s a with
     | (o, none) => (o, none)
     | (o, some s') => let r := recv op s' b; (o ++ r.1, r.2))
    = recv op s (a ++ b) := by
  have := loop_app op ((s.buf ++ a).length + 1) ⟨s.buf ++ a, s.ctr⟩ b (Nat.lt_succ_self _)
  simp only [recv, L] at this ⊢
  rw [List.append_assoc] at this
  exact this

theorem recvAll_out (op : Opener) : ∀ (cs : List Bytes) (s : St) (out : List Bytes),
    recvAll op s cs out = (out ++ (recvAll op s cs []).1, (recvAll op s cs []).2) := by
  intro cs
  induction cs with
  | nil => intro s out; simp [recvAll]
  | cons c cs ih =>
    intro s out
    simp only [recvAll]
    cases h : recv op s c with
    | mk o r =>
      cases r with
      | none => simp
      | some s' =>
        simp only [List.nil_append]
        rw [ih s' (out ++ o), ih s' o]
        simp [List.append_assoc]

/-! ### well-formed frame streams -/

theorem le16_natToLe (n : Nat) (h : n < 65536) : le16 (natToLe 2 n) = n := by
  simp only [natToLe, le16]
  have h1 : n % 256 < 256 := Nat.mod_lt _ (by omega)
  have h2 : n / 256 % 256 < 256 := Nat.mod_lt _ (by omega)
  simp [Nat.mod_eq_of_lt h1, Nat.mod_eq_of_lt h2]
  omega

/-- one genuine frame at the head of the buffer is consumed by one loop iteration -/
theorem loop_frame (op : Opener) (f : Nat) (c : Nat) (ct tail : Bytes) (n : Nat) (out : List Bytes) (p : Bytes)
    (hn : n < 65536) (hct : ct.length = n + 16) (hop : op c (natToLe 2 n) ct = some p)
    (hf : (natToLe 2 n ++ ct ++ tail).length < f + 1) :
    loop op (f + 1) ⟨natToLe 2 n ++ ct ++ tail, c⟩ out = loop op f ⟨tail, c + 1⟩ (out ++ [p]) := by
  have hlb : (natToLe 2 n).length = 2 := by simp
  have e1 : (natToLe 2 n ++ ct ++ tail).take 2 = natToLe 2 n := by
    rw [List.append_assoc, List.take_left' hlb]
  have e2 : ((natToLe 2 n ++ ct ++ tail).drop 2).take (n + 16) = ct := by
    rw [List.append_assoc, List.drop_left' hlb, List.take_left' hct]
  have e3 : (natToLe 2 n ++ ct ++ tail).drop (2 + n + 16) = tail := by
    have : (natToLe 2 n ++ ct).length = 2 + n + 16 := by simp [hct]; omega
    exact List.drop_left' this
  have hlen : (natToLe 2 n ++ ct ++ tail).length = 2 + n + 16 + tail.length := by simp [hct]; omega
  rw [loop]
  simp only [e1, le16_natToLe n hn, e2, e3, hop]
  have h2 : ¬ (natToLe 2 n ++ ct ++ tail).length < 2 := by omega
  have h3 : ¬ (natToLe 2 n ++ ct ++ tail).length < 2 + n + 16 := by omega
  simp only [h2, h3, if_false]

end HapVerif.SecureFrame
