import HapVerif.Model.Crypto.Abstract

/-! A toy instance of the crypto interface for which every law is *proved* (it is of course not
secure: DH is XOR, signatures and tags are in the clear).  Its only purpose is to show that the
hypotheses `Crypto.Laws C` of the property theorems are satisfiable. -/

namespace HapVerif.Ideal

def fix (n : Nat) (b : Bytes) : Bytes := (b ++ List.replicate n 0).take n

theorem fix_length (n : Nat) (b : Bytes) : (fix n b).length = n := by simp [fix]

def xorB (a b : Bytes) : Bytes := List.zipWith (· ^^^ ·) a b

theorem xorB_comm (a b : Bytes) : xorB a b = xorB b a := by
  unfold xorB
  induction a generalizing b with
  | nil => cases b <;> rfl
  | cons x a ih =>
    cases b with
    | nil => rfl
    | cons y b => simp [List.zipWith, ih, UInt8.xor_comm]

def tag (k n a : Bytes) : Bytes := fix 16 (k ++ n ++ a)

def ideal : Crypto where
  hkdf ikm salt info len := fix len (ikm ++ salt ++ info)
  aeadSeal k n a p := p ++ tag k n a
  aeadOpen k n a c := if c.length ≥ 16 ∧ c.drop (c.length - 16) = tag k n a then some (c.take (c.length - 16)) else none
  dhPub sk := fix 32 sk
  dh sk pk := xorB (fix 32 sk) pk
  edPub sk := fix 32 sk
  edSign sk m := fix 32 sk ++ m
  edVerify pk m s := s == pk ++ m

theorem ideal_laws : Crypto.Laws ideal where
  open_seal := by
    intro k n a p
    have ht : (tag k n a).length = 16 := fix_length _ _
    simp only [ideal, List.length_append, ht]
    have h1 : p.length + 16 ≥ 16 := by omega
    have h2 : (p ++ tag k n a).drop (p.length + 16 - 16) = tag k n a := by simp
    have h3 : (p ++ tag k n a).take (p.length + 16 - 16) = p := by simp
    simp [h2, h3]
  open_sound := by
    intro k n a c p h
    simp only [ideal] at h
    split at h
    · rename_i hc
      cases h
      show c = c.take (c.length - 16) ++ tag k n a
      rw [← hc.2, List.take_append_drop]
    · cases h
  dh_comm := by intro a b; simp only [ideal]; exact xorB_comm _ _
  verify_sign := by intro sk m; simp [ideal]
  verify_sound := by intro sk m s h; simpa [ideal] using h
  sign_inj := by intro sk m m' h; exact List.append_cancel_left h
  seal_inj := by
    intro k n a p k' n' a' p' h
    simp only [ideal] at h
    have ht : (tag k n a).length = (tag k' n' a').length := by simp [tag, fix_length]
    exact (List.append_inj' h ht).1
  pubLen := by intro sk; exact fix_length _ _
  edPubLen := by intro sk; exact fix_length _ _

end HapVerif.Ideal
