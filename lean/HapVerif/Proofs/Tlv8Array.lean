import HapVerif.Proofs.Tlv8Struct

/-! # `tlv_array`: list-of-struct fields of `TLVStruct` (helper lemmas for C16)

Exact byte length of a fragmented value, the iterator on one list item followed by a separator, the fold of
`tlv_array` over a separator-joined list, and the field-level round trip of `Sequence[TLVStruct]`. -/

namespace HapVerif.Tlv8
open HapVerif HapVerif.Srp


theorem frag_length (t : UInt8) : ∀ (m : Nat) (e : Bytes) (n : Nat), e.length = m → e ≠ [] → e.length ≤ n →
    (frag t n e).length = lastOff e + 2 + lastLen e := by
  intro m
  induction m using Nat.strongRecOn with
  | _ m ih =>
    intro e n hm hne hn
    obtain ⟨b, v, rfl⟩ := List.exists_cons_of_ne_nil hne
    cases n with
    | zero => simp at hn
    | succ n' =>
      rw [frag_cons]
      by_cases hd : (b :: v).drop 255 = []
      · have hlen : (b :: v).length ≤ 255 := by
          have := congrArg List.length hd; simp at this ⊢; omega
        have h0 : ((b :: v).length - 1) / 255 = 0 := by omega
        rw [hd, frag_nil]
        simp only [List.length_cons, List.length_append, List.length_take, List.length_nil, lastOff, lastLen] at h0 hlen ⊢
        omega
      · have hgt : 256 ≤ (b :: v).length := by
          have : 0 < ((b :: v).drop 255).length := List.length_pos_iff.mpr hd
          simp at this ⊢; omega
        have := ih ((b :: v).drop 255).length (by simp at hm ⊢; omega) ((b :: v).drop 255) n' rfl hd
          (by simp at hn ⊢; omega)
        simp only [List.length_cons, List.length_append, List.length_take, this]
        have hl' : ((b :: v).drop 255).length = (b :: v).length - 255 := by simp
        simp only [lastOff, lastLen, hl']
        have h1 : ((b :: v).length - 1) / 255 = ((b :: v).length - 255 - 1) / 255 + 1 := by omega
        rw [h1]
        simp only [List.length_cons] at hgt ⊢
        omega

theorem cat_seg_length (t : UInt8) (e : Bytes) (he : e ≠ []) :
    (frag t e.length e).length = lastOff e + 2 + lastLen e := frag_length t e.length e e.length rfl he (Nat.le_refl _)

/-- the iterator on the canonical encoding of one list item followed by a separator (or the end): it yields the
    item's segments - none of type 0 - and continues exactly at the end of the item -/
theorem iterAux_item (segs : List (UInt8 × Bytes)) (h : GoodSegs segs) (hz : ∀ s ∈ segs, s.1 ≠ 0)
    (tail : Bytes) (htail : tail = [] ∨ ∃ r, tail = 0 :: r) :
    ∀ (fuel off : Nat), (cat segs ++ tail).length < fuel →
    ∃ items, items.map (fun it => (it.2.1, it.2.2.2)) = segs ∧
      iterAux fuel off (cat segs ++ tail) =
        match iterAux (fuel - segs.length) (off + (cat segs).length) tail with
        | .error err => .error err
        | .ok its => .ok (items ++ its) := by
  induction segs with
  | nil =>
    intro fuel off _
    refine ⟨[], rfl, ?_⟩
    simp only [cat, List.nil_append, List.length_nil, Nat.sub_zero, Nat.add_zero]
    cases iterAux fuel off tail <;> rfl
  | cons s rest ih =>
    obtain ⟨t, e⟩ := s
    intro fuel off hf
    have he : e ≠ [] := by
      cases rest with
      | nil => exact h
      | cons s' r' => obtain ⟨t', e'⟩ := s'; exact h.1
    have hrest : GoodSegs rest := by
      cases rest with
      | nil => trivial
      | cons s' r' => obtain ⟨t', e'⟩ := s'; exact h.2.2
    have ht0 : t ≠ 0 := hz (t, e) (by simp)
    have htl : cat rest ++ tail = [] ∨ ∃ t' r, cat rest ++ tail = t' :: r ∧ t' ≠ t := by
      cases rest with
      | nil =>
        simp only [cat, List.nil_append]
        rcases htail with rfl | ⟨r, rfl⟩
        · left; rfl
        · right; exact ⟨0, r, rfl, fun hh => ht0 hh.symm⟩
      | cons s' r' =>
        obtain ⟨t', e'⟩ := s'
        right
        have he' : e' ≠ [] := by
          cases r' with
          | nil => exact h.2.2
          | cons s'' r'' => obtain ⟨t'', e''⟩ := s''; exact h.2.2.1
        obtain ⟨r, hr⟩ := cat_head t' e' r' he'
        exact ⟨t', r ++ tail, by rw [hr]; rfl, fun hh => h.2.1 hh.symm⟩
    cases fuel with
    | zero => omega
    | succ f =>
      have hlen := frag_length_ge t e.length e (Nat.le_refl _)
      have hpos : 0 < e.length := List.length_pos_iff.mpr he
      simp only [cat, List.length_append, List.append_assoc] at hf ⊢
      have h1 := iterAux_frag t e (cat rest ++ tail) e.length f off he (Nat.le_refl _) (by omega) htl
      rw [h1]
      obtain ⟨items, hm, hi⟩ := ih hrest (fun s hs => hz s (by simp [hs])) f
        (off + lastOff e + 2 + lastLen e) (by simp only [List.length_append]; omega)
      rw [hi]
      refine ⟨(off + lastOff e, t, lastLen e, e) :: items, by simp [hm], ?_⟩
      have hoff : off + lastOff e + 2 + lastLen e + (cat rest).length =
          off + ((frag t e.length e).length + (cat rest).length) := by
        rw [cat_seg_length t e he]; omega
      have hfu : f - rest.length = f + 1 - (rest.length + 1) := by omega
      simp only [List.length_cons]
      rw [hoff, hfu]
      cases iterAux (f + 1 - (rest.length + 1)) (off + ((frag t e.length e).length + (cat rest).length)) tail <;> rfl

/-- the fold of `tlv_array` -/
def arrStep (b : Bytes) (acc : Nat × List Bytes) (it : Nat × UInt8 × Nat × Bytes) : Nat × List Bytes :=
  if it.2.1 = 0 then (it.1 + 2, acc.2 ++ [(b.drop acc.1).take (it.1 - acc.1)]) else acc

theorem tlvArray_eq (b : Bytes) :
    tlvArray b = (iter b).bind (fun items =>
      let r := items.foldl (arrStep b) (0, [])
      .ok (if (b.drop r.1).isEmpty then r.2 else r.2 ++ [b.drop r.1])) := by
  unfold tlvArray
  cases iter b with
  | error e => rfl
  | ok items =>
    simp only [bind, Except.bind, pure, Except.pure]
    have : (fun (acc : Nat × List Bytes) (it : Nat × UInt8 × Nat × Bytes) =>
        match acc with
        | (start, outs) =>
          match it with
          | (off, t, _, _) => if t = 0 then (off + 2, outs ++ [(b.drop start).take (off - start)]) else (start, outs)) =
        arrStep b := by
      funext acc it
      obtain ⟨a1, a2⟩ := acc
      obtain ⟨i1, i2, i3, i4⟩ := it
      rfl
    rw [this]

theorem fold_nozero (b : Bytes) (items : List (Nat × UInt8 × Nat × Bytes)) (acc : Nat × List Bytes)
    (h : ∀ it ∈ items, it.2.1 ≠ 0) : items.foldl (arrStep b) acc = acc := by
  induction items generalizing acc with
  | nil => rfl
  | cons it items ih =>
    simp only [List.foldl_cons]
    have : arrStep b acc it = acc := by simp [arrStep, h it (by simp)]
    rw [this]
    exact ih acc (fun x hx => h x (by simp [hx]))

theorem segs_le_cat (segs : List (UInt8 × Bytes)) (h : ∀ s ∈ segs, s.2 ≠ []) : segs.length ≤ (cat segs).length := by
  induction segs with
  | nil => simp
  | cons s rest ih =>
    obtain ⟨t, e⟩ := s
    have he : e ≠ [] := h (t, e) (by simp)
    have := frag_length_ge t e.length e (Nat.le_refl _)
    have hpos : 0 < e.length := List.length_pos_iff.mpr he
    have := ih (fun s hs => h s (by simp [hs]))
    simp only [cat, List.length_cons, List.length_append]
    omega

theorem goodSegs_ne (segs : List (UInt8 × Bytes)) (h : GoodSegs segs) : ∀ s ∈ segs, s.2 ≠ [] := by
  induction segs with
  | nil => intro s hs; cases hs
  | cons s rest ih =>
    obtain ⟨t, e⟩ := s
    cases rest with
    | nil => intro s hs; simp at hs; subst hs; exact h
    | cons s' r' =>
      obtain ⟨t', e'⟩ := s'
      intro s hs
      rcases List.mem_cons.mp hs with rfl | hs
      · exact h.1
      · exact ih h.2.2 s hs

/-- what one list item must satisfy -/
structure GoodItem (segs : List (UInt8 × Bytes)) : Prop where
  good : GoodSegs segs
  nz : ∀ s ∈ segs, s.1 ≠ 0
  ne : segs ≠ []

def joinItems : List Bytes → Bytes
  | [] => []
  | [e] => e
  | e :: rest => e ++ [0, 0] ++ joinItems rest

theorem cat_ne_nil (segs : List (UInt8 × Bytes)) (h : GoodItem segs) : cat segs ≠ [] := by
  obtain ⟨s, rest, rfl⟩ := List.exists_cons_of_ne_nil h.ne
  obtain ⟨t, e⟩ := s
  have he := goodSegs_ne _ h.good (t, e) (by simp)
  obtain ⟨r, hr⟩ := cat_head t e rest he
  rw [hr]; simp

/-- `tlv_array` splits a separator-joined list of canonical item encodings back into exactly the items -/
theorem arr_fold (encs : List (List (UInt8 × Bytes))) (hne : encs ≠ []) (hg : ∀ e ∈ encs, GoodItem e) :
    ∀ (pre : Bytes) (outs : List Bytes) (fuel : Nat),
    (joinItems (encs.map cat)).length < fuel →
    ∃ items, iterAux fuel pre.length (joinItems (encs.map cat)) = .ok items ∧
      ∃ start, items.foldl (arrStep (pre ++ joinItems (encs.map cat))) (pre.length, outs) =
          (start, outs ++ (encs.map cat).dropLast) ∧
        (pre ++ joinItems (encs.map cat)).drop start = (encs.map cat).getLast (by simpa using hne) := by
  induction encs with
  | nil => exact absurd rfl hne
  | cons e rest ih =>
    intro pre outs fuel hf
    have hge := hg e (by simp)
    cases rest with
    | nil =>
      simp only [List.map_cons, List.map_nil, joinItems] at hf ⊢
      obtain ⟨items, hm, hi⟩ := iterAux_item e hge.good hge.nz [] (Or.inl rfl) fuel pre.length
        (by simpa using hf)
      simp only [List.append_nil] at hi
      have hnil : iterAux (fuel - e.length) (pre.length + (cat e).length) [] = .ok [] := by
        cases fuel - e.length <;> rfl
      rw [hnil] at hi
      simp only [List.append_nil] at hi
      refine ⟨items, hi, pre.length, ?_, by simp⟩
      rw [fold_nozero _ items _ (fun it hit => by
        have : (it.2.1, it.2.2.2) ∈ e := by rw [← hm]; exact List.mem_map_of_mem hit
        exact hge.nz _ this)]
      simp
    | cons e2 rest2 =>
      have hrest_ne : (e2 :: rest2) ≠ [] := by simp
      simp only [List.map_cons, joinItems] at hf ⊢
      set body' := joinItems (cat e2 :: List.map cat rest2) with hb'
      have hbody : joinItems (List.map cat (e2 :: rest2)) = body' := by simp [hb']
      obtain ⟨items1, hm, hi⟩ := iterAux_item e hge.good hge.nz (0 :: 0 :: body') (Or.inr ⟨_, rfl⟩) fuel pre.length
        (by simp only [List.length_append, List.length_cons, List.length_nil] at hf ⊢; omega)
      have hsl := segs_le_cat e (goodSegs_ne e hge.good)
      have hf2 : (cat e).length + 2 + body'.length < fuel := by
        simp only [List.length_append, List.length_cons, List.length_nil] at hf
        omega
      -- the separator item
      have hsep : ∀ f off, iterAux (f + 1) off (0 :: 0 :: body') =
          match iterAux f (off + 2) body' with
          | .error err => .error err
          | .ok its => .ok ((off, 0, 0, []) :: its) := by
        intro f off
        simp only [iterAux]
        cases f with
        | zero => simp [join]; rfl
        | succ f' => simp [join]; rfl
      obtain ⟨k, hk⟩ : ∃ k, fuel - e.length = k + 1 := ⟨fuel - e.length - 1, by omega⟩
      rw [hk, hsep] at hi
      have hpre' : (pre ++ cat e ++ [0, 0]).length = pre.length + (cat e).length + 2 := by simp; omega
      obtain ⟨items2, hi2, start, hfold, hlast⟩ := ih hrest_ne (fun x hx => hg x (by simp [hx]))
        (pre ++ cat e ++ [0, 0]) (outs ++ [cat e]) k (by rw [hbody]; omega)
      rw [hbody, hpre'] at hi2
      rw [hpre'] at hfold
      rw [hi2] at hi
      refine ⟨items1 ++ (pre.length + (cat e).length, 0, 0, []) :: items2, by simpa [List.append_assoc] using hi, start, ?_, ?_⟩
      · rw [List.foldl_append, fold_nozero _ items1 _ (fun it hit => by
          have : (it.2.1, it.2.2.2) ∈ e := by rw [← hm]; exact List.mem_map_of_mem hit
          exact hge.nz _ this)]
        simp only [List.foldl_cons, arrStep, if_true]
        have hslice : List.take (pre.length + (cat e).length - pre.length)
            (List.drop pre.length (pre ++ (cat e ++ [0, 0] ++ body'))) = cat e := by
          simp [List.append_assoc]
        simp only [hslice]
        have hb2 : pre ++ (cat e ++ [0, 0] ++ body') = pre ++ cat e ++ [0, 0] ++ joinItems (List.map cat (e2 :: rest2)) := by
          rw [hbody]; simp [List.append_assoc]
        rw [hb2, hfold]
        simp [List.dropLast, List.append_assoc]
      · have hb2 : pre ++ (cat e ++ [0, 0] ++ body') = pre ++ cat e ++ [0, 0] ++ joinItems (List.map cat (e2 :: rest2)) := by
          rw [hbody]; simp [List.append_assoc]
        rw [hb2, hlast]
        simp

theorem tlvArray_joinItems (encs : List (List (UInt8 × Bytes))) (hne : encs ≠ []) (hg : ∀ e ∈ encs, GoodItem e) :
    tlvArray (joinItems (encs.map cat)) = .ok (encs.map cat) := by
  rw [tlvArray_eq]
  obtain ⟨items, hi, start, hfold, hlast⟩ := arr_fold encs hne hg [] [] ((joinItems (encs.map cat)).length + 1)
    (Nat.lt_succ_self _)
  simp only [List.length_nil, List.nil_append] at hi hfold hlast
  simp only [iter, hi, Except.bind, hfold, hlast]
  have hlne : (encs.map cat).getLast (by simpa using hne) ≠ [] := by
    have hmem := List.getLast_mem (l := encs.map cat) (by simpa using hne)
    obtain ⟨e, he, heq⟩ := List.mem_map.mp hmem
    rw [← heq]
    exact cat_ne_nil e (hg e he)
  have : ((encs.map cat).getLast (by simpa using hne)).isEmpty = false := by
    cases hx : (encs.map cat).getLast (by simpa using hne) with
    | nil => exact absurd hx hlne
    | cons _ _ => rfl
  simp only [this, Bool.false_eq_true, if_false]
  congr 1
  exact List.dropLast_append_getLast (by simpa using hne)

theorem encSeq_join (s : Schema) : ∀ (vs : List SVal) (es : List Bytes),
    List.Forall₂ (fun v e => encStruct s v = .ok e) vs es → encSeq s vs = .ok (joinItems es) := by
  intro vs es h
  induction h with
  | nil => simp [encSeq, joinItems]
  | cons hve hrest ih =>
    rename_i v e vs' es'
    cases hrest with
    | nil => simp [encSeq, joinItems, hve]
    | cons hve2 hrest2 =>
      rename_i v2 e2 vs2 es2
      rw [encSeq]
      · simp only [hve, ih, bind, Except.bind, pure, Except.pure, joinItems]
      · intro hv; cases hv

/-- a list-of-structs field round-trips when every item does (through a non-empty encoding) and the item schema
    has no field of TLV type 0 (the separator) -/
theorem field_seqStruct (fs : List (Nat × FieldTy)) (hnd : (fs.map (·.1)).Nodup) (hlt : ∀ f ∈ fs, f.1 < 256)
    (hnz : ∀ f ∈ fs, f.1 ≠ 0)
    (items : List (List (Option Val) × List (Option Bytes))) (hne : items ≠ [])
    (henc : ∀ it ∈ items, Enc fs it.1 it.2 ∧ segsOf fs it.2 ≠ []) :
    let enc := joinItems (items.map (fun it => cat (segsOf fs it.2)))
    encVal (.seqStruct (.mk fs)) (.seq (items.map (fun it => SVal.mk it.1))) = .ok enc ∧ enc ≠ [] ∧
    decVal (.seqStruct (.mk fs)) enc = .ok (.seq (items.map (fun it => SVal.mk it.1))) := by
  intro enc
  have hgood : ∀ e ∈ items.map (fun it => segsOf fs it.2), GoodItem e := by
    intro e he
    obtain ⟨it, hit, rfl⟩ := List.mem_map.mp he
    obtain ⟨h1, h2⟩ := henc it hit
    refine ⟨goodSegs_of_enc fs it.1 it.2 h1 hnd hlt, ?_, h2⟩
    intro s hs
    obtain ⟨f, hf, hs1, _⟩ := segsOf_types fs it.1 it.2 h1 s hs
    rw [hs1]
    intro h0
    have := ofNat_inj_lt f.1 0 (hlt f hf) (by omega) h0
    exact hnz f hf this
  have hmap : (items.map (fun it => segsOf fs it.2)).map cat = items.map (fun it => cat (segsOf fs it.2)) := by
    simp [List.map_map, Function.comp]
  have henc2 : encSeq (.mk fs) (items.map (fun it => SVal.mk it.1)) = .ok enc := by
    apply encSeq_join
    rw [List.forall₂_map_left_iff, List.forall₂_map_right_iff]
    apply List.forall₂_same.mpr
    intro it hit
    exact (struct_roundtrip fs it.1 it.2 (henc it hit).1 hnd hlt).1
  refine ⟨by simp [encVal, henc2], ?_, ?_⟩
  · obtain ⟨it, rest, rfl⟩ := List.exists_cons_of_ne_nil hne
    have hc := cat_ne_nil _ (hgood (segsOf fs it.2) (by simp))
    show joinItems _ ≠ []
    cases rest with
    | nil => simpa [joinItems] using hc
    | cons it2 rest2 =>
      simp only [List.map_cons, joinItems]
      intro h
      have := congrArg List.length h
      simp at this
  · have harr := tlvArray_joinItems (items.map (fun it => segsOf fs it.2)) (by simpa using hne) hgood
    rw [hmap] at harr
    simp only [decVal, enc, harr, bind, Except.bind]
    have hm : List.mapM (fun it => decStruct (.mk fs) it) (items.map (fun it => cat (segsOf fs it.2))) =
        .ok (items.map (fun it => SVal.mk it.1)) := by
      clear harr henc2 hmap hgood hne enc
      induction items with
      | nil => rfl
      | cons it rest ih =>
        have h1 := (struct_roundtrip fs it.1 it.2 (henc it (by simp)).1 hnd hlt).2
        have h2 := ih (fun x hx => henc x (by simp [hx]))
        simp only [List.map_cons, List.mapM_cons, h1, h2, bind, Except.bind, pure, Except.pure]
    rw [hm]
    rfl

end HapVerif.Tlv8
