import HapVerif.Proofs.Http

/-! Feed-level lemmas for C07: consumption bounds, stability of a complete message, and
`feed (a ++ b) = feed a ; feed b`. -/

namespace HapVerif.Http

/-- an empty chunk was seen only together with the DONE state -/
def WFc (c : Core) : Prop := c.hadEmpty = true → c.state = 3

/-- `H (app p d)` ran the header block to its end only with a single framing announced -/
def GoodAt (q : P) : Prop := ∀ p1, H q = .ok p1 → 2 ≤ p1.core.state → good p1.core

theorem headLine_hadEmpty (c c' : Core) (line : Bytes) (h : headLine c line = .ok c') :
    c'.hadEmpty = c.hadEmpty := by
  unfold headLine at h
  dsimp only at h
  repeat' (split at h)
  all_goals (first | (cases h; rfl) | cases h)

theorem headLoop_props : ∀ (f : Nat) (p p' : P), headLoop f p = .ok p' →
    p'.raw.length ≤ p.raw.length ∧ (p'.raw.length = p.raw.length → p' = p) ∧
    p'.core.hadEmpty = p.core.hadEmpty := by
  intro f
  induction f with
  | zero => intro p p' h; simp [headLoop] at h; subst h; simp
  | succ n ih =>
    intro p p' h
    rw [headLoop] at h
    split at h
    · cases h; simp
    · split at h
      · cases h; simp
      · rename_i pos hpos
        have hb := findCRLF_bound _ _ hpos
        split at h
        · cases h
        · rename_i c hc
          obtain ⟨h1, _, h3⟩ := ih _ _ h
          simp only [List.length_drop] at h1
          refine ⟨by omega, fun heq => by omega, ?_⟩
          rw [h3]; exact headLine_hadEmpty _ _ _ hc

theorem chunkLoop_props : ∀ (f : Nat) (p p' : P), chunkLoop f p = .ok p' →
    p'.raw.length ≤ p.raw.length ∧ (p'.raw.length = p.raw.length → p' = p) ∧
    (WFc p.core → WFc p'.core) := by
  intro f
  induction f with
  | zero => intro p p' h; simp [chunkLoop] at h; subst h; simp
  | succ n ih =>
    intro p p' h
    rw [chunkLoop] at h
    split at h
    · cases h; simp
    · rename_i pos hpos
      have hb := findCRLF_bound _ _ hpos
      split at h
      · cases h
      · rename_i len hlen
        simp only at h
        split at h
        · cases h; simp
        · split at h
          · cases h
            refine ⟨?_, ?_, ?_⟩
            · simp only [List.length_drop]; omega
            · intro heq; simp only [List.length_drop] at heq; omega
            · intro _ _; rfl
          · obtain ⟨h1, _, h3⟩ := ih _ _ h
            simp only [List.length_drop] at h1
            refine ⟨by omega, fun heq => by omega, fun hw => h3 ?_⟩
            exact hw

theorem bodyStep_props (p : P) :
    (bodyStep p).raw.length ≤ p.raw.length ∧ ((bodyStep p).raw.length = p.raw.length → bodyStep p = p) ∧
    (bodyStep p).core.hadEmpty = p.core.hadEmpty := by
  unfold bodyStep
  split
  · rename_i n hn
    split
    · simp only [List.length_drop]
      refine ⟨by omega, fun heq => ?_, trivial⟩
      have hz : (p.raw.take (n - p.core.body.length)) = [] := by
        by_cases h0 : n - p.core.body.length = 0
        · simp [h0]
        · have : p.raw.length = 0 := by omega
          have : p.raw = [] := List.length_eq_zero_iff.mp this
          simp [this]
      have hd : p.raw.drop (n - p.core.body.length) = p.raw := by
        by_cases h0 : n - p.core.body.length = 0
        · simp [h0]
        · have : p.raw.length = 0 := by omega
          have : p.raw = [] := List.length_eq_zero_iff.mp this
          simp [this]
      rw [hz, hd]
      cases p with
      | mk core raw => cases core; simp
    · simp
  · simp

theorem CP_props (p p' : P) (h : CP p = .ok p') :
    p'.raw.length ≤ p.raw.length ∧ (p'.raw.length = p.raw.length → p' = p) ∧ (WFc p.core → WFc p'.core) := by
  unfold CP chunkPhase at h
  split at h
  · exact chunkLoop_props _ _ _ h
  · cases h; simp

theorem H_props (p p' : P) (h : H p = .ok p') :
    p'.raw.length ≤ p.raw.length ∧ (p'.raw.length = p.raw.length → p' = p) ∧ (WFc p.core → WFc p'.core) := by
  obtain ⟨h1, h2, h3⟩ := headLoop_props _ _ _ h
  refine ⟨h1, h2, fun hw => ?_⟩
  by_cases he : p.core.hadEmpty = true
  · -- DONE already: the header loop does not run
    have hs : 2 ≤ p.core.state := by rw [hw he]; omega
    rw [H_of_state p hs] at h
    cases h; exact hw
  · intro he'
    rw [h3] at he'
    exact absurd he' he

/-- one `parse` call never grows the buffer; if it consumed nothing it changed nothing -/
theorem norm'_props (p p3 : P) (h : norm' p = .ok p3) :
    p3.raw.length ≤ p.raw.length ∧ (p3.raw.length = p.raw.length → p3 = p) ∧ (WFc p.core → WFc p3.core) := by
  unfold norm' at h
  cases h1 : H p with
  | error e => rw [h1] at h; cases h
  | ok p1 =>
    rw [h1, ok_bind] at h
    cases h2 : CP p1 with
    | error e => rw [h2] at h; cases h
    | ok p2 =>
      rw [h2, ok_bind] at h
      cases h
      obtain ⟨a1, a2, a3⟩ := H_props _ _ h1
      obtain ⟨b1, b2, b3⟩ := CP_props _ _ h2
      obtain ⟨c1, c2, c3⟩ := bodyStep_props p2
      refine ⟨by omega, fun heq => ?_, fun hw => ?_⟩
      · have e3 : (bodyStep p2).raw.length = p2.raw.length := by omega
        have e2 : p2.raw.length = p1.raw.length := by omega
        have e1 : p1.raw.length = p.raw.length := by omega
        rw [c2 e3, b2 e2, a2 e1]
      · intro he
        rw [c3] at he
        have := b3 (a3 hw) he
        rw [bodyStep_core_state]; exact this

theorem bodyStep_noop (p : P)
    (h : p.core.state ≠ 2 ∨ p.core.clen = none ∨ p.core.clen = some p.core.body.length) : bodyStep p = p := by
  unfold bodyStep
  cases hcl : p.core.clen with
  | none => rfl
  | some n =>
    simp only
    split
    · rename_i hg
      rcases h with h | h | h
      · exact absurd hg.1 h
      · rw [hcl] at h; cases h
      · rw [hcl] at h
        have hn : n = p.core.body.length := by injection h
        subst hn
        simp only [Nat.sub_self, List.take_zero, List.append_nil, List.drop_zero]
    · rfl

/-- **A complete message consumes nothing more**: later bytes stay in the buffer untouched. -/
theorem complete_stable (q : P) (d : Bytes) (hc : q.core.complete = true) (hw : WFc q.core) :
    norm' (app q d) = .ok (app q d) := by
  have hcases : (q.core.state = 3) ∨ (q.core.chunked = false ∧ 2 ≤ q.core.state ∧
      (q.core.clen = none ∨ q.core.clen = some q.core.body.length)) := by
    unfold Core.complete at hc
    by_cases hch : q.core.chunked = true
    · left; rw [if_pos hch] at hc; exact hw hc
    · right
      rw [if_neg hch] at hc
      by_cases hst : q.core.state < 2
      · rw [if_pos hst] at hc; cases hc
      · rw [if_neg hst] at hc
        refine ⟨by simpa using hch, by omega, ?_⟩
        cases hcl : q.core.clen with
        | none => left; rfl
        | some n =>
          right
          rw [hcl] at hc
          have : q.core.body.length = n := by simpa using hc
          rw [this]
  unfold norm'
  rcases hcases with hs | ⟨hch, hs, hcl⟩
  · have hH : H (app q d) = .ok (app q d) := H_of_state _ (by simp [hs])
    have hCP : CP (app q d) = .ok (app q d) := by simp [CP, chunkPhase, hs]
    have hb : bodyStep (app q d) = app q d := bodyStep_noop _ (Or.inl (by simp [hs]))
    rw [hH, ok_bind, hCP, ok_bind, hb]; rfl
  · have hH : H (app q d) = .ok (app q d) := H_of_state _ (by simpa using hs)
    have hCP : CP (app q d) = .ok (app q d) := by simp [CP, chunkPhase, hch]
    have hb : bodyStep (app q d) = app q d := bodyStep_noop _ (Or.inr (by simpa using hcl))
    rw [hH, ok_bind, hCP, ok_bind, hb]; rfl

/-- `norm'` is idempotent on its results (under the single-framing hypothesis) -/
theorem norm'_idem (p p1 : P) (hg : GoodAt p) (h : norm' p = .ok p1) : norm' p1 = .ok p1 := by
  have := norm_app p [] hg
  rw [h, ok_bind, app_nil, app_nil, h] at this
  exact this

/-- invariant of the parser object between two reads: it is a fixed point of one parse call
    (nothing more can be consumed from its buffer), it is not complete, and it is well-formed -/
def INV (p : P) : Prop := norm' p = .ok p ∧ p.core.complete = false ∧ WFc p.core

theorem INV_fresh : INV {} := by
  refine ⟨by decide, by decide, ?_⟩
  intro h; cases h

/-- completing a message consumed at least one byte -/
theorem shrink (p p' : P) (d : Bytes) (hinv : INV p) (h : norm' (app p d) = .ok p')
    (hc : p'.core.complete = true) : p'.raw.length < p.raw.length + d.length := by
  obtain ⟨h1, h2, _⟩ := norm'_props _ _ h
  simp only [app_raw, List.length_append] at h1 h2
  by_cases heq : p'.raw.length = p.raw.length + d.length
  · have := h2 heq
    rw [this, app_core, hinv.2.1] at hc
    cases hc
  · omega

theorem INV_of_wait (p p' : P) (d : Bytes) (hinv : INV p) (hg : GoodAt (app p d))
    (h : norm' (app p d) = .ok p') (hc : p'.core.complete = false) : INV p' :=
  ⟨norm'_idem _ _ hg h, hc, (norm'_props _ _ h).2.2 hinv.2.2⟩

theorem feedLoop_fuel : ∀ (f1 f2 : Nat) (p : P) (d : Bytes), INV p →
    p.raw.length + d.length < f1 → p.raw.length + d.length < f2 → feedLoop f1 p d = feedLoop f2 p d := by
  intro f1
  induction f1 with
  | zero => intro f2 p d _ h; omega
  | succ n ih =>
    intro f2 p d hinv h1 h2
    obtain ⟨m, rfl⟩ : ∃ m, f2 = m + 1 := ⟨f2 - 1, by omega⟩
    simp only [feedLoop]
    split
    · rfl
    · rw [norm_eq]
      cases hX : norm' (app p d) with
      | error e => rfl
      | ok p' =>
        simp only
        split
        · rename_i hc
          have := shrink p p' d hinv hX hc
          rw [ih m {} p'.raw INV_fresh (by simp; omega) (by simp; omega)]
        · rfl


/-- Side condition on a stream `a` read from parser state `p` (message after message): no header
    block that ends inside `a` announces both `Transfer-Encoding: chunked` and a positive
    `Content-Length` (RFC 7230 §3.3.3 forbids the combination; the real parser is
    split-dependent on it, see DESIGN.md C07). -/
inductive GoodRun : P → Bytes → Prop
  | nil (p : P) : GoodRun p []
  | err (p : P) (d : Bytes) (e : Err) : GoodAt (app p d) → norm' (app p d) = .error e → GoodRun p d
  | wait (p p' : P) (d : Bytes) : GoodAt (app p d) → norm' (app p d) = .ok p' →
      p'.core.complete = false → GoodRun p d
  | msg (p p' : P) (d : Bytes) : GoodAt (app p d) → norm' (app p d) = .ok p' →
      p'.core.complete = true → GoodRun {} p'.raw → GoodRun p d

theorem GoodRun_at (p : P) (d : Bytes) (hd : d ≠ []) (h : GoodRun p d) : GoodAt (app p d) := by
  cases h with
  | nil => exact absurd rfl hd
  | err _ _ _ hg _ => exact hg
  | wait _ _ _ hg _ _ => exact hg
  | msg _ _ _ hg _ _ _ => exact hg

theorem GoodRun_next (p p' : P) (d : Bytes) (hd : d ≠ []) (h : GoodRun p d)
    (hX : norm' (app p d) = .ok p') (hc : p'.core.complete = true) : GoodRun {} p'.raw := by
  cases h with
  | nil => exact absurd rfl hd
  | err _ _ _ _ he => rw [hX] at he; cases he
  | wait _ q _ _ hq hqc => rw [hX] at hq; cases hq; rw [hc] at hqc; cases hqc
  | msg _ q _ _ hq _ hnext => rw [hX] at hq; cases hq; exact hnext

theorem feed_nil (p : P) : feed p [] = ([], .ok p) := by
  simp [feed, feedLoop]

/-- one unfolding of `feed` on a non-empty read -/
theorem feed_cons (p : P) (d : Bytes) (hd : d ≠ []) (hinv : INV p) :
    feed p d = match norm' (app p d) with
      | .error e => ([], .error e)
      | .ok p' => if p'.core.complete then (p'.core.msg :: (feed {} p'.raw).1, (feed {} p'.raw).2)
                  else ([], .ok p') := by
  unfold feed
  rw [feedLoop]
  simp only [hd, if_false, norm_eq]
  cases hX : norm' (app p d) with
  | error e => rfl
  | ok p' =>
    simp only
    split
    · rename_i hc
      have hs := shrink p p' d hinv hX hc
      have : feedLoop (p.raw.length + d.length) {} p'.raw = feedLoop (({} : P).raw.length + p'.raw.length + 1) {} p'.raw :=
        feedLoop_fuel _ _ _ _ INV_fresh (by simp; omega) (by simp)
      rw [this]
    · rfl

/-- the parser handed to the next read satisfies the invariant again -/
theorem feed_INV : ∀ (n : Nat) (p : P) (d : Bytes) (o : List Msg) (p1 : P), p.raw.length + d.length ≤ n →
    INV p → GoodRun p d → feed p d = (o, .ok p1) → INV p1 := by
  intro n
  induction n using Nat.strongRecOn with
  | _ n ih =>
    intro p d o p1 hn hinv hg h
    by_cases hd : d = []
    · subst hd; rw [feed_nil] at h; cases h; exact hinv
    · rw [feed_cons p d hd hinv] at h
      cases hX : norm' (app p d) with
      | error e => rw [hX] at h; cases h
      | ok p' =>
        rw [hX] at h
        simp only at h
        by_cases hc : p'.core.complete = true
        · rw [if_pos hc] at h
          have hs := shrink p p' d hinv hX hc
          have hnext := GoodRun_next p p' d hd hg hX hc
          cases hr : feed {} p'.raw with
          | mk o2 r2 =>
            rw [hr] at h
            cases r2 with
            | error e => cases h
            | ok q =>
              have hq : q = p1 := by cases h; rfl
              subst hq
              exact ih (p'.raw.length) (by omega) {} p'.raw o2 q (by simp) INV_fresh hnext hr
        · rw [if_neg hc] at h
          have h1 : p' = p1 := by cases h; rfl
          subst h1
          exact INV_of_wait p p' d hinv (GoodRun_at p d hd hg) hX (by simpa using hc)

/-- **Two reads = one read of the concatenation** (messages delivered, resulting parser state,
    and the error if any). -/
theorem feed_append : ∀ (n : Nat) (p : P) (a b : Bytes), p.raw.length + a.length ≤ n → INV p → GoodRun p a →
    feed p (a ++ b) = seq2 (feed p a) (fun p1 => feed p1 b) := by
  intro n
  induction n using Nat.strongRecOn with
  | _ n ih =>
    intro p a b hn hinv hg
    by_cases ha : a = []
    · subst ha
      simp [feed_nil, seq2]
    · have hab : a ++ b ≠ [] := by simp [ha]
      have hgat := GoodRun_at p a ha hg
      have hna := norm_app (app p a) b hgat
      rw [app_app] at hna
      rw [feed_cons p (a ++ b) hab hinv, feed_cons p a ha hinv, ← hna]
      cases hX : norm' (app p a) with
      | error e => simp only [bind, Except.bind, seq2]
      | ok p' =>
        rw [ok_bind]
        simp only
        by_cases hc : p'.core.complete = true
        · -- the message completes inside `a`; the rest of `a` and all of `b` go to a fresh parser
          have hw : WFc p'.core := (norm'_props _ _ hX).2.2 hinv.2.2
          rw [complete_stable p' b hc hw]
          simp only [app_core, app_raw, hc, if_true]
          have hs := shrink p p' a hinv hX hc
          have hnext := GoodRun_next p p' a ha hg hX hc
          rw [ih p'.raw.length (by omega) {} p'.raw b (by simp) INV_fresh hnext]
          cases hr : feed {} p'.raw with
          | mk o2 r2 =>
            cases r2 with
            | error e => simp [seq2]
            | ok q => simp [seq2]
        · -- still waiting after `a`
          have hc' : p'.core.complete = false := by simpa using hc
          simp only [hc', Bool.false_eq_true, if_false, seq2, List.nil_append]
          by_cases hb : b = []
          · subst hb
            have hidem := norm'_idem _ _ hgat hX
            simp only [app_nil, hidem, hc', Bool.false_eq_true, if_false, feed_nil]
          · have hinv' := INV_of_wait p p' a hinv hgat hX hc'
            rw [feed_cons p' b hb hinv']

/-- sequencing is associative -/
theorem seq2_assoc (r : List Msg × Except Err P) (k1 k2 : P → List Msg × Except Err P) :
    seq2 (seq2 r k1) k2 = seq2 r (fun p => seq2 (k1 p) k2) := by
  obtain ⟨o, r⟩ := r
  cases r with
  | error e => simp [seq2]
  | ok p =>
    simp only [seq2]
    cases hk : k1 p with
    | mk o1 r1 =>
      cases r1 with
      | error e => simp
      | ok q => simp [List.append_assoc]

theorem feedAll_snoc : ∀ (cs : List Bytes) (p : P) (c : Bytes),
    feedAll p (cs ++ [c]) = seq2 (feedAll p cs) (fun p1 => feed p1 c) := by
  intro cs
  induction cs with
  | nil =>
    intro p c
    simp only [List.nil_append, feedAll, seq2, List.nil_append]
    cases hf : feed p c with
    | mk o r => cases r <;> simp
  | cons c0 cs ih =>
    intro p c
    simp only [List.cons_append, feedAll]
    rw [seq2_assoc]
    congr 1
    funext p1
    exact ih p1 c

end HapVerif.Http
