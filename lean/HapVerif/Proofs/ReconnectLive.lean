import HapVerif.Proofs.ReconnectWaiters

/-! # Liveness-flavoured invariants of the connection supervisor automaton (helper lemmas for C10)

`Aux s` says (1) callers only ever wait on a running connector, and (2) unless `close()` was called, the
connector is running, or has never been started, or ended with an authentication failure, or the pairing is
connected - i.e. nothing but success, an authentication failure or an explicit close ends the retries. -/

namespace HapVerif.Reconnect

def Alive (s : St) : Prop :=
  s.closing = false →
    s.conn = .idle ∨ s.conn.live = true ∨ s.conn = .doneAuth ∨ s.conn = .stuck ∨
    (s.conn = .doneOk ∧ s.isConnected = true)

structure Aux (s : St) : Prop where
  w : s.conn.live = true ∨ s.waiters = []
  a : Alive s

theorem finish_waiters (s : St) (c : Conn) : (finish s c).waiters = [] := by
  unfold finish; cases c <;> simp [resolveWaiters]

theorem aux_finish (s : St) (c : Conn) (hc : c = .doneAuth ∨ c = .stuck ∨ s.closing = true) :
    Aux (finish s c) := by
  refine ⟨Or.inr (finish_waiters s c), ?_⟩
  obtain ⟨f1, f2, f3⟩ := finish_fields s c
  intro hcl
  rw [f1]
  rcases hc with rfl | rfl | h
  · simp
  · simp
  · rw [f2, h] at hcl; cases hcl

theorem aux_backoff (s : St) : Aux (backoff s) :=
  ⟨Or.inl (by simp [backoff, emit, Conn.live]), fun _ => Or.inr (Or.inl (by simp [backoff, emit, Conn.live]))⟩

theorem aux_verdict (s : St) (v : Ver) (h : Att s) (hb : (verifyVerdict s v).2 = false) :
    Aux (verifyVerdict s v).1 := by
  cases v with
  | ok =>
    refine ⟨Or.inr (finish_waiters _ _), fun _ => ?_⟩
    right; right; right; right
    obtain ⟨c, hc⟩ := Option.isSome_iff_exists.mp h.cur
    simp [verifyVerdict, finish, resolveWaiters, St.isConnected, hc, h.ncf]
  | auth => exact aux_finish _ _ (Or.inl rfl)
  | fail => exact aux_backoff _
  | hang =>
    obtain ⟨c, hc⟩ := Option.isSome_iff_exists.mp h.cur
    simp only [verifyVerdict, hc]
    exact ⟨Or.inl (by simp [Conn.live]), fun _ => Or.inr (Or.inl (by simp [Conn.live]))⟩
  | okLost =>
    simp only [verifyVerdict]
    split
    · refine ⟨Or.inr (finish_waiters _ _), fun _ => ?_⟩
      right; right; right; right
      obtain ⟨c, hc⟩ := Option.isSome_iff_exists.mp h.cur
      simp [finish, resolveWaiters, St.isConnected, hc, h.ncf]
    · split
      · exact aux_backoff _
      · exact aux_backoff _
  | wrongId =>
    simp only [verifyVerdict] at hb ⊢
    split
    · rename_i hc; rw [if_pos hc] at hb; cases hb
    · exact aux_backoff _

theorem att_of_open (s2 : St) (hst : Host) (hm : Mid s2) :
    Att (emit { s2 with nextId := s2.nextId + 1, current := some s2.nextId, curHost := some hst,
                         open_ := s2.open_ ++ [s2.nextId] } (.opened s2.nextId hst s2.now)) := by
  obtain ⟨⟨h1, h2, h3, h4, h5, h6, h7⟩, h8, h9⟩ := hm
  constructor <;> simp_all [emit]
  intro o ho
  rcases ho with ho | rfl
  · exact h7 o ho
  · simp [obsOk]

theorem aux_tcpPhase (as : List Host) (s : St) (h : Mid s) (hb : (tcpPhase as s).2 = false) :
    Aux (tcpPhase as s).1 := by
  induction as generalizing s with
  | nil => exact aux_backoff s
  | cons a as ih =>
    simp only [tcpPhase] at hb ⊢
    have hm2 := popTcp_mid _ (emit_mid s (.attempt s.now (a :: as)) (by simp [obsOk]) h)
    generalize popTcp (emit s (.attempt s.now (a :: as))) = p at hm2 hb
    obtain ⟨o, s2⟩ := p
    simp only at hm2 hb ⊢
    cases o with
    | refused => exact ih s2 hm2 hb
    | timeout => exact ⟨Or.inl (by simp [Conn.live]), fun _ => Or.inr (Or.inl (by simp [Conn.live]))⟩
    | ok pick =>
      simp only at hb ⊢
      exact aux_verdict _ _ (popVer_att _ (att_of_open s2 _ hm2)) hb

theorem aux_loopTop (fuel : Nat) (s : St) (h : Top s) : Aux (loopTop fuel s) := by
  induction fuel generalizing s with
  | zero => exact aux_finish s _ (Or.inr (Or.inl rfl))
  | succ n ih =>
    simp only [loopTop]
    split
    · rename_i hcl; exact aux_finish s _ (Or.inr (Or.inr hcl))
    · rename_i hcl
      have hm := prepare_mid s h (by simpa using hcl)
      have ht := tcpPhase_inv (prepare s).2 (prepare s).1 hm
      have ha := aux_tcpPhase (prepare s).2 (prepare s).1 hm
      generalize tcpPhase (prepare s).2 (prepare s).1 = r at ht ha
      obtain ⟨s', again⟩ := r
      cases again with
      | true => simp only [if_true]; exact ih _ (ht.2 rfl)
      | false => simpa using ha rfl

/-- the state handed to `loopTop` by `_start_connector` -/
theorem startConnector_top (s : St) (h : Inv s) (hl : s.conn.live = false) (hc : s.isConnected = false) :
    Top { s with liveTasks := s.liveTasks + 1, interval := consts.initial } := by
  have hcur := idle_no_current s h hl hc
  have ht := h.tasks
  simp only [hl] at ht
  refine ⟨hcur, ?_, ?_, ?_, h.sh, ?_, h.obs⟩
  · have := h.opn; simp [hcur] at this; exact this
  · simp [ht]
  · intro hx; exact (h.cf hx).1
  · simp [consts_initial]

theorem connected_doneOk (s : St) (h : Inv s) (hl : s.conn.live = false) (hc : s.isConnected = true) :
    s.conn = .doneOk := by
  apply Classical.byContradiction
  intro hd
  have : s.current = none := by
    apply h.curNone hd
    intro t c hv
    simp [hv, Conn.live] at hl
  simp [St.isConnected, this] at hc

theorem aux_startConnector (s : St) (h : Inv s) (hw : s.conn.live = true ∨ s.isConnected = false ∨ s.waiters = []) :
    Aux (startConnector s) := by
  unfold startConnector
  split
  · rename_i hg
    simp only [Bool.or_eq_true] at hg
    cases hl : s.conn.live with
    | true => exact ⟨Or.inl hl, fun _ => Or.inr (Or.inl hl)⟩
    | false =>
      have hcon : s.isConnected = true := by
        rcases hg with hg | hg
        · rw [hl] at hg; cases hg
        · exact hg
      refine ⟨?_, fun _ => ?_⟩
      · rcases hw with hw | hw | hw
        · rw [hl] at hw; cases hw
        · rw [hcon] at hw; cases hw
        · exact Or.inr hw
      · right; right; right; right
        exact ⟨connected_doneOk s h hl hcon, hcon⟩
  · rename_i hg
    simp only [Bool.or_eq_true, not_or, Bool.not_eq_true] at hg
    exact aux_loopTop _ _ (startConnector_top s h hg.1 hg.2)

/-- `_start_reconnecting` after its guard: the two flags are reset -/
theorem reset_inv (s : St) (h : Inv s) (hsh : s.shutdown = false) :
    Inv { s with closing := false, closedF := false } := by
  obtain ⟨i1, i2, i3, i4, i5, i6, i7, i8, i9, i10, i11, i12⟩ := h
  exact ⟨i1, i2, i3, i4, i5, by simp, by simp, by simp [hsh], i9, i10, i11, i12⟩

theorem reset_not_connected (s : St) (h : Inv s) (hc : s.isConnected = false) :
    ({ s with closing := false, closedF := false } : St).isConnected = false := by
  cases hcf : s.closedF with
  | false => simpa [St.isConnected, hcf] using hc
  | true =>
    have := (h.cf hcf).2
    simp [St.isConnected, this]

theorem aux_startReconnecting (s : St) (h : Inv s) (ha : Aux s) (hsh : s.shutdown = false)
    (hnc : s.isConnected = false) (ws : List Waiter) :
    Aux (startReconnecting { s with waiters := ws }).1 := by
  unfold startReconnecting
  have hnc' : ({ s with waiters := ws } : St).isConnected = false := hnc
  simp only [hnc', Bool.false_eq_true, if_false]
  have hi : Inv { s with waiters := ws } := by
    obtain ⟨i1, i2, i3, i4, i5, i6, i7, i8, i9, i10, i11, i12⟩ := h
    exact ⟨i1, i2, i3, i4, i5, i6, i7, i8, i9, i10, i11, i12⟩
  exact aux_startConnector _ (reset_inv _ hi hsh) (Or.inr (Or.inl (reset_not_connected { s with waiters := ws } hi hnc')))

theorem aux_reconnectSoon (s : St) (h : Inv s) (ha : Aux s) (hsh : s.shutdown = false) :
    Aux (reconnectSoon s) := by
  unfold reconnectSoon
  split
  · rename_i t hc; exact aux_loopTop _ _ (sleeping_top s h t hc)
  · unfold startReconnecting
    split
    · exact ha
    · rename_i hnc
      have hnc : s.isConnected = false := by simpa using hnc
      exact aux_startConnector _ (reset_inv s h hsh) (Or.inr (Or.inl (reset_not_connected s h hnc)))

theorem aux_fire (s : St) (t : Time) (ha : Aux s) : Aux (fireWaiters s t) := by
  obtain ⟨w, a⟩ := ha
  refine ⟨?_, a⟩
  rcases w with w | w
  · exact Or.inl w
  · right; simp [fireWaiters, w]

theorem aux_connectorTimer (s : St) (h : Inv s) (ha : Aux s) : Aux (connectorTimer s) := by
  unfold connectorTimer
  split
  · rename_i t hc; exact aux_loopTop _ _ (sleeping_top s h t hc)
  · rename_i t rest hc
    obtain ⟨l1, l2, l3⟩ := live_not_closing s h (by simp [hc, Conn.live])
    have hcur : s.current = none := h.curNone (by simp [hc]) (by simp [hc])
    have ht := h.tasks
    simp only [hc, Conn.live, if_true] at ht
    have hm : Mid s := by
      refine ⟨⟨hcur, ?_, ht, fun hx => (h.cf hx).1, h.sh, h.ivl, h.obs⟩, l1, h.mid (Or.inl ⟨t, rest, hc⟩)⟩
      have := h.opn; simp [hcur] at this; exact this
    have hp := tcpPhase_inv rest s hm
    have hq := aux_tcpPhase rest s hm
    generalize tcpPhase rest s = r at hp hq
    obtain ⟨s', again⟩ := r
    cases again with
    | true => simp only [if_true]; exact aux_loopTop _ _ (hp.2 rfl)
    | false => simpa using hq rfl
  · exact aux_backoff _
  · exact ha

theorem aux_advanceTo (fuel : Nat) (target : Time) (s : St) (h : Inv s) (ha : Aux s) :
    Aux (advanceTo fuel target s) := by
  induction fuel generalizing s with
  | zero => exact aux_fire s target ha
  | succ n ih =>
    simp only [advanceTo]
    split
    · split
      · exact ih _ (connectorTimer_inv _ (fireWaiters_inv s _ h))
          (aux_connectorTimer _ (fireWaiters_inv s _ h) (aux_fire s _ ha))
      · exact aux_fire s target ha
    · exact aux_fire s target ha

theorem aux_closeConn (s : St) (b : Bool) (h : Inv s) (ha : Aux s) : Aux (closeConn { s with shutdown := b }) := by
  obtain ⟨h1, h2, h3⟩ := stopConnector_closing_inv s b h
  obtain ⟨d1, d2, _, d4, d5, d6, _⟩ := dropTransport_spec _ h1.opn
  have hw : (stopConnector { s with closing := true, shutdown := b }).waiters = [] := by
    unfold stopConnector
    split
    · exact finish_waiters _ _
    · exact finish_waiters _ _
    · exact finish_waiters _ _
    · rename_i hn1 hn2 hn3
      simp only at hn1 hn2 hn3
      rcases ha.w with hl | hl
      · exfalso
        cases hc : s.conn <;> simp_all [Conn.live]
      · exact hl
  refine ⟨Or.inr ?_, ?_⟩
  · show (dropTransport _).waiters = []
    have := (frame_drop (stopConnector { s with closing := true, shutdown := b })).2
    rw [hw] at this
    cases hx : (dropTransport (stopConnector { s with closing := true, shutdown := b })).waiters with
    | nil => rfl
    | cons w ws => have := this w (by rw [hx]; simp); cases this
  · intro hcl
    exfalso
    have : (closeConn { s with shutdown := b }).closing = true := by
      show (dropTransport _).closing = true
      rw [d6]; exact h3
    rw [this] at hcl; cases hcl

theorem aux_step (s : St) (e : Ev) (h : Inv s) (ha : Aux s) : Aux (step s e) := by
  cases e with
  | adv dt => exact aux_advanceTo _ _ _ h ha
  | ensure id own =>
    simp only [step]
    split
    · exact ⟨ha.w, ha.a⟩
    · rename_i hg
      simp only [Bool.or_eq_true, not_or, Bool.not_eq_true] at hg
      exact aux_startReconnecting s h ha hg.1 hg.2 _
  | cancelW id =>
    refine ⟨?_, ha.a⟩
    rcases ha.w with w | w
    · exact Or.inl w
    · right; simp [step, w]
  | soon =>
    simp only [step]
    split
    · exact ha
    · rename_i hs; exact aux_reconnectSoon s h ha (by simpa using hs)
  | descr hs =>
    simp only [step]
    split
    · exact ha
    · rename_i hsd
      refine aux_reconnectSoon _ ?_ ⟨ha.w, ha.a⟩ (by simpa using hsd)
      obtain ⟨i1, i2, i3, i4, i5, i6, i7, i8, i9, i10, i11, i12⟩ := h
      exact ⟨i1, i2, i3, i4, i5, i6, i7, i8, i9, i10, i11, i12⟩
  | close => exact aux_closeConn s s.shutdown h ha
  | shutdown => exact aux_closeConn s true h ha
  | pushTcp o => exact ⟨ha.w, ha.a⟩
  | pushVer v => exact ⟨ha.w, ha.a⟩
  | drop c =>
    simp only [step]
    split
    · exact ha
    · rename_i hin
      simp only [Bool.not_eq_true, Bool.not_eq_false'] at hin
      have hmem : c ∈ s.open_ := by simpa using hin
      have hcur : s.current = some c := by
        have := h.opn; rw [this] at hmem
        cases hx : s.current with
        | none => simp [hx] at hmem
        | some d => simp [hx] at hmem; simp [hmem]
      have hopen : s.open_.filter (· ≠ c) = [] := by
        rw [h.opn, hcur]; simp
      simp only [hcur, ne_eq, not_true_eq_false, if_false]
      split
      · exact aux_backoff _
      · rename_i hnv
        have hi : Inv { s with open_ := s.open_.filter (· ≠ c), current := none } := by
          obtain ⟨i1, i2, i3, i4, i5, i6, i7, i8, i9, i10, i11, i12⟩ := h
          refine ⟨hopen, by simp, ?_, by simp, i5, i6, ?_, i8, i9, i10, i11, i12⟩
          · intro t c' hv; exact absurd hv (hnv t c')
          · intro hx; exact ⟨(i7 hx).1, rfl⟩
        split
        · rename_i hcl
          exact ⟨ha.w, fun hx => by simp [hcl] at hx⟩
        · exact aux_startConnector _ hi (Or.inr (Or.inl (by simp [St.isConnected])))

theorem aux_run (hosts : List Host) (evs : List Ev) : Aux (run (init hosts) evs) := by
  have : ∀ s, Inv s → Aux s → Aux (run s evs) := by
    induction evs with
    | nil => intro s _ h; exact h
    | cons e es ih => intro s hi h; exact ih _ (step_inv s e hi) (aux_step s e hi h)
  exact this _ (init_inv hosts) ⟨Or.inr (by simp [init]), fun _ => Or.inl (by simp [init])⟩

end HapVerif.Reconnect
