import HapVerif.Model.Http

/-! Helper lemmas for C07: every phase of one `parse` call commutes with later input. -/

namespace HapVerif.Http

/-! ## Proofs: parsing is independent of how the stream is cut -/

@[simp] theorem app_core (p d) : (app p d).core = p.core := rfl
@[simp] theorem app_raw (p d) : (app p d).raw = p.raw ++ d := rfl
theorem app_app (p a b) : app (app p a) b = app p (a ++ b) := by simp [app, List.append_assoc]
@[simp] theorem app_nil (p : P) : app p [] = p := by cases p; simp [app]

theorem findCRLF_bound : ∀ (l : Bytes) (i : Nat), findCRLF l = some i → i + 2 ≤ l.length := by
  intro l
  induction l with
  | nil => intro i h; simp [findCRLF] at h
  | cons a t ih =>
    intro i h
    match t, ih with
    | [], _ => simp [findCRLF] at h
    | b :: t', ih =>
      simp only [findCRLF] at h
      split at h
      · cases h; simp
      · simp only [Option.map_eq_some_iff] at h
        obtain ⟨j, hj, rfl⟩ := h
        have := ih j hj
        simp at this ⊢; omega

theorem findCRLF_append : ∀ (l d : Bytes) (i : Nat), findCRLF l = some i → findCRLF (l ++ d) = some i := by
  intro l
  induction l with
  | nil => intro d i h; simp [findCRLF] at h
  | cons a t ih =>
    intro d i h
    match t, ih with
    | [], _ => simp [findCRLF] at h
    | b :: t', ih =>
      simp only [findCRLF, List.cons_append] at h ⊢
      split at h
      · rename_i hc; simp [hc] at h ⊢; exact h
      · rename_i hc
        simp only [Option.map_eq_some_iff] at h
        obtain ⟨j, hj, rfl⟩ := h
        simp only [hc, if_false]
        have := ih d j hj
        simp only [List.cons_append] at this
        simp [this]

theorem take_app_of_le {l d : Bytes} {i : Nat} (h : i ≤ l.length) : (l ++ d).take i = l.take i := by
  rw [List.take_append_of_le_length h]
theorem drop_app_of_le {l d : Bytes} {i : Nat} (h : i ≤ l.length) : (l ++ d).drop i = l.drop i ++ d := by
  rw [List.drop_append_of_le_length h]

theorem ok_bind {ε α β} (x : α) (f : α → Except ε β) : (Except.ok x >>= f) = f x := rfl

/-! ### header loop -/

theorem headLoop_fuel : ∀ (f1 f2 : Nat) (p : P), p.raw.length < f1 → p.raw.length < f2 →
    headLoop f1 p = headLoop f2 p := by
  intro f1
  induction f1 with
  | zero => intro f2 p h; omega
  | succ n ih =>
    intro f2 p h1 h2
    obtain ⟨m, rfl⟩ : ∃ m, f2 = m + 1 := ⟨f2 - 1, by omega⟩
    simp only [headLoop]
    split
    · rfl
    · split
      · rfl
      · rename_i pos hpos
        have hb := findCRLF_bound _ _ hpos
        split
        · rfl
        · apply ih <;> simp <;> omega

def H (p : P) : Except Err P := headLoop (p.raw.length + 1) p

/-- running the header loop, then receiving `d`, then running it again = receiving `d` first -/
theorem headLoop_app : ∀ (f : Nat) (p : P) (d : Bytes), p.raw.length < f →
    (headLoop f p >>= fun p1 => H (app p1 d)) = H (app p d) := by
  intro f
  induction f with
  | zero => intro p d h; omega
  | succ n ih =>
    intro p d h1
    rw [headLoop]
    split
    · rfl
    · rename_i hst
      split
      · rfl
      · rename_i pos hpos
        have hb := findCRLF_bound _ _ hpos
        have hpos' := findCRLF_append _ d _ hpos
        conv => rhs; rw [H, headLoop]
        simp only [app_core, app_raw, hst, if_false, hpos']
        rw [take_app_of_le (by omega), drop_app_of_le (by omega)]
        split
        · rfl
        · rename_i c hc
          have := ih ⟨c, p.raw.drop (pos + 2)⟩ d (by simp; omega)
          rw [this, H]
          apply headLoop_fuel <;> simp [app] <;> omega

theorem H_app (p : P) (d : Bytes) : (H p >>= fun p1 => H (app p1 d)) = H (app p d) :=
  headLoop_app _ p d (Nat.lt_succ_self _)

/-! ### chunked body loop -/

theorem chunkLoop_fuel : ∀ (f1 f2 : Nat) (p : P), p.raw.length < f1 → p.raw.length < f2 →
    chunkLoop f1 p = chunkLoop f2 p := by
  intro f1
  induction f1 with
  | zero => intro f2 p h; omega
  | succ n ih =>
    intro f2 p h1 h2
    obtain ⟨m, rfl⟩ : ∃ m, f2 = m + 1 := ⟨f2 - 1, by omega⟩
    simp only [chunkLoop]
    split
    · rfl
    · rename_i pos hpos
      have hb := findCRLF_bound _ _ hpos
      split
      · rfl
      · split
        · rfl
        · split
          · rfl
          · apply ih <;> simp <;> omega

def CP (p : P) : Except Err P := chunkPhase (p.raw.length + 1) p

theorem chunkLoop_app : ∀ (f : Nat) (p : P) (d : Bytes), p.raw.length < f →
    p.core.state = 2 → p.core.chunked = true →
    (chunkLoop f p >>= fun p1 => CP (app p1 d)) = CP (app p d) := by
  intro f
  induction f with
  | zero => intro p d h; omega
  | succ n ih =>
    intro p d h1 hst hch
    have hguard : (app p d).core.state = 2 ∧ (app p d).core.chunked = true := ⟨hst, hch⟩
    rw [chunkLoop]
    split
    · rfl
    · rename_i pos hpos
      have hb := findCRLF_bound _ _ hpos
      have hpos' := findCRLF_append _ d _ hpos
      have e1 : (p.raw ++ d).take pos = p.raw.take pos := take_app_of_le (by omega)
      have e2 : (p.raw ++ d).drop (pos + 2) = p.raw.drop (pos + 2) ++ d := drop_app_of_le (by omega)
      conv => rhs; rw [CP, chunkPhase, if_pos hguard, chunkLoop]
      simp only [app_core, app_raw, hpos', e1, e2]
      split
      · rfl
      · rename_i len hlen
        by_cases hshort : len + 2 > (p.raw.drop (pos + 2)).length
        · -- not enough data yet: the first run left `p` untouched
          simp only [hshort, if_true]
          rw [ok_bind]
          rw [CP, chunkPhase, if_pos hguard, chunkLoop]
          simp only [app_core, app_raw, hpos', e1, e2, hlen]
        · have hlong : ¬ (len + 2 > (p.raw.drop (pos + 2) ++ d).length) := by
            simp at hshort ⊢; omega
          simp only [hshort, hlong, if_false]
          by_cases hz : len = 0
          · subst hz
            simp only [if_true]
            rw [ok_bind]
            rw [CP, chunkPhase, if_neg (by simp)]
            have e3 : (p.raw.drop (pos + 2) ++ d).drop 2 = (p.raw.drop (pos + 2)).drop 2 ++ d :=
              drop_app_of_le (by simp at hshort ⊢; omega)
            simp only [app, Nat.zero_add, e3]
          · simp only [hz, if_false]
            have hle : len ≤ (p.raw.drop (pos + 2)).length := by simp at hshort ⊢; omega
            have hle2 : len + 2 ≤ (p.raw.drop (pos + 2)).length := by simp at hshort ⊢; omega
            have e4 : (p.raw.drop (pos + 2) ++ d).take len = (p.raw.drop (pos + 2)).take len := take_app_of_le hle
            have e5 : (p.raw.drop (pos + 2) ++ d).drop (len + 2) = (p.raw.drop (pos + 2)).drop (len + 2) ++ d :=
              drop_app_of_le hle2
            simp only [e4, e5]
            have := ih ⟨{ p.core with body := p.core.body ++ (p.raw.drop (pos + 2)).take len },
                        (p.raw.drop (pos + 2)).drop (len + 2)⟩ d (by simp; omega) hst hch
            rw [this, CP, chunkPhase, if_pos ⟨hst, hch⟩]
            apply chunkLoop_fuel <;> simp [app] <;> omega

/-! ### content-length body step and the combined normal form -/

theorem bodyStep_core_state (p : P) : (bodyStep p).core.state = p.core.state := by
  unfold bodyStep
  split
  · split <;> rfl
  · rfl
theorem bodyStep_core_chunked (p : P) : (bodyStep p).core.chunked = p.core.chunked := by
  unfold bodyStep
  split
  · split <;> rfl
  · rfl

theorem take_split (raw d : Bytes) (r : Nat) :
    raw.take r ++ (raw.drop r ++ d).take (r - min r raw.length) = (raw ++ d).take r := by
  rw [List.take_append (l₁ := raw)]
  by_cases h : r ≤ raw.length
  · have : r - min r raw.length = 0 := by omega
    have h2 : r - raw.length = 0 := by omega
    simp [this, h2]
  · have e2 : raw.drop r = [] := List.drop_of_length_le (by omega)
    have : r - min r raw.length = r - raw.length := by omega
    simp [e2, this]

theorem drop_split (raw d : Bytes) (r : Nat) :
    (raw.drop r ++ d).drop (r - min r raw.length) = (raw ++ d).drop r := by
  rw [List.drop_append (l₁ := raw)]
  by_cases h : r ≤ raw.length
  · have : r - min r raw.length = 0 := by omega
    have h2 : r - raw.length = 0 := by omega
    simp [this, h2]
  · have e2 : raw.drop r = [] := List.drop_of_length_le (by omega)
    have : r - min r raw.length = r - raw.length := by omega
    simp [e2, this]

theorem bodyStep_app (p : P) (d : Bytes) : bodyStep (app (bodyStep p) d) = bodyStep (app p d) := by
  unfold bodyStep
  cases hcl : p.core.clen with
  | none => simp [hcl]
  | some n =>
    by_cases hg : p.core.state = 2 ∧ n > 0
    · simp only [app_core, hcl, hg, and_self, if_true, app_raw]
      simp only [List.length_append, List.length_take]
      have e : n - (p.core.body.length + min (n - p.core.body.length) p.raw.length)
             = (n - p.core.body.length) - min (n - p.core.body.length) p.raw.length := by omega
      rw [e, List.append_assoc, take_split, drop_split]
    · simp only [app_core, hcl, hg, if_false]

theorem chunkLoop_core : ∀ (f : Nat) (p p2 : P), chunkLoop f p = .ok p2 → p.core.state = 2 →
    p2.core.clen = p.core.clen ∧ p2.core.chunked = p.core.chunked ∧ 2 ≤ p2.core.state := by
  intro f
  induction f with
  | zero => intro p p2 h hs; simp [chunkLoop] at h; subst h; simp [hs]
  | succ n ih =>
    intro p p2 h hs
    rw [chunkLoop] at h
    cases hpos : findCRLF p.raw with
    | none => simp only [hpos] at h; cases h; simp [hs]
    | some pos =>
      simp only [hpos] at h
      cases hlen : parseHex (p.raw.take pos) with
      | none => simp only [hlen] at h; cases h
      | some len =>
        simp only [hlen] at h
        by_cases h1 : len + 2 > (p.raw.drop (pos + 2)).length
        · simp only [h1, if_true] at h; cases h; simp [hs]
        · simp only [h1, if_false] at h
          by_cases h2 : len = 0
          · simp only [h2, if_true] at h; cases h; simp
          · simp only [h2, if_false] at h
            have := ih _ _ h hs
            simpa using this

/-- a message must not carry both `Transfer-Encoding: chunked` and a positive `Content-Length` -/
def good (c : Core) : Prop := c.chunked = true → (c.clen = none ∨ c.clen = some 0)

theorem bodyStep_of_good (p : P) (hch : p.core.chunked = true) (hg : good p.core) : bodyStep p = p := by
  unfold bodyStep
  rcases hg hch with h | h <;> simp [h]

def norm' (p : P) : Except Err P := H p >>= fun p1 => CP p1 >>= fun p2 => pure (bodyStep p2)
theorem norm_eq (p : P) : norm p = norm' p := rfl

theorem H_of_state (p : P) (h : 2 ≤ p.core.state) : H p = .ok p := by
  simp [H, headLoop, h]

/-- **Core lemma.** Normalising, receiving more bytes, and normalising again is the same as
    receiving the bytes first - provided the header block did not announce both framings. -/
theorem norm_app (p : P) (d : Bytes)
    (hgood : ∀ p1, H p = .ok p1 → 2 ≤ p1.core.state → good p1.core) :
    (norm' p >>= fun p3 => norm' (app p3 d)) = norm' (app p d) := by
  have hH := H_app p d
  unfold norm'
  cases hp1 : H p with
  | error e =>
    rw [hp1] at hH
    have : H (app p d) = .error e := hH.symm
    rw [this]; rfl
  | ok p1 =>
    rw [hp1, ok_bind] at hH
    rw [← hH]
    simp only [ok_bind]
    by_cases hst : 2 ≤ p1.core.state
    · have hHd : H (app p1 d) = .ok (app p1 d) := H_of_state _ hst
      rw [hHd, ok_bind]
      by_cases hguard : p1.core.state = 2 ∧ p1.core.chunked = true
      · -- chunked body
        have hCP1 : CP p1 = chunkLoop (p1.raw.length + 1) p1 := by simp [CP, chunkPhase, hguard]
        have hcl := chunkLoop_app (p1.raw.length + 1) p1 d (Nat.lt_succ_self _) hguard.1 hguard.2
        rw [hCP1]
        cases hp2 : chunkLoop (p1.raw.length + 1) p1 with
        | error e =>
          rw [hp2] at hcl
          have : CP (app p1 d) = .error e := hcl.symm
          rw [this]; rfl
        | ok p2 =>
          rw [hp2, ok_bind] at hcl
          obtain ⟨h1, h2, h3⟩ := chunkLoop_core _ _ _ hp2 hguard.1
          have hg2 : good p2.core := by
            have := hgood p1 hp1 hst
            unfold good at this ⊢
            rw [h1, h2]; exact this
          have hb : bodyStep p2 = p2 := bodyStep_of_good p2 (by rw [h2]; exact hguard.2) hg2
          simp only [ok_bind, pure, Except.pure, hb]
          rw [H_of_state (app p2 d) h3, ok_bind, hcl]
      · -- fixed-length or body-less
        have hCP1 : CP p1 = .ok p1 := by simp [CP, chunkPhase, hguard]
        have hCPd : CP (app p1 d) = .ok (app p1 d) := by simp [CP, chunkPhase, hguard]
        have hguard3 : ¬ ((bodyStep p1).core.state = 2 ∧ (bodyStep p1).core.chunked = true) := by
          rw [bodyStep_core_state, bodyStep_core_chunked]; exact hguard
        have hCP3 : CP (app (bodyStep p1) d) = .ok (app (bodyStep p1) d) := by
          simp [CP, chunkPhase, hguard3]
        rw [hCP1, hCPd]
        simp only [ok_bind, pure, Except.pure]
        rw [H_of_state _ (by rw [app_core, bodyStep_core_state]; exact hst), ok_bind, hCP3, ok_bind,
          bodyStep_app]
    · -- still inside the header block: nothing else ran
      have hlt : p1.core.state < 2 := by omega
      have hCP1 : CP p1 = .ok p1 := by
        have : ¬ (p1.core.state = 2 ∧ p1.core.chunked = true) := by omega
        simp [CP, chunkPhase, this]
      have hb : bodyStep p1 = p1 := by
        unfold bodyStep
        split
        · rename_i n _
          have : ¬ (p1.core.state = 2 ∧ n > 0) := by omega
          simp [this]
        · rfl
      rw [hCP1]
      simp only [ok_bind, pure, Except.pure, hb]


end HapVerif.Http
