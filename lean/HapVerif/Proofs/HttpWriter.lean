import HapVerif.Proofs.HttpFeed
import HapVerif.Spec.HttpWriter

/-! # The parser inverts the writer (lemmas for C07) -/

namespace HapVerif.Http
theorem findCRLF_line : ∀ (line rest : Bytes), noCRLF line = true →
    findCRLF (line ++ crlf ++ rest) = some line.length := by
  intro line
  induction line with
  | nil => intro rest _; simp [crlf, findCRLF]
  | cons a t ih =>
    intro rest hn
    cases t with
    | nil => simp [crlf, findCRLF]
    | cons b t' =>
      simp only [noCRLF, Bool.and_eq_true, Bool.not_eq_true', decide_eq_false_iff_not] at hn
      have := ih rest hn.2
      simp only [List.cons_append] at this ⊢
      simp only [findCRLF, hn.1, if_false, this, Option.map_some, List.length_cons]

/-- one iteration of the header loop on a written line -/
theorem headLoop_line (fuel : Nat) (c c' : Core) (line rest : Bytes) (hs : c.state < 2)
    (hn : noCRLF line = true) (hl : headLine c line = .ok c') :
    headLoop (fuel + 1) ⟨c, line ++ crlf ++ rest⟩ = headLoop fuel ⟨c', rest⟩ := by
  have hf := findCRLF_line line rest hn
  simp only [headLoop]
  have : ¬ c.state ≥ 2 := by omega
  simp only [this, if_false, hf]
  have ht : (line ++ crlf ++ rest).take line.length = line := by
    rw [List.append_assoc, List.take_left']; rfl
  have hd : (line ++ crlf ++ rest).drop (line.length + 2) = rest := by
    rw [List.append_assoc, ← List.drop_drop, List.drop_left']
    · simp [crlf]
    · rfl
  rw [ht, hl, hd]

theorem span_loop_ne (sep : UInt8) : ∀ (v x acc : Bytes), sep ∉ v →
    List.span.loop (· ≠ sep) (v ++ sep :: x) acc = (acc.reverse ++ v, sep :: x) := by
  intro v
  induction v with
  | nil => intro x acc _; simp [List.span.loop]
  | cons a t ih =>
    intro x acc h
    have ha : a ≠ sep := fun hh => h (by simp [hh])
    have ht : sep ∉ t := fun hh => h (by simp [hh])
    simp only [List.cons_append, List.span.loop, ne_eq, ha, not_false_eq_true, decide_true]
    rw [ih x (a :: acc) ht]
    simp

theorem span_ne (sep : UInt8) (v x : Bytes) (h : sep ∉ v) : (v ++ sep :: x).span (· ≠ sep) = (v, sep :: x) := by
  simp only [List.span]
  rw [span_loop_ne sep v x [] h]
  simp

theorem splitN_status (v c r : Bytes) (hv : (32 : UInt8) ∉ v) (hc : (32 : UInt8) ∉ c) :
    splitN 32 2 (v ++ 32 :: (c ++ 32 :: r)) = [v, c, r] := by
  simp only [splitN, span_ne 32 v _ hv, span_ne 32 c _ hc]

theorem splitN_header (n v : Bytes) (hn : (58 : UInt8) ∉ n) :
    splitN 58 1 (n ++ 58 :: v) = [n, v] := by
  simp only [splitN, span_ne 58 n _ hn]

/-- the status line `version SP code SP reason` -/
theorem headLine_status (c0 : Core) (v ct r : Bytes) (code : Nat) (h0 : c0.state = 0)
    (hv : (32 : UInt8) ∉ v) (hc : (32 : UInt8) ∉ ct) (hascii : (v ++ r).all (· < 128) = true)
    (hcode : parseDec ct = some code) :
    headLine c0 (v ++ 32 :: (ct ++ 32 :: r)) = .ok { c0 with version := v, code := code, state := 1 } := by
  simp only [headLine, h0, if_true, splitN_status v ct r hv hc, hascii, Bool.not_true, Bool.false_eq_true,
    if_false, hcode]

/-- an ordinary header line `name:value` in any spelling -/
theorem headLine_header (c : Core) (n v : Bytes) (h1 : c.state = 1) (hn : (58 : UInt8) ∉ n)
    (hascii : (n ++ v).all (· < 128) = true)
    (hte : title (strip n) ≠ strTE) (hcl : title (strip n) ≠ strCL) :
    headLine c (n ++ 58 :: v) = .ok { c with headers := c.headers ++ [(title (strip n), strip v)] } := by
  have hs : ¬ c.state = 0 := by omega
  have hne : n ++ 58 :: v ≠ [] := by simp
  simp only [headLine, hs, if_false, hne, splitN_header n v hn, hascii, Bool.not_true,
    Bool.false_eq_true, hte, hcl]

/-- the `Content-Length` header in any spelling -/
theorem headLine_clen (c : Core) (n v : Bytes) (len : Nat) (h1 : c.state = 1) (hn : (58 : UInt8) ∉ n)
    (hascii : (n ++ v).all (· < 128) = true) (hname : title (strip n) = strCL)
    (hlen : parseDec (strip v) = some len) :
    headLine c (n ++ 58 :: v) =
      .ok { c with clen := some len, headers := c.headers ++ [(strCL, strip v)] } := by
  have hs : ¬ c.state = 0 := by omega
  have hne : n ++ 58 :: v ≠ [] := by simp
  have hte : strCL ≠ strTE := by decide +kernel
  simp only [headLine, hs, if_false, hne, splitN_header n v hn, hascii, Bool.not_true,
    Bool.false_eq_true, hname, hte, if_true, hlen]

/-- the empty line that ends the headers -/
theorem headLine_blank (c : Core) (h1 : c.state = 1) : headLine c [] = .ok { c with state := 2 } := by
  have hs : ¬ c.state = 0 := by omega
  simp only [headLine, hs, if_false, if_true]

/-- the header loop consumes a block of ordinary header lines -/
theorem headLoop_headers : ∀ (hs : List (Bytes × Bytes)) (c : Core) (rest : Bytes) (fuel : Nat),
    c.state = 1 → (∀ h ∈ hs, GoodHeader h) →
    headLoop (fuel + hs.length) ⟨c, writeHeaders hs ++ rest⟩ =
      headLoop fuel ⟨{ c with headers := c.headers ++ hs.map normHeader }, rest⟩ := by
  intro hs
  induction hs with
  | nil => intro c rest fuel _ _; simp [writeHeaders]
  | cons h hs ih =>
    intro c rest fuel h1 hg
    have gh := hg h (by simp)
    have hl := headLine_header c h.1 h.2 h1 gh.nocolon gh.ascii gh.notTE gh.notCL
    have hstep := headLoop_line (fuel + hs.length) c _ (headerLine h) (writeHeaders hs ++ rest) (by omega) gh.nocrlf hl
    simp only [writeHeaders, List.length_cons, List.append_assoc] at hstep ⊢
    rw [show fuel + (hs.length + 1) = fuel + hs.length + 1 by omega, hstep]
    have := ih { c with headers := c.headers ++ [(title (strip h.1), strip h.2)] } rest fuel h1 (fun x hx => hg x (by simp [hx]))
    rw [this]
    simp [List.append_assoc, normHeader]

theorem headLoop_done (fuel : Nat) (p : P) (h : 2 ≤ p.core.state) : headLoop fuel p = .ok p := by
  cases fuel with
  | zero => rfl
  | succ n => simp [headLoop, h]

theorem noCRLF_of_no13 : ∀ (l : Bytes), (∀ c ∈ l, c ≠ 13) → noCRLF l = true := by
  intro l
  induction l with
  | nil => intro _; rfl
  | cons a t ih =>
    intro h
    cases t with
    | nil => rfl
    | cons b t' =>
      have ha : a ≠ 13 := h a (by simp)
      simp only [noCRLF, Bool.and_eq_true, Bool.not_eq_true', decide_eq_false_iff_not]
      exact ⟨fun hh => ha hh.1, ih (fun c hc => h c (by simp [hc]))⟩

theorem parseDec_digits (b : Bytes) (n : Nat) (h : parseDec b = some n) : b ≠ [] ∧ ∀ c ∈ b, isDigit c = true := by
  unfold parseDec at h
  split at h
  · cases h
  · rename_i hh
    simp only [not_or, Bool.not_eq_true, Bool.not_eq_false', List.isEmpty_iff] at hh
    exact ⟨hh.1, fun c hc => (List.all_eq_true.mp (by simpa using hh.2)) c hc⟩

theorem foldlM_hex : ∀ (b : Bytes) (a n : Nat), b.foldlM (fun a c => (hexVal c).map (a * 16 + ·)) a = some n →
    ∀ c ∈ b, (hexVal c).isSome = true := by
  intro b
  induction b with
  | nil => intro _ _ _ c hc; cases hc
  | cons x t ih =>
    intro a n h c hc
    simp only [List.foldlM_cons] at h
    cases hx : hexVal x with
    | none => simp [hx] at h
    | some v =>
      simp only [hx, Option.map_some, Option.bind_eq_bind, Option.bind_some] at h
      rcases List.mem_cons.mp hc with rfl | hc'
      · simp [hx]
      · exact ih _ _ h c hc'

theorem parseHex_hex (b : Bytes) (n : Nat) (h : parseHex b = some n) : ∀ c ∈ b, (hexVal c).isSome = true := by
  unfold parseHex at h
  split at h
  · cases h
  · exact foldlM_hex b 0 n h

theorem hex_ne13 (c : UInt8) (h : (hexVal c).isSome = true) : c ≠ 13 := by
  intro hc; subst hc; revert h; decide

theorem digit_props (c : UInt8) (h : isDigit c = true) : c ≠ 13 ∧ c < 128 ∧ isSpace c = false := by
  simp only [isDigit, decide_eq_true_eq] at h
  have h1 : 48 ≤ c.toNat := by simpa using (UInt8.le_iff_toNat_le.mp h.1)
  have h2 : c.toNat ≤ 57 := by simpa using (UInt8.le_iff_toNat_le.mp h.2)
  refine ⟨?_, ?_, ?_⟩
  · intro hc; subst hc; simp at h1
  · exact UInt8.lt_iff_toNat_lt.mpr (by simp; omega)
  · simp only [isSpace, decide_eq_false_iff_not, not_or, not_and]
    refine ⟨?_, ?_, ?_⟩
    · intro hc; subst hc; simp at h1
    · intro _ hc
      have := UInt8.le_iff_toNat_le.mp hc
      simp at this; omega
    · intro _ hc
      have := UInt8.le_iff_toNat_le.mp hc
      simp at this; omega

theorem dropWhile_self (p : UInt8 → Bool) : ∀ (l : Bytes), (∀ h : l ≠ [], p (l.head h) = false) → l.dropWhile p = l := by
  intro l h
  cases l with
  | nil => rfl
  | cons a t =>
    have := h (by simp)
    simp only [List.head_cons] at this
    simp [List.dropWhile_cons, this]

/-- `strip` of a space followed by a block whose ends are not white space -/
theorem strip_sp (l : Bytes) (hne : l ≠ []) (hh : isSpace (l.head hne) = false) (hl : isSpace (l.getLast hne) = false) :
    strip (32 :: l) = l := by
  unfold strip
  have h32 : isSpace 32 = true := by decide
  rw [List.dropWhile_cons, h32]
  simp only [if_true]
  rw [dropWhile_self isSpace l (fun _ => hh)]
  rw [dropWhile_self isSpace l.reverse (fun hr => by rw [List.head_reverse]; exact hl)]
  simp


/-- the `Transfer-Encoding: chunked` header in any spelling -/
theorem headLine_te (c : Core) (n v : Bytes) (h1 : c.state = 1) (hn : (58 : UInt8) ∉ n)
    (hascii : (n ++ v).all (· < 128) = true) (hname : title (strip n) = strTE) (hval : strip v = strChunked) :
    headLine c (n ++ 58 :: v) =
      .ok { c with chunked := true, headers := c.headers ++ [(strTE, strChunked)] } := by
  have hs : ¬ c.state = 0 := by omega
  have hne : n ++ 58 :: v ≠ [] := by simp
  simp only [headLine, hs, if_false, hne, splitN_header n v hn, hascii, Bool.not_true,
    Bool.false_eq_true, hname, hval, if_true, beq_self_eq_true, Bool.or_true]

/-- the parser's state after the header block of a written message -/
def WMsg.headCore (m : WMsg) (code : Nat) : Core :=
  { state := 2, version := m.version, code := code, headers := m.parsedHeaders,
    clen := match m.framing with
      | .length _ => some m.body.length
      | _ => none,
    chunked := match m.framing with
      | .chunked _ _ => true
      | _ => false }

/-- ... and after the whole message -/
def WMsg.core (m : WMsg) (code : Nat) : Core :=
  match m.framing with
  | .chunked _ _ => { m.headCore code with body := m.body, hadEmpty := true, state := 3 }
  | _ => { m.headCore code with body := m.body }

def Framing.nlines : Framing → Nat
  | .none => 0
  | _ => 1

theorem headLoop_write' (m : WMsg) (code : Nat) (g : Good m code) (rest : Bytes) (N : Nat) :
    headLoop (N + 1 + m.after.length + m.framing.nlines + m.headers.length + 1) ⟨{}, write m ++ rest⟩ =
      .ok ⟨m.headCore code, m.wireBody ++ rest⟩ := by
  have hst := headLine_status {} m.version m.codeText m.reason code rfl g.vsp g.csp g.ascii g.code
  have h1 := headLoop_line (N + 1 + m.after.length + m.framing.nlines + m.headers.length) {} _ (statusLine m)
    (writeHeaders m.headers ++ (m.framing.lines ++ (writeHeaders m.after ++ (crlf ++ (m.wireBody ++ rest)))))
    (by decide) g.snocrlf hst
  have hw : write m ++ rest = statusLine m ++ crlf ++ (writeHeaders m.headers ++ (m.framing.lines ++ (writeHeaders m.after ++ (crlf ++ (m.wireBody ++ rest))))) := by
    simp [write, List.append_assoc]
  rw [hw, h1]
  rw [headLoop_headers m.headers _ _ _ rfl (fun h hh => g.hdrs h (by simp [hh]))]
  have hga : ∀ h ∈ m.after, GoodHeader h := fun h hh => g.hdrs h (by simp [hh])
  have gf := g.framing
  -- the tail shared by the three cases: the headers after the framing header, then the blank line
  have tail : ∀ (c : Core), c.state = 1 →
      headLoop (N + 1 + m.after.length) ⟨c, writeHeaders m.after ++ (crlf ++ (m.wireBody ++ rest))⟩ =
        .ok ⟨{ c with headers := c.headers ++ m.after.map normHeader, state := 2 }, m.wireBody ++ rest⟩ := by
    intro c hc
    rw [headLoop_headers m.after c _ (N + 1) hc hga]
    have hbl := headLine_blank { c with headers := c.headers ++ m.after.map normHeader } hc
    have := headLoop_line N _ _ [] (m.wireBody ++ rest) (by simp [hc]) rfl hbl
    simp only [List.nil_append] at this
    rw [this, headLoop_done _ _ (by simp)]
  cases hfr : m.framing with
  | none =>
    simp only [Framing.lines, Framing.raw, Framing.nlines, List.nil_append, Nat.add_zero]
    rw [tail _ rfl]
    simp [WMsg.headCore, WMsg.parsedHeaders, hfr, Framing.header, Framing.raw]
  | length h =>
    rw [hfr] at gf
    obtain ⟨gh, gname, glen⟩ := gf
    simp only [normHeader] at gname glen
    have hcl := headLine_clen { ({ version := m.version, code := code, state := 1 } : Core) with headers := [] ++ m.headers.map normHeader }
      h.1 h.2 m.body.length rfl gh.nocolon gh.ascii gname glen
    have h2 := headLoop_line (N + 1 + m.after.length) _ _ (headerLine h) (writeHeaders m.after ++ (crlf ++ (m.wireBody ++ rest))) (by simp) gh.nocrlf hcl
    simp only [Framing.lines, Framing.raw, Framing.nlines, List.append_assoc] at h2 ⊢
    rw [h2, tail _ rfl]
    simp [WMsg.headCore, WMsg.parsedHeaders, hfr, Framing.header, Framing.raw, normHeader, gname]
  | chunked h cs =>
    rw [hfr] at gf
    obtain ⟨gh, gnorm, _, _⟩ := gf
    simp only [normHeader, Prod.mk.injEq] at gnorm
    have hte := headLine_te { ({ version := m.version, code := code, state := 1 } : Core) with headers := [] ++ m.headers.map normHeader }
      h.1 h.2 rfl gh.nocolon gh.ascii gnorm.1 gnorm.2
    have h2 := headLoop_line (N + 1 + m.after.length) _ _ (headerLine h) (writeHeaders m.after ++ (crlf ++ (m.wireBody ++ rest))) (by simp) gh.nocrlf hte
    simp only [Framing.lines, Framing.raw, Framing.nlines, List.append_assoc] at h2 ⊢
    rw [h2, tail _ rfl]
    simp [WMsg.headCore, WMsg.parsedHeaders, hfr, Framing.header, Framing.raw, normHeader, gnorm.1, gnorm.2]

/-- status line, headers and the blank line of a written message are consumed exactly -/
theorem headLoop_write (m : WMsg) (code : Nat) (g : Good m code) (rest : Bytes) (fuel : Nat)
    (hf : (write m ++ rest).length < fuel) :
    headLoop fuel ⟨{}, write m ++ rest⟩ = .ok ⟨m.headCore code, m.wireBody ++ rest⟩ := by
  rw [headLoop_fuel fuel ((write m ++ rest).length + 1 + m.after.length + m.framing.nlines + m.headers.length + 1) _ hf (by simp; omega)]
  exact headLoop_write' m code g rest _

theorem parseHex_zero : parseHex [48] = some 0 := by decide

/-- the chunk loop consumes the chunks of a written body and the closing zero chunk -/
theorem chunkLoop_chunks : ∀ (cs : List (Bytes × Bytes)) (c : Core) (rest : Bytes) (fuel : Nat),
    (∀ x ∈ cs, x.2 ≠ [] ∧ parseHex x.1 = some x.2.length) →
    chunkLoop (fuel + cs.length + 1) ⟨c, writeChunks cs ++ rest⟩ =
      .ok ⟨{ c with body := c.body ++ joinChunks cs, hadEmpty := true, state := 3 }, rest⟩ := by
  intro cs
  induction cs with
  | nil =>
    intro c rest fuel _
    have hf : findCRLF (writeChunks [] ++ rest) = some 1 := by
      have := findCRLF_line [48] (crlf ++ rest) rfl
      simpa [writeChunks, List.append_assoc] using this
    have ht : (writeChunks [] ++ rest).take 1 = [48] := by simp [writeChunks]
    have hd : (writeChunks [] ++ rest).drop (1 + 2) = crlf ++ rest := by simp [writeChunks, crlf]
    rw [List.length_nil, Nat.add_zero, chunkLoop]
    simp only [hf, ht, hd, parseHex_zero]
    have h1 : ¬ (0 + 2 > (crlf ++ rest).length) := by simp [crlf]
    simp only [h1, if_false, if_true]
    simp [joinChunks, crlf]
  | cons x cs ih =>
    intro c rest fuel hg
    obtain ⟨hne, hhex⟩ := hg x (by simp)
    have hn : noCRLF x.1 = true :=
      noCRLF_of_no13 _ (fun b hb => hex_ne13 b (parseHex_hex _ _ hhex b hb))
    have hf : findCRLF (writeChunks (x :: cs) ++ rest) = some x.1.length := by
      have := findCRLF_line x.1 (x.2 ++ crlf ++ writeChunks cs ++ rest) hn
      simpa [writeChunks, List.append_assoc] using this
    have ht : (writeChunks (x :: cs) ++ rest).take x.1.length = x.1 := by
      simp [writeChunks, List.append_assoc]
    have hd : (writeChunks (x :: cs) ++ rest).drop (x.1.length + 2) = x.2 ++ (crlf ++ (writeChunks cs ++ rest)) := by
      simp only [writeChunks, List.append_assoc]
      rw [← List.drop_drop, List.drop_left']
      · simp [crlf]
      · rfl
    have hpos : 0 < x.2.length := List.length_pos_iff.mpr hne
    rw [show fuel + (x :: cs).length + 1 = (fuel + cs.length + 1) + 1 by simp; omega, chunkLoop]
    simp only [hf, ht, hd, hhex]
    have h1 : ¬ (x.2.length + 2 > (x.2 ++ (crlf ++ (writeChunks cs ++ rest))).length) := by
      simp [crlf]
    have h2 : ¬ x.2.length = 0 := by omega
    simp only [h1, h2, if_false]
    have h3 : (x.2 ++ (crlf ++ (writeChunks cs ++ rest))).take x.2.length = x.2 := by simp
    have h4 : (x.2 ++ (crlf ++ (writeChunks cs ++ rest))).drop (x.2.length + 2) = writeChunks cs ++ rest := by
      rw [← List.drop_drop, List.drop_left']
      · simp [crlf]
      · rfl
    rw [h3, h4, ih _ rest fuel (fun y hy => hg y (by simp [hy]))]
    simp [joinChunks, List.append_assoc]

/-- one whole written message at the front of the buffer is parsed into exactly that message, and exactly its
    bytes are consumed -/
theorem norm_write (m : WMsg) (code : Nat) (g : Good m code) (rest : Bytes) :
    norm ⟨{}, write m ++ rest⟩ = .ok ⟨m.core code, rest⟩ := by
  simp only [norm]
  rw [headLoop_write m code g rest _ (Nat.lt_succ_self _)]
  simp only [ok_bind, chunkPhase]
  have gf := g.framing
  cases hfr : m.framing with
  | none =>
    rw [hfr] at gf
    simp only [Framing.Good] at gf
    simp [WMsg.headCore, WMsg.core, WMsg.wireBody, hfr, bodyStep, pure, Except.pure, gf]
    rfl
  | length lt =>
    by_cases hb : m.body = []
    · simp [WMsg.headCore, WMsg.core, WMsg.wireBody, hfr, bodyStep, pure, Except.pure, hb]
      rfl
    · have hl : 0 < m.body.length := List.length_pos_iff.mpr hb
      simp [WMsg.headCore, WMsg.core, WMsg.wireBody, hfr, bodyStep, pure, Except.pure, hl]
      show Except.ok _ = _
      simp [hl]
  | chunked fh cs =>
    rw [hfr] at gf
    obtain ⟨_, _, hbody, hcs⟩ := gf
    have hcond : (m.headCore code).state = 2 ∧ (m.headCore code).chunked = true := by
      simp [WMsg.headCore, hfr]
    simp only [hcond, and_self, if_true, WMsg.wireBody, hfr]
    have hlen : cs.length + 1 ≤ (writeChunks cs ++ rest).length := by
      clear hcs hbody hfr
      induction cs with
      | nil => simp [writeChunks]
      | cons x xs ih =>
        have : crlf.length = 2 := rfl
        simp only [writeChunks, List.length_cons, List.length_append] at ih ⊢; omega
    obtain ⟨k, hk⟩ : ∃ k, (writeChunks cs ++ rest).length + 1 = k + cs.length + 1 := ⟨(writeChunks cs ++ rest).length - cs.length, by omega⟩
    rw [hk, chunkLoop_chunks cs _ rest k hcs]
    simp [WMsg.headCore, WMsg.core, hfr, bodyStep, pure, Except.pure, hbody]
    rfl

theorem core_complete (m : WMsg) (code : Nat) (g : Good m code) : (m.core code).complete = true := by
  have gf := g.framing
  cases hfr : m.framing with
  | none => simp [WMsg.core, WMsg.headCore, Core.complete, hfr]
  | length lt => simp [WMsg.core, WMsg.headCore, Core.complete, hfr]
  | chunked fh cs => simp [WMsg.core, WMsg.headCore, Core.complete, hfr]

theorem core_msg (m : WMsg) (code : Nat) : (m.core code).msg = m.msg code := by
  cases hfr : m.framing <;> simp [WMsg.core, WMsg.headCore, Core.msg, WMsg.msg, hfr]

theorem write_ne_nil (m : WMsg) : write m ≠ [] := by
  simp [write, crlf]

theorem feedLoop_writeAll : ∀ (ms : List (WMsg × Nat)) (fuel : Nat), ms.length < fuel →
    (∀ x ∈ ms, Good x.1 x.2) →
    feedLoop fuel {} (writeAll ms) = (ms.map (fun x => x.1.msg x.2), .ok {}) := by
  intro ms
  induction ms with
  | nil => intro fuel _ _; cases fuel <;> simp [feedLoop, writeAll]
  | cons x ms ih =>
    intro fuel hf hg
    obtain ⟨m, code⟩ := x
    cases fuel with
    | zero => simp at hf
    | succ n =>
      have hne : write m ++ writeAll ms ≠ [] := by simp [write_ne_nil]
      simp only [feedLoop, writeAll, hne, if_false]
      have : app {} (write m ++ writeAll ms) = ⟨{}, write m ++ writeAll ms⟩ := by simp [app]
      rw [this, norm_write m code (hg (m, code) (by simp)) (writeAll ms)]
      simp only [core_complete m code (hg (m, code) (by simp)), if_true, core_msg]
      rw [ih n (by simpa using hf) (fun y hy => hg y (by simp [hy]))]
      simp


/-! ## any prefix of a written stream satisfies the side condition of the segmentation theorem -/

theorem headLine_chunked_mono (c c' : Core) (line : Bytes) (h : headLine c line = .ok c')
    (hc : c.chunked = true) : c'.chunked = true := by
  unfold headLine at h
  dsimp only at h
  repeat' (split at h)
  all_goals (first | (cases h; simp [hc]) | cases h)

theorem headLine_clen_mono (c c' : Core) (line : Bytes) (h : headLine c line = .ok c')
    (hc : c.clen.isSome = true) : c'.clen.isSome = true := by
  unfold headLine at h
  dsimp only at h
  repeat' (split at h)
  all_goals (first | (cases h; simp [hc]) | cases h)

theorem headLoop_mono : ∀ (f : Nat) (p p' : P), headLoop f p = .ok p' →
    (p.core.chunked = true → p'.core.chunked = true) ∧ (p.core.clen.isSome = true → p'.core.clen.isSome = true) := by
  intro f
  induction f with
  | zero => intro p p' h; simp [headLoop] at h; subst h; exact ⟨id, id⟩
  | succ n ih =>
    intro p p' h
    rw [headLoop] at h
    split at h
    · cases h; exact ⟨id, id⟩
    · split at h
      · cases h; exact ⟨id, id⟩
      · split at h
        · cases h
        · rename_i c hcl
          obtain ⟨i1, i2⟩ := ih _ _ h
          exact ⟨fun hc => i1 (headLine_chunked_mono _ _ _ hcl hc), fun hc => i2 (headLine_clen_mono _ _ _ hcl hc)⟩

theorem H_write (m : WMsg) (code : Nat) (g : Good m code) (rest : Bytes) :
    H ⟨{}, write m ++ rest⟩ = .ok ⟨m.headCore code, m.wireBody ++ rest⟩ :=
  headLoop_write m code g rest _ (Nat.lt_succ_self _)

/-- a written message never announces both framings -/
theorem headCore_single_framing (m : WMsg) (code : Nat) :
    (m.headCore code).chunked = false ∨ (m.headCore code).clen = none := by
  cases hfr : m.framing <;> simp [WMsg.headCore, hfr]

/-- a read that is a prefix of a written message (followed by anything) does not announce both framings either -/
theorem GoodAt_prefix (m : WMsg) (code : Nat) (g : Good m code) (d e : Bytes) (h : d ++ e = write m ++ e')
    : GoodAt ⟨{}, d⟩ := by
  intro p1 h1 _ hch
  have := H_app ⟨{}, d⟩ e
  rw [h1, ok_bind] at this
  have hw := H_write m code g e'
  simp only [app] at this
  rw [h, hw] at this
  obtain ⟨m1, m2⟩ := headLoop_mono _ _ _ this
  rcases headCore_single_framing m code with hf | hf
  · have := m1 (by simpa [app] using hch)
    rw [hf] at this; cases this
  · left
    cases hcl : p1.core.clen with
    | none => rfl
    | some n =>
      have := m2 (by simp [app, hcl])
      rw [hf] at this; cases this

theorem app_fresh (d : Bytes) : app {} d = ⟨{}, d⟩ := by simp [app]

theorem WFc_fresh : WFc ({} : Core) := by intro h; cases h

theorem GoodRun_prefix : ∀ (ms : List (WMsg × Nat)), (∀ x ∈ ms, Good x.1 x.2) →
    ∀ (d e : Bytes), d ++ e = writeAll ms → GoodRun {} d := by
  intro ms
  induction ms with
  | nil =>
    intro _ d e h
    simp only [writeAll, List.append_eq_nil_iff] at h
    rw [h.1]; exact GoodRun.nil _
  | cons x ms ih =>
    intro hg d e h
    obtain ⟨m, code⟩ := x
    have g : Good m code := hg (m, code) (by simp)
    simp only [writeAll] at h
    have full : ∀ d', d = write m ++ d' → writeAll ms = d' ++ e → GoodRun {} d := by
      intro d' hd hr
      have hn : norm' (app {} d) = .ok ⟨m.core code, d'⟩ := by
        rw [app_fresh, hd, ← norm_eq]; exact norm_write m code g d'
      refine GoodRun.msg {} ⟨m.core code, d'⟩ d ?_ hn (core_complete m code g) ?_
      · rw [app_fresh]; exact GoodAt_prefix m code g d [] (e' := d') (by simp [hd])
      · exact ih (fun y hy => hg y (by simp [hy])) d' e hr.symm
    rcases List.append_eq_append_iff.mp h with ⟨a', ha, hb⟩ | ⟨c', hc, hd⟩
    · -- `d` ends inside (or at the end of) the first message
      by_cases hne : a' = []
      · subst hne
        exact full [] (by simpa using ha.symm) (by simpa using hb.symm)
      · have hga : GoodAt ⟨{}, d⟩ := GoodAt_prefix m code g d a' (e' := []) (by simp [ha])
        cases hn : norm' (app {} d) with
        | error er => exact GoodRun.err {} d er (by rw [app_fresh]; exact hga) hn
        | ok p3 =>
          by_cases hcpl : p3.core.complete = true
          · exfalso
            rw [app_fresh] at hn
            have hna := norm_app ⟨{}, d⟩ a' hga
            rw [hn, ok_bind] at hna
            have hw3 : WFc p3.core := (norm'_props _ _ hn).2.2 WFc_fresh
            rw [complete_stable p3 a' hcpl hw3] at hna
            have : app ⟨{}, d⟩ a' = ⟨{}, write m ++ []⟩ := by simp [app, ha]
            rw [this, ← norm_eq, norm_write m code g []] at hna
            injection hna with hna
            injection hna with _ hraw
            simp at hraw
            exact hne hraw.2
          · exact GoodRun.wait {} p3 d (by rw [app_fresh]; exact hga) hn (by simpa using hcpl)
    · exact full c' hc hd


theorem goodHeaderB_sound (h : Bytes × Bytes) (hb : goodHeaderB h = true) : GoodHeader h := by
  simp only [goodHeaderB, Bool.and_eq_true, Bool.not_eq_true', List.contains_eq_mem, decide_eq_false_iff_not,
    beq_iff_eq, bne_iff_ne, ne_eq] at hb
  obtain ⟨⟨⟨⟨h1, h2⟩, h3⟩, h4⟩, h5⟩ := hb
  exact ⟨h1, h2, h3, h4, h5⟩

theorem goodFramingHeaderB_sound (h : Bytes × Bytes) (hb : goodFramingHeaderB h = true) : GoodFramingHeader h := by
  simp only [goodFramingHeaderB, Bool.and_eq_true, Bool.not_eq_true', List.contains_eq_mem, decide_eq_false_iff_not] at hb
  exact ⟨hb.1.1, hb.1.2, hb.2⟩

theorem framing_goodB_sound (f : Framing) (body : Bytes) (hb : f.goodB body = true) : f.Good body := by
  cases f with
  | none => simpa [Framing.goodB, Framing.Good] using hb
  | length h =>
    simp only [Framing.goodB, Bool.and_eq_true, beq_iff_eq] at hb
    exact ⟨goodFramingHeaderB_sound h hb.1.1, hb.1.2, hb.2⟩
  | chunked h cs =>
    simp only [Framing.goodB, Bool.and_eq_true, beq_iff_eq, List.all_eq_true, Bool.not_eq_true',
      List.isEmpty_eq_false_iff] at hb
    exact ⟨goodFramingHeaderB_sound h hb.1.1.1, hb.1.1.2, hb.1.2, fun c hc => hb.2 c hc⟩

/-- the executable check implies `Good` -/
theorem goodB_sound (m : WMsg) (code : Nat) (hb : goodB m code = true) : Good m code := by
  simp only [goodB, Bool.and_eq_true, Bool.not_eq_true', List.contains_eq_mem, decide_eq_false_iff_not,
    beq_iff_eq, List.all_eq_true] at hb
  obtain ⟨⟨⟨⟨⟨⟨h1, h2⟩, h3⟩, h4⟩, h5⟩, h6⟩, h7⟩ := hb
  exact ⟨h1, h2, List.all_eq_true.mpr h3, h4, h5, fun h hh => goodHeaderB_sound h (h6 h hh), framing_goodB_sound _ _ h7⟩


end HapVerif.Http
