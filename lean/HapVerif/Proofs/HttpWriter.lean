import HapVerif.Proofs.HttpFeed
import HapVerif.Spec.HttpWriter

/-! # The parser inverts the writer (lemmas for C07) -/

namespace HapVerif.Http
theorem findCRLF_line : ∀ (line rest : Bytes), noCRLF line = true →
    findCRLF (line ++ crlf ++ rest) = some line.length := by
  intro line
  induction line with
  | nil => intro rest _; simp [crlf, findCRLF]
  | cons a t ih =>
    intro rest hn
    cases t with
    | nil => simp [crlf, findCRLF]
    | cons b t' =>
      simp only [noCRLF, Bool.and_eq_true, Bool.not_eq_true', decide_eq_false_iff_not] at hn
      have := ih rest hn.2
      simp only [List.cons_append] at this ⊢
      simp only [findCRLF, hn.1, if_false, this, Option.map_some, List.length_cons]

/-- one iteration of the header loop on a written line -/
theorem headLoop_line (fuel : Nat) (c c' : Core) (line rest : Bytes) (hs : c.state < 2)
    (hn : noCRLF line = true) (hl : headLine c line = .ok c') :
    headLoop (fuel + 1) ⟨c, line ++ crlf ++ rest⟩ = headLoop fuel ⟨c', rest⟩ := by
  have hf := findCRLF_line line rest hn
  simp only [headLoop]
  have : ¬ c.state ≥ 2 := by omega
  simp only [this, if_false, hf]
  have ht : (line ++ crlf ++ rest).take line.length = line := by
    rw [List.append_assoc, List.take_left']; rfl
  have hd : (line ++ crlf ++ rest).drop (line.length + 2) = rest := by
    rw [List.append_assoc, ← List.drop_drop, List.drop_left']
    · simp [crlf]
    · rfl
  rw [ht, hl, hd]

theorem span_loop_ne (sep : UInt8) : ∀ (v x acc : Bytes), sep ∉ v →
    List.span.loop (· ≠ sep) (v ++ sep :: x) acc = (acc.reverse ++ v, sep :: x) := by
  intro v
  induction v with
  | nil => intro x acc _; simp [List.span.loop]
  | cons a t ih =>
    intro x acc h
    have ha : a ≠ sep := fun hh => h (by simp [hh])
    have ht : sep ∉ t := fun hh => h (by simp [hh])
    simp only [List.cons_append, List.span.loop, ne_eq, ha, not_false_eq_true, decide_true]
    rw [ih x (a :: acc) ht]
    simp

theorem span_ne (sep : UInt8) (v x : Bytes) (h : sep ∉ v) : (v ++ sep :: x).span (· ≠ sep) = (v, sep :: x) := by
  simp only [List.span]
  rw [span_loop_ne sep v x [] h]
  simp

theorem splitN_status (v c r : Bytes) (hv : (32 : UInt8) ∉ v) (hc : (32 : UInt8) ∉ c) :
    splitN 32 2 (v ++ 32 :: (c ++ 32 :: r)) = [v, c, r] := by
  simp only [splitN, span_ne 32 v _ hv, span_ne 32 c _ hc]

theorem splitN_header (n v : Bytes) (hn : (58 : UInt8) ∉ n) :
    splitN 58 1 (n ++ 58 :: v) = [n, v] := by
  simp only [splitN, span_ne 58 n _ hn]

/-- the status line `version SP code SP reason` -/
theorem headLine_status (c0 : Core) (v ct r : Bytes) (code : Nat) (h0 : c0.state = 0)
    (hv : (32 : UInt8) ∉ v) (hc : (32 : UInt8) ∉ ct) (hascii : (v ++ r).all (· < 128) = true)
    (hcode : parseDec ct = some code) :
    headLine c0 (v ++ 32 :: (ct ++ 32 :: r)) = .ok { c0 with version := v, code := code, state := 1 } := by
  simp only [headLine, h0, if_true, splitN_status v ct r hv hc, hascii, Bool.not_true, Bool.false_eq_true,
    if_false, hcode]

/-- an ordinary header line `Name: value` -/
theorem headLine_header (c : Core) (n v : Bytes) (h1 : c.state = 1) (hn : (58 : UInt8) ∉ n)
    (hne : n ++ 58 :: 32 :: v ≠ [])
    (hascii : (n ++ 32 :: v).all (· < 128) = true)
    (hname : title (strip n) = n) (hval : strip (32 :: v) = v)
    (hte : n ≠ strTE) (hcl : n ≠ strCL) :
    headLine c (n ++ 58 :: 32 :: v) = .ok { c with headers := c.headers ++ [(n, v)] } := by
  have hs : ¬ c.state = 0 := by omega
  simp only [headLine, hs, if_false, hne, splitN_header n (32 :: v) hn, hascii, Bool.not_true,
    Bool.false_eq_true, hname, hval, hte, hcl]

/-- the `Content-Length` header -/
theorem headLine_clen (c : Core) (lt : Bytes) (len : Nat) (h1 : c.state = 1)
    (hascii : lt.all (· < 128) = true) (hval : strip (32 :: lt) = lt) (hlen : parseDec lt = some len) :
    headLine c (strCL ++ 58 :: 32 :: lt) =
      .ok { c with clen := some len, headers := c.headers ++ [(strCL, lt)] } := by
  have hs : ¬ c.state = 0 := by omega
  have hn : (58 : UInt8) ∉ strCL := by decide +kernel
  have hne : strCL ++ 58 :: 32 :: lt ≠ [] := by simp [strCL]
  have hname : title (strip strCL) = strCL := by decide +kernel
  have hte : strCL ≠ strTE := by decide +kernel
  have ha : (strCL ++ 32 :: lt).all (· < 128) = true := by
    simp only [List.all_append, List.all_cons, hascii, Bool.and_true]
    decide +kernel
  simp only [headLine, hs, if_false, hne, splitN_header strCL (32 :: lt) hn, ha, Bool.not_true,
    Bool.false_eq_true, hname, hval, hte, if_true, hlen]

/-- the empty line that ends the headers -/
theorem headLine_blank (c : Core) (h1 : c.state = 1) : headLine c [] = .ok { c with state := 2 } := by
  have hs : ¬ c.state = 0 := by omega
  simp only [headLine, hs, if_false, if_true]

/-- the header loop consumes a block of ordinary header lines -/
theorem headLoop_headers : ∀ (hs : List (Bytes × Bytes)) (c : Core) (rest : Bytes) (fuel : Nat),
    c.state = 1 → (∀ h ∈ hs, GoodHeader h) →
    headLoop (fuel + hs.length) ⟨c, writeHeaders hs ++ rest⟩ =
      headLoop fuel ⟨{ c with headers := c.headers ++ hs }, rest⟩ := by
  intro hs
  induction hs with
  | nil => intro c rest fuel _ _; simp [writeHeaders]
  | cons h hs ih =>
    intro c rest fuel h1 hg
    have gh := hg h (by simp)
    have hne : headerLine h ≠ [] := by simp [headerLine]
    have hl := headLine_header c h.1 h.2 h1 gh.nocolon hne gh.ascii gh.name gh.value gh.notTE gh.notCL
    have hstep := headLoop_line (fuel + hs.length) c _ (headerLine h) (writeHeaders hs ++ rest) (by omega) gh.nocrlf hl
    simp only [writeHeaders, List.length_cons, List.append_assoc] at hstep ⊢
    rw [show fuel + (hs.length + 1) = fuel + hs.length + 1 by omega, hstep]
    have := ih { c with headers := c.headers ++ [(h.1, h.2)] } rest fuel h1 (fun x hx => hg x (by simp [hx]))
    rw [this]
    simp [List.append_assoc]

theorem headLoop_done (fuel : Nat) (p : P) (h : 2 ≤ p.core.state) : headLoop fuel p = .ok p := by
  cases fuel with
  | zero => rfl
  | succ n => simp [headLoop, h]

theorem headLoop_write' (m : WMsg) (code : Nat) (g : Good m code) (rest : Bytes) (N : Nat) :
    headLoop (N + 1 + 1 + m.headers.length + 1) ⟨{}, write m ++ rest⟩ =
      .ok ⟨{ m.core code with body := [] }, m.body ++ rest⟩ := by
  have hst := headLine_status {} m.version m.codeText m.reason code rfl g.vsp g.csp g.ascii g.code
  have h1 := headLoop_line (N + 1 + 1 + m.headers.length) {} _ (statusLine m)
    (writeHeaders m.headers ++ (((if m.body = [] then [] else (strCL ++ 58 :: 32 :: m.lenText) ++ crlf) ++ (crlf ++ m.body)) ++ rest))
    (by decide) g.snocrlf hst
  have hw : write m ++ rest = statusLine m ++ crlf ++ (writeHeaders m.headers ++ (((if m.body = [] then [] else (strCL ++ 58 :: 32 :: m.lenText) ++ crlf) ++ (crlf ++ m.body)) ++ rest)) := by
    simp [write, List.append_assoc]
  rw [hw, h1]
  rw [headLoop_headers m.headers _ _ _ rfl g.hdrs]
  by_cases hb : m.body = []
  · simp only [hb, if_true, List.nil_append]
    have hbl := headLine_blank { ({ version := m.version, code := code, state := 1 } : Core) with headers := [] ++ m.headers } rfl
    have := headLoop_line (N + 1) _ _ [] rest (by simp) rfl hbl
    simp only [List.nil_append, List.append_assoc] at this ⊢
    rw [this, headLoop_done _ _ (by simp)]
    simp [WMsg.core, WMsg.parsedHeaders, hb]
  · simp only [hb, if_false]
    have hcl := headLine_clen { ({ version := m.version, code := code, state := 1 } : Core) with headers := [] ++ m.headers }
      m.lenText m.body.length rfl (g.lascii hb) (g.lval hb) (g.len hb)
    have h2 := headLoop_line (N + 1) _ _ (strCL ++ 58 :: 32 :: m.lenText) (crlf ++ m.body ++ rest) (by simp) (g.lnocrlf hb) hcl
    have hbl := headLine_blank { ({ version := m.version, code := code, state := 1, clen := some m.body.length } : Core) with headers := [] ++ m.headers ++ [(strCL, m.lenText)] } rfl
    have h3 := headLoop_line N _ _ [] (m.body ++ rest) (by simp) rfl hbl
    simp only [List.nil_append, List.append_assoc] at h2 h3 ⊢
    rw [h2, h3, headLoop_done _ _ (by simp)]
    simp [WMsg.core, WMsg.parsedHeaders, hb]

/-- status line, headers and the blank line of a written message are consumed exactly -/
theorem headLoop_write (m : WMsg) (code : Nat) (g : Good m code) (rest : Bytes) (fuel : Nat)
    (hf : (write m ++ rest).length < fuel) :
    headLoop fuel ⟨{}, write m ++ rest⟩ = .ok ⟨{ m.core code with body := [] }, m.body ++ rest⟩ := by
  rw [headLoop_fuel fuel ((write m ++ rest).length + 1 + 1 + m.headers.length + 1) _ hf (by simp; omega)]
  exact headLoop_write' m code g rest _

/-- one whole written message at the front of the buffer is parsed into exactly that message, and exactly its
    bytes are consumed -/
theorem norm_write (m : WMsg) (code : Nat) (g : Good m code) (rest : Bytes) :
    norm ⟨{}, write m ++ rest⟩ = .ok ⟨m.core code, rest⟩ := by
  simp only [norm]
  rw [headLoop_write m code g rest _ (Nat.lt_succ_self _)]
  simp only [ok_bind, chunkPhase]
  by_cases hb : m.body = []
  · simp [WMsg.core, hb, bodyStep, pure, Except.pure]
    rfl
  · have hl : 0 < m.body.length := List.length_pos_iff.mpr hb
    simp [WMsg.core, hb, bodyStep, pure, Except.pure, hl]
    show Except.ok _ = _
    simp [hl]

theorem core_complete (m : WMsg) (code : Nat) : (m.core code).complete = true := by
  by_cases hb : m.body = [] <;> simp [WMsg.core, Core.complete, hb]

theorem core_msg (m : WMsg) (code : Nat) : (m.core code).msg = m.msg code := rfl

theorem write_ne_nil (m : WMsg) : write m ≠ [] := by
  simp [write, crlf]

theorem feedLoop_writeAll : ∀ (ms : List (WMsg × Nat)) (fuel : Nat), ms.length < fuel →
    (∀ x ∈ ms, Good x.1 x.2) →
    feedLoop fuel {} (writeAll ms) = (ms.map (fun x => x.1.msg x.2), .ok {}) := by
  intro ms
  induction ms with
  | nil => intro fuel _ _; cases fuel <;> simp [feedLoop, writeAll]
  | cons x ms ih =>
    intro fuel hf hg
    obtain ⟨m, code⟩ := x
    cases fuel with
    | zero => simp at hf
    | succ n =>
      have hne : write m ++ writeAll ms ≠ [] := by simp [write_ne_nil]
      simp only [feedLoop, writeAll, hne, if_false]
      have : app {} (write m ++ writeAll ms) = ⟨{}, write m ++ writeAll ms⟩ := by simp [app]
      rw [this, norm_write m code (hg (m, code) (by simp)) (writeAll ms)]
      simp only [core_complete, if_true, core_msg]
      rw [ih n (by simpa using hf) (fun y hy => hg y (by simp [hy]))]
      simp

/-! ## any prefix of a written stream satisfies the side condition of the segmentation theorem -/

theorem headLine_chunked_mono (c c' : Core) (line : Bytes) (h : headLine c line = .ok c')
    (hc : c.chunked = true) : c'.chunked = true := by
  unfold headLine at h
  dsimp only at h
  repeat' (split at h)
  all_goals (first | (cases h; simp [hc]) | cases h)

theorem headLoop_chunked_mono : ∀ (f : Nat) (p p' : P), headLoop f p = .ok p' →
    p.core.chunked = true → p'.core.chunked = true := by
  intro f
  induction f with
  | zero => intro p p' h hc; simp [headLoop] at h; subst h; exact hc
  | succ n ih =>
    intro p p' h hc
    rw [headLoop] at h
    split at h
    · cases h; exact hc
    · split at h
      · cases h; exact hc
      · split at h
        · cases h
        · rename_i c hcl
          exact ih _ _ h (headLine_chunked_mono _ _ _ hcl hc)

theorem H_write (m : WMsg) (code : Nat) (g : Good m code) (rest : Bytes) :
    H ⟨{}, write m ++ rest⟩ = .ok ⟨{ m.core code with body := [] }, m.body ++ rest⟩ :=
  headLoop_write m code g rest _ (Nat.lt_succ_self _)

/-- a read that is a prefix of a written message (followed by anything) announces no chunked framing -/
theorem GoodAt_prefix (m : WMsg) (code : Nat) (g : Good m code) (d e : Bytes) (h : d ++ e = write m ++ e')
    : GoodAt ⟨{}, d⟩ := by
  intro p1 h1 _ hch
  exfalso
  have := H_app ⟨{}, d⟩ e
  rw [h1, ok_bind] at this
  have hw := H_write m code g e'
  simp only [app] at this
  rw [h, hw] at this
  have hm := headLoop_chunked_mono _ _ _ this (by simpa [app] using hch)
  simp [WMsg.core] at hm

theorem app_fresh (d : Bytes) : app {} d = ⟨{}, d⟩ := by simp [app]

theorem WFc_fresh : WFc ({} : Core) := by intro h; cases h

theorem GoodRun_prefix : ∀ (ms : List (WMsg × Nat)), (∀ x ∈ ms, Good x.1 x.2) →
    ∀ (d e : Bytes), d ++ e = writeAll ms → GoodRun {} d := by
  intro ms
  induction ms with
  | nil =>
    intro _ d e h
    simp only [writeAll, List.append_eq_nil_iff] at h
    rw [h.1]; exact GoodRun.nil _
  | cons x ms ih =>
    intro hg d e h
    obtain ⟨m, code⟩ := x
    have g : Good m code := hg (m, code) (by simp)
    simp only [writeAll] at h
    have full : ∀ d', d = write m ++ d' → writeAll ms = d' ++ e → GoodRun {} d := by
      intro d' hd hr
      have hn : norm' (app {} d) = .ok ⟨m.core code, d'⟩ := by
        rw [app_fresh, hd, ← norm_eq]; exact norm_write m code g d'
      refine GoodRun.msg {} ⟨m.core code, d'⟩ d ?_ hn (core_complete m code) ?_
      · rw [app_fresh]; exact GoodAt_prefix m code g d [] (e' := d') (by simp [hd])
      · exact ih (fun y hy => hg y (by simp [hy])) d' e hr.symm
    rcases List.append_eq_append_iff.mp h with ⟨a', ha, hb⟩ | ⟨c', hc, hd⟩
    · -- `d` ends inside (or at the end of) the first message
      by_cases hne : a' = []
      · subst hne
        exact full [] (by simpa using ha.symm) (by simpa using hb.symm)
      · have hga : GoodAt ⟨{}, d⟩ := GoodAt_prefix m code g d a' (e' := []) (by simp [ha])
        cases hn : norm' (app {} d) with
        | error er => exact GoodRun.err {} d er (by rw [app_fresh]; exact hga) hn
        | ok p3 =>
          by_cases hcpl : p3.core.complete = true
          · exfalso
            rw [app_fresh] at hn
            have hna := norm_app ⟨{}, d⟩ a' hga
            rw [hn, ok_bind] at hna
            have hw3 : WFc p3.core := (norm'_props _ _ hn).2.2 WFc_fresh
            rw [complete_stable p3 a' hcpl hw3] at hna
            have : app ⟨{}, d⟩ a' = ⟨{}, write m ++ []⟩ := by simp [app, ha]
            rw [this, ← norm_eq, norm_write m code g []] at hna
            injection hna with hna
            injection hna with _ hraw
            simp at hraw
            exact hne hraw.2
          · exact GoodRun.wait {} p3 d (by rw [app_fresh]; exact hga) hn (by simpa using hcpl)
    · exact full c' hc hd

end HapVerif.Http
