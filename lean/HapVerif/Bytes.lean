/-! Shared byte-string vocabulary of all models (core Lean only, so the driver links). -/

abbrev Bytes := List UInt8

deriving instance DecidableEq for Except

namespace HapVerif

def hexDigit (n : Nat) : Char :=
  if n < 10 then Char.ofNat (48 + n) else Char.ofNat (87 + n)

/-- lower-case hex; the empty string is written `-` so that it survives `splitOn " "`. -/
def toHex (b : Bytes) : String :=
  if b.isEmpty then "-"
  else String.ofList (b.flatMap fun c => [hexDigit (c.toNat / 16), hexDigit (c.toNat % 16)])

def hexVal (c : Char) : Nat :=
  if c.isDigit then c.toNat - 48 else if c.toNat ≥ 97 then c.toNat - 87 else c.toNat - 55

def ofHexChars : List Char → Bytes
  | a :: b :: t => UInt8.ofNat (hexVal a * 16 + hexVal b) :: ofHexChars t
  | _ => []

def ofHex (s : String) : Bytes := if s = "-" then [] else ofHexChars s.toList

/-- little-endian reading of a byte string -/
def leToNat (b : Bytes) : Nat := b.foldr (fun x acc => x.toNat + 256 * acc) 0
/-- big-endian reading of a byte string -/
def beToNat (b : Bytes) : Nat := b.foldl (fun acc x => acc * 256 + x.toNat) 0

/-- `k` little-endian bytes of `n` (truncating, like `struct.pack` would refuse - callers guard) -/
def natToLe : Nat → Nat → Bytes
  | 0, _ => []
  | k+1, n => UInt8.ofNat (n % 256) :: natToLe k (n / 256)

def natToBe (k n : Nat) : Bytes := (natToLe k n).reverse

def str (s : String) : Bytes := s.toUTF8.toList

@[simp] theorem natToLe_length (k n : Nat) : (natToLe k n).length = k := by
  induction k generalizing n with
  | zero => rfl
  | succ k ih => simp [natToLe, ih]

end HapVerif
