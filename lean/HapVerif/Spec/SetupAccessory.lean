import HapVerif.Model.Crypto.Abstract
import HapVerif.Model.Tlv

/-! # HAP §5.6 pair-setup M5/M6, accessory side (written from the specification)

M5 check: decrypt EncryptedData with `SessionKey = HKDF(K, "Pair-Setup-Encrypt-Salt",
"Pair-Setup-Encrypt-Info")`, nonce "PS-Msg05"; derive `iOSDeviceX` with the Controller-Sign labels;
verify the Ed25519 signature of `iOSDeviceX ‖ iOSDevicePairingID ‖ iOSDeviceLTPK` with the LTPK
inside.  M6: `AccessoryX` with the Accessory-Sign labels, sign
`AccessoryX ‖ AccessoryPairingID ‖ AccessoryLTPK`, send TLV{Identifier, PublicKey, Signature}
encrypted with nonce "PS-Msg06". -/

namespace HapVerif.Spec.SetupAccessory
open HapVerif HapVerif.Tlv

def noncePad : Bytes := [0, 0, 0, 0]
def sessionKey (C : Crypto) (K : Bytes) : Bytes := C.hkdf K (str "Pair-Setup-Encrypt-Salt") (str "Pair-Setup-Encrypt-Info") 32
def iosDeviceX (C : Crypto) (K : Bytes) : Bytes :=
  C.hkdf K (str "Pair-Setup-Controller-Sign-Salt") (str "Pair-Setup-Controller-Sign-Info") 32
def accessoryX (C : Crypto) (K : Bytes) : Bytes :=
  C.hkdf K (str "Pair-Setup-Accessory-Sign-Salt") (str "Pair-Setup-Accessory-Sign-Info") 32

/-- returns the controller's (identifier, LTPK) if M5 is acceptable -/
def acceptM5 (C : Crypto) (K : Bytes) (m5 : Items) : Option (Bytes × Bytes) :=
  match lookup 6 m5, lookup 5 m5 with
  | some st, some enc =>
    if st ≠ [5] then none else
    match C.aeadOpen (sessionKey C K) (noncePad ++ str "PS-Msg05") [] enc with
    | none => none
    | some plain =>
      match decode none plain with
      | .error _ => none
      | .ok d =>
        match lookup 1 d, lookup 3 d, lookup 10 d with
        | some ident, some ltpk, some sig =>
          if C.edVerify ltpk (iosDeviceX C K ++ ident ++ ltpk) sig then some (ident, ltpk) else none
        | _, _, _ => none
  | _, _ => none

def m6 (C : Crypto) (K accId accLTSK : Bytes) : Items :=
  let ltpk := C.edPub accLTSK
  let sig := C.edSign accLTSK (accessoryX C K ++ accId ++ ltpk)
  [(6, [6]), (5, C.aeadSeal (sessionKey C K) (noncePad ++ str "PS-Msg06") []
    (encodeList [(1, accId), (3, ltpk), (10, sig)]))]

end HapVerif.Spec.SetupAccessory
