import HapVerif.Bytes

/-! # HAP §6.5.2 session framing, accessory side (written from the specification)

Each HTTP message is split into frames of at most 1024 plaintext bytes:
`<2:AAD = LE16 length n> <n: encrypted data> <16: authTag>`, nonce = a 64-bit counter starting
at 0 and incremented per frame in each direction.  A frame that does not verify ends the session. -/

namespace HapVerif.Spec.Frames

/-- `seal counter aad plaintext = ciphertext ‖ tag`, `open counter aad (ciphertext ‖ tag)` -/
abbrev SealFn := Nat → Bytes → Bytes → Bytes
abbrev OpenFn := Nat → Bytes → Bytes → Option Bytes

/-- a conformant accessory writing plaintext blocks (sizes are its own choice, 1..1024) -/
def writeFrames (sl : SealFn) : Nat → List Bytes → Bytes
  | _, [] => []
  | c, b :: bs => natToLe 2 b.length ++ sl c (natToLe 2 b.length) b ++ writeFrames sl (c + 1) bs

/-- a conformant accessory reading a complete frame stream: `none` if any frame is malformed
    (announces more than 1024 bytes, is cut short, or fails authentication) -/
def readFrames (op : OpenFn) : Nat → Nat → Bytes → Option (List Bytes)
  | 0, _, _ => some []
  | fuel+1, c, s =>
    match s with
    | [] => some []
    | [_] => none
    | x :: y :: rest =>
      let n := x.toNat + 256 * y.toNat
      if n > 1024 ∨ rest.length < n + 16 then none else
      match op c [x, y] (rest.take (n + 16)) with
      | none => none
      | some p => (readFrames op fuel (c + 1) (rest.drop (n + 16))).map (p :: ·)

end HapVerif.Spec.Frames
