import HapVerif.Model.Http

/-! # Specification: how a conformant accessory *writes* HTTP/1.1 responses and EVENT/1.0 messages

Independent of the parser: `write` lays a message out as bytes - status line, header lines with the framing
header (`Content-Length`, `Transfer-Encoding: chunked`, or none for a message without body) anywhere among them -
all in any spelling -, the blank line, then the body as such or as a sequence of chunks closed by the zero chunk.  `Good` lists what the writer promises (no stray
separators, ASCII head, numbers that say what they should; header names and values in any spelling).  `WMsg.msg` is what the
application must be handed.  C07's correctness theorems say that the parser, fed any segmentation of
`writeAll ms`, hands over exactly `ms.map WMsg.msg` and consumes exactly the bytes written. -/

namespace HapVerif.Http

def crlf : Bytes := [13, 10]

/-- no CR LF pair inside -/
def noCRLF : Bytes → Bool
  | [] => true
  | [_] => true
  | a :: b :: t => !(a = 13 ∧ b = 10) && noCRLF (b :: t)

inductive Framing
  | none                                        -- no body, no framing header
  | length (h : Bytes × Bytes)                  -- the Content-Length header as written (any spelling), then the body
  | chunked (h : Bytes × Bytes) (chunks : List (Bytes × Bytes))
                                                -- the Transfer-Encoding header as written, then (size in hex, data) ... and `0`
  deriving Repr

/-- an HTTP/1.1 or EVENT/1.0 message as an accessory writes it -/
structure WMsg where
  version : Bytes              -- e.g. `HTTP/1.1`, `EVENT/1.0`
  codeText : Bytes             -- the decimal rendering of the status code
  reason : Bytes
  headers : List (Bytes × Bytes)   -- ordinary headers written before the framing header
  framing : Framing
  after : List (Bytes × Bytes)     -- ordinary headers written after it
  body : Bytes
  deriving Repr

/-- a header line as written: name, colon, then the value exactly as given (any padding is part of it) -/
def headerLine (h : Bytes × Bytes) : Bytes := h.1 ++ 58 :: h.2

/-- what the application sees of a header: name in `Title-Case`, white space around name and value removed
    (field names are case-insensitive and optional white space is not part of a value: RFC 7230 §3.2) -/
def normHeader (h : Bytes × Bytes) : Bytes × Bytes := (title (strip h.1), strip h.2)

def writeHeaders : List (Bytes × Bytes) → Bytes
  | [] => []
  | h :: hs => headerLine h ++ crlf ++ writeHeaders hs

def statusLine (m : WMsg) : Bytes := m.version ++ 32 :: (m.codeText ++ 32 :: m.reason)

/-- the framing header as written -/
def Framing.raw : Framing → Option (Bytes × Bytes)
  | .none => Option.none
  | .length h => some h
  | .chunked h _ => some h

/-- ... and as the application sees it -/
def Framing.header (f : Framing) : Option (Bytes × Bytes) := f.raw.map normHeader

def Framing.lines (f : Framing) : Bytes :=
  match f.raw with
  | Option.none => []
  | some h => headerLine h ++ crlf

def writeChunks : List (Bytes × Bytes) → Bytes
  | [] => 48 :: (crlf ++ crlf)                                  -- `0 CRLF CRLF`
  | c :: cs => c.1 ++ crlf ++ (c.2 ++ crlf ++ writeChunks cs)

def joinChunks : List (Bytes × Bytes) → Bytes
  | [] => []
  | c :: cs => c.2 ++ joinChunks cs

def WMsg.wireBody (m : WMsg) : Bytes :=
  match m.framing with
  | .chunked _ cs => writeChunks cs
  | _ => m.body

def write (m : WMsg) : Bytes :=
  statusLine m ++ crlf ++ (writeHeaders m.headers ++ (m.framing.lines ++ (writeHeaders m.after ++ (crlf ++ m.wireBody))))

/-- what makes an (ordinary) header acceptable as written: no colon in the name, ASCII, no line break inside, and
    not a framing header under any spelling -/
structure GoodHeader (h : Bytes × Bytes) : Prop where
  nocolon : (58 : UInt8) ∉ h.1
  ascii : (h.1 ++ h.2).all (· < 128) = true
  notTE : (normHeader h).1 ≠ strTE
  notCL : (normHeader h).1 ≠ strCL
  nocrlf : noCRLF (headerLine h) = true

/-- a framing header is written like any other header -/
structure GoodFramingHeader (h : Bytes × Bytes) : Prop where
  nocolon : (58 : UInt8) ∉ h.1
  ascii : (h.1 ++ h.2).all (· < 128) = true
  nocrlf : noCRLF (headerLine h) = true

/-- the framing header is what it claims to be (under any spelling) and says what the body is -/
def Framing.Good : Framing → Bytes → Prop
  | .none, body => body = []
  | .length h, body => GoodFramingHeader h ∧ (normHeader h).1 = strCL ∧ parseDec (normHeader h).2 = some body.length
  | .chunked h cs, body => GoodFramingHeader h ∧ normHeader h = (strTE, strChunked) ∧ body = joinChunks cs ∧
      ∀ c ∈ cs, c.2 ≠ [] ∧ parseHex c.1 = some c.2.length

structure Good (m : WMsg) (code : Nat) : Prop where
  vsp : (32 : UInt8) ∉ m.version
  csp : (32 : UInt8) ∉ m.codeText
  ascii : (m.version ++ m.reason).all (· < 128) = true
  code : parseDec m.codeText = some code
  snocrlf : noCRLF (statusLine m) = true
  hdrs : ∀ h ∈ m.headers ++ m.after, GoodHeader h
  framing : m.framing.Good m.body

/-- executable form of `Good` (sound: `goodB_sound`), used by the driver to certify the harness's messages -/
def goodHeaderB (h : Bytes × Bytes) : Bool :=
  !h.1.contains 58 && (h.1 ++ h.2).all (· < 128) && (normHeader h).1 != strTE && (normHeader h).1 != strCL &&
    noCRLF (headerLine h)

def goodFramingHeaderB (h : Bytes × Bytes) : Bool :=
  !h.1.contains 58 && (h.1 ++ h.2).all (· < 128) && noCRLF (headerLine h)

def Framing.goodB : Framing → Bytes → Bool
  | .none, body => body.isEmpty
  | .length h, body => goodFramingHeaderB h && (normHeader h).1 == strCL && parseDec (normHeader h).2 == some body.length
  | .chunked h cs, body => goodFramingHeaderB h && normHeader h == (strTE, strChunked) && body == joinChunks cs &&
      cs.all (fun c => !c.2.isEmpty && parseHex c.1 == some c.2.length)

def goodB (m : WMsg) (code : Nat) : Bool :=
  !m.version.contains 32 && !m.codeText.contains 32 && (m.version ++ m.reason).all (· < 128) &&
    parseDec m.codeText == some code && noCRLF (statusLine m) && (m.headers ++ m.after).all goodHeaderB &&
    m.framing.goodB m.body

/-- the headers the application sees: the written ones (normalised), then the framing header -/
def WMsg.parsedHeaders (m : WMsg) : List (Bytes × Bytes) :=
  m.headers.map normHeader ++ (m.framing.header.toList ++ m.after.map normHeader)

/-- what the application is handed for a written message -/
def WMsg.msg (m : WMsg) (code : Nat) : Msg :=
  ⟨m.version.takeWhile (· ≠ 47), code, m.parsedHeaders, m.body⟩

/-- a stream of written messages -/
def writeAll : List (WMsg × Nat) → Bytes
  | [] => []
  | (m, _) :: ms => write m ++ writeAll ms


end HapVerif.Http
