import HapVerif.Model.Http

/-! # Specification: how a conformant accessory *writes* HTTP/1.1 responses and EVENT/1.0 messages

Independent of the parser: `write` lays a message out as bytes (status line, header lines, an optional
`Content-Length` line, the blank line, the body); `Good` lists what the writer promises (no stray separators, ASCII
head, canonical header names, decimal numbers).  `WMsg.msg` is what the application must be handed.  C07's
correctness theorems say that the parser, fed any segmentation of `writeAll ms`, hands over exactly
`ms.map WMsg.msg` and consumes exactly the bytes written. -/

namespace HapVerif.Http
def crlf : Bytes := [13, 10]

/-- no CR LF pair inside -/
def noCRLF : Bytes → Bool
  | [] => true
  | [_] => true
  | a :: b :: t => !(a = 13 ∧ b = 10) && noCRLF (b :: t)

/-- an HTTP/1.1 or EVENT/1.0 message as a conformant accessory writes it (no chunking; `Content-Length` iff
    there is a body) -/
structure WMsg where
  version : Bytes              -- e.g. `HTTP/1.1`, `EVENT/1.0`
  codeText : Bytes             -- the decimal rendering of the status code
  reason : Bytes
  headers : List (Bytes × Bytes)   -- other than Content-Length / Transfer-Encoding, names in canonical form
  lenText : Bytes              -- decimal rendering of the body length (used iff the body is non-empty)
  body : Bytes
  deriving Repr

def headerLine (h : Bytes × Bytes) : Bytes := h.1 ++ 58 :: 32 :: h.2

def writeHeaders : List (Bytes × Bytes) → Bytes
  | [] => []
  | h :: hs => headerLine h ++ crlf ++ writeHeaders hs

def statusLine (m : WMsg) : Bytes := m.version ++ 32 :: (m.codeText ++ 32 :: m.reason)

def write (m : WMsg) : Bytes :=
  statusLine m ++ crlf ++ (writeHeaders m.headers ++
    ((if m.body = [] then [] else (strCL ++ 58 :: 32 :: m.lenText) ++ crlf) ++ (crlf ++ m.body)))

/-- what makes a header acceptable to the parser as written -/
structure GoodHeader (h : Bytes × Bytes) : Prop where
  nocolon : (58 : UInt8) ∉ h.1
  ascii : (h.1 ++ 32 :: h.2).all (· < 128) = true
  name : title (strip h.1) = h.1
  value : strip (32 :: h.2) = h.2
  notTE : h.1 ≠ strTE
  notCL : h.1 ≠ strCL
  nocrlf : noCRLF (headerLine h) = true

structure Good (m : WMsg) (code : Nat) : Prop where
  vsp : (32 : UInt8) ∉ m.version
  csp : (32 : UInt8) ∉ m.codeText
  ascii : (m.version ++ m.reason).all (· < 128) = true
  code : parseDec m.codeText = some code
  snocrlf : noCRLF (statusLine m) = true
  hdrs : ∀ h ∈ m.headers, GoodHeader h
  lascii : m.body ≠ [] → m.lenText.all (· < 128) = true
  lval : m.body ≠ [] → strip (32 :: m.lenText) = m.lenText
  len : m.body ≠ [] → parseDec m.lenText = some m.body.length
  lnocrlf : m.body ≠ [] → noCRLF (strCL ++ 58 :: 32 :: m.lenText) = true

/-- the parser's view of a written message -/
def WMsg.parsedHeaders (m : WMsg) : List (Bytes × Bytes) :=
  m.headers ++ (if m.body = [] then [] else [(strCL, m.lenText)])

def WMsg.core (m : WMsg) (code : Nat) : Core :=
  { state := 2, version := m.version, code := code, headers := m.parsedHeaders,
    clen := if m.body = [] then none else some m.body.length, body := m.body }

/-- what the application is handed for a written message -/
def WMsg.msg (m : WMsg) (code : Nat) : Msg :=
  ⟨m.version.takeWhile (· ≠ 47), code, m.parsedHeaders, m.body⟩

/-- a stream of written messages -/
def writeAll : List (WMsg × Nat) → Bytes
  | [] => []
  | (m, _) :: ms => write m ++ writeAll ms

end HapVerif.Http
