import HapVerif.Bytes

/-! # TLV8 as the HAP specification describes it (written from the document, not from the library)

* an item is `type, length, value` with `length ≤ 255`;
* a value longer than 255 bytes is carried by consecutive items of the same type, every one but
  the last holding exactly 255 bytes ("maximal fragments"), the last one non-empty;
* a zero-length value is the single item `type 00`;
* a reader joins consecutive items of equal type. -/

namespace HapVerif.Spec.Tlv8

/-- `Frags t v out`: `out` is the canonical wire form of value `v` under type `t`. -/
inductive Frags (t : UInt8) : Bytes → Bytes → Prop
  | last (v : Bytes) : v.length ≤ 255 → Frags t v (t :: UInt8.ofNat v.length :: v)
  | more (c rest out : Bytes) : c.length = 255 → rest ≠ [] → Frags t rest out →
      Frags t (c ++ rest) (t :: 255 :: (c ++ out))

/-- canonical wire form of an item list: the concatenation of the canonical forms of its items -/
inductive Canonical : List (UInt8 × Bytes) → Bytes → Prop
  | nil : Canonical [] []
  | cons (t v o rest os) : Frags t v o → Canonical rest os → Canonical ((t, v) :: rest) (o ++ os)

/-- a raw sequence of wire items (each value at most 255 bytes), as they appear on the wire -/
def rawEncode (raw : List (UInt8 × Bytes)) : Bytes :=
  raw.flatMap fun (t, v) => t :: UInt8.ofNat v.length :: v

/-- what a conformant reader returns for a raw item sequence: equal-typed neighbours joined -/
def merge : List (UInt8 × Bytes) → List (UInt8 × Bytes)
  | [] => []
  | (t, v) :: rest =>
    match merge rest with
    | (t', v') :: m => if t = t' then (t, v ++ v') :: m else (t, v) :: (t', v') :: m
    | [] => [(t, v)]

end HapVerif.Spec.Tlv8
