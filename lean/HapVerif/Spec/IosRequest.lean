import HapVerif.Bytes

/-! # The request form iOS sends (README "HTTP"; HAP §6): request line, `Host`, then - only when
there is a body - `Content-Length` and `Content-Type` in that order, CRLF line ends, blank line,
body.  Nothing else. -/

namespace HapVerif.Spec.IosRequest
open HapVerif

def crlf : Bytes := [13, 10]

def requestLine (method target : Bytes) : Bytes := method ++ str " " ++ target ++ str " HTTP/1.1"

def host (h : Bytes) : Bytes := if h.contains 58 then str "Host: [" ++ h ++ str "]" else str "Host: " ++ h

def bodyless (method target h : Bytes) : Bytes :=
  requestLine method target ++ crlf ++ host h ++ crlf ++ crlf

def withBody (method target h ctype : Bytes) (body : Bytes) : Bytes :=
  requestLine method target ++ crlf ++ host h ++ crlf ++
    str "Content-Length: " ++ str (toString body.length) ++ crlf ++
    str "Content-Type: " ++ ctype ++ crlf ++ crlf ++ body

end HapVerif.Spec.IosRequest
