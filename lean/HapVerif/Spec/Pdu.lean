import HapVerif.Bytes

/-! # HAP PDU format, accessory side (HAP-BLE §7.3.3/7.3.4; HAP over CoAP batch layout)

Written from the specification: what a conformant accessory does with the controller's request
fragments, and how it emits a response. -/

namespace HapVerif.Spec.Pdu

def le16b (n : Nat) : Bytes := [UInt8.ofNat (n % 256), UInt8.ofNat (n / 256 % 256)]

/-- accessory joining the continuation fragments of a request: control byte 0x80, same tid -/
def joinConts (tid : UInt8) : List Bytes → Option Bytes
  | [] => some []
  | (c :: t :: body) :: rest => if c = 0x80 ∧ t = tid then (joinConts tid rest).map (body ++ ·) else none
  | _ => none

/-- accessory emitting a response with `status` and `body`, cut as it likes: a first fragment
    carrying `p0` and continuation fragments carrying `ps` (control byte `cc` has bit 7 set). -/
def respond (control : UInt8) (cc : UInt8) (tid : UInt8) (status : UInt8) (bodyLen : Nat) (p0 : Bytes) (ps : List Bytes) : List Bytes :=
  ([control, tid, status] ++ le16b bodyLen ++ p0) :: ps.map (fun p => cc :: tid :: p)

/-! ### CoAP batch responses -/

/-- what the accessory does for the i-th item of a batch -/
inductive Outcome
  | ok (body : Bytes)                       -- control 0x02, right tid, status 0
  | errStatus (s : UInt8) (body : Bytes)    -- status 1..6
  | wrongTid (t : UInt8) (body : Bytes)     -- a tid other than the item's
  | badControl (c : UInt8) (body : Bytes)   -- control bits 1..3 not `001`

def Outcome.bytes (i : Nat) : Outcome → Bytes
  | .ok b => [0x02, UInt8.ofNat i, 0] ++ le16b b.length ++ b
  | .errStatus s b => [0x02, UInt8.ofNat i, s] ++ le16b b.length ++ b
  | .wrongTid t b => [0x02, t, 0] ++ le16b b.length ++ b
  | .badControl c b => [c, UInt8.ofNat i, 0] ++ le16b b.length ++ b

/-- side conditions that make an outcome what its name says -/
def Outcome.WF (i : Nat) : Outcome → Prop
  | .ok b => b.length < 65536
  | .errStatus s b => 0 < s.toNat ∧ s.toNat < 7 ∧ b.length < 65536
  | .wrongTid t b => t.toNat ≠ i ∧ b.length < 65536
  | .badControl c b => c.toNat &&& 0x0E ≠ 0x02 ∧ b.length < 65536

def Outcome.body : Outcome → Bytes
  | .ok b => b | .errStatus _ b => b | .wrongTid _ b => b | .badControl _ b => b

/-- the batch response starting at transaction id `k` -/
def respondAll : Nat → List Outcome → Bytes
  | _, [] => []
  | k, o :: os => o.bytes k ++ respondAll (k + 1) os

end HapVerif.Spec.Pdu
