import HapVerif.Model.Crypto.Abstract
import HapVerif.Model.Tlv

/-! # HAP §5.7 pair-verify, accessory side (written from the specification)

M2: the accessory generates a Curve25519 key pair, computes the shared secret, signs
`AccessoryInfo = accPK ‖ AccessoryPairingID ‖ iOSPK` with its long-term key, and sends
State=2, PublicKey, EncryptedData = AEAD(key = HKDF(shared, "Pair-Verify-Encrypt-Salt",
"Pair-Verify-Encrypt-Info"), nonce "PV-Msg02", TLV{Identifier, Signature}).
M3 check: decrypt with nonce "PV-Msg03", look up the controller's LTPK by its identifier, verify
the signature over `iOSPK ‖ iOSPairingID ‖ accPK`.  Keys: accessory→controller
"Control-Read-Encryption-Key", controller→accessory "Control-Write-Encryption-Key" (salt
"Control-Salt"). -/

namespace HapVerif.Spec.VerifyAccessory
open HapVerif HapVerif.Tlv

structure Acc where
  id : Bytes
  ltsk : Bytes
  iosId : Bytes       -- the paired controller
  iosLTPK : Bytes

def noncePad : Bytes := [0, 0, 0, 0]

def vkey (C : Crypto) (accSk iosPk : Bytes) : Bytes :=
  C.hkdf (C.dh accSk iosPk) (str "Pair-Verify-Encrypt-Salt") (str "Pair-Verify-Encrypt-Info") 32

def m2 (C : Crypto) (A : Acc) (accSk iosPk : Bytes) : Items :=
  let accPk := C.dhPub accSk
  let sig := C.edSign A.ltsk (accPk ++ A.id ++ iosPk)
  let sub := encodeList [(1, A.id), (10, sig)]
  [(6, [2]), (3, accPk), (5, C.aeadSeal (vkey C accSk iosPk) (noncePad ++ str "PV-Msg02") [] sub)]

def acceptsM3 (C : Crypto) (A : Acc) (accSk iosPk : Bytes) (m3 : Items) : Bool :=
  match lookup 6 m3, lookup 5 m3 with
  | some st, some enc =>
    st = [3] &&
    match C.aeadOpen (vkey C accSk iosPk) (noncePad ++ str "PV-Msg03") [] enc with
    | none => false
    | some plain =>
      match decode none plain with
      | .error _ => false
      | .ok d =>
        match lookup 1 d, lookup 10 d with
        | some ident, some sig =>
          ident = A.iosId && C.edVerify A.iosLTPK (iosPk ++ ident ++ C.dhPub accSk) sig
        | _, _ => false
  | _, _ => false

/-- (key the accessory writes with, key it reads with, event key) -/
def keys (C : Crypto) (accSk iosPk : Bytes) : Bytes × Bytes × Bytes :=
  let shared := C.dh accSk iosPk
  (C.hkdf shared (str "Control-Salt") (str "Control-Read-Encryption-Key") 32,
   C.hkdf shared (str "Control-Salt") (str "Control-Write-Encryption-Key") 32,
   C.hkdf shared (str "Event-Salt") (str "Event-Read-Encryption-Key") 32)

end HapVerif.Spec.VerifyAccessory
