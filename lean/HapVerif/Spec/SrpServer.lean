import HapVerif.Bytes

/-! # SRP-6a accessory side (RFC 5054 §2.5-2.6 with the HAP rules: 3072-bit group, SHA-512,
`PAD` to the length of N, `K = H(PAD(S))`)

Written from the RFC: `PAD(n)` is `I2OSP(n, |N|)`, i.e. the fixed-width big-endian form. -/

namespace HapVerif.Spec.SrpServer
open HapVerif

/-- RFC 5054 Appendix A, 3072-bit group -/
def N3072 : Nat := 0xFFFFFFFFFFFFFFFFC90FDAA22168C234C4C6628B80DC1CD129024E088A67CC74020BBEA63B139B22514A08798E3404DDEF9519B3CD3A431B302B0A6DF25F14374FE1356D6D51C245E485B576625E7EC6F44C42E9A637ED6B0BFF5CB6F406B7EDEE386BFB5A899FA5AE9F24117C4B1FE649286651ECE45B3DC2007CB8A163BF0598DA48361C55D39A69163FA8FD24CF5F83655D23DCA3AD961C62F356208552BB9ED529077096966D670C354E4ABC9804F1746C08CA18217C32905E462E36CE3BE39E772C180E86039B2783A2EC07A28FB5C55DF06F4C52C9DE2BCBF6955817183995497CEA956AE515D2261898FA051015728E5A8AAAC42DAD33170D04507A33A85521ABDF1CBA64ECFB850458DBEF0A8AEA71575D060C7DB3970F85A6E1E4C7ABF5AE8CDB0933D71E8C94E04A25619DCEE3D2261AD2EE6BF12FFA06D98A0864D87602733EC86A64521F2B18177B200CBBE117577A615D6C770988C0BAD946E208E24FA074E5AB3143DB5BFCE0FD108E4B82D120A93AD2CAFFFFFFFFFFFFFFFF

/-- I2OSP(n, len) -/
def PAD (len n : Nat) : Bytes := natToBe len n

def os2ip (b : Bytes) : Nat := beToNat b

structure Server where
  B : Nat
  Bb : Bytes       -- PAD(B), what goes on the wire
  S : Nat
  K : Bytes
  M1 : Bytes       -- the client proof it expects
  M2 : Bytes       -- its own proof

/-- one exchange: verifier from (I, P, salt), private key `b`, the client's public value `A_b` -/
def server (H : Bytes → Bytes) (N g k len : Nat) (hGroup : Bytes) (I P salt : Bytes) (b : Nat) (A_b : Bytes) : Server :=
  let x := os2ip (H (salt ++ H (I ++ [58] ++ P)))
  let v := g ^ x % N
  let B := (k * v + g ^ b % N) % N
  let A := os2ip A_b
  let u := os2ip (H (A_b ++ PAD len B))
  let S := (A * (v ^ u % N)) ^ b % N
  let K := H (PAD len S)
  let M1 := H (hGroup ++ H I ++ salt ++ A_b ++ PAD len B ++ K)
  ⟨B, PAD len B, S, K, M1, H (A_b ++ M1 ++ K)⟩

end HapVerif.Spec.SrpServer
