import HapVerif.Bytes
import HapVerif.Gen.Tlv
import HapVerif.Model.Tlv
import HapVerif.Spec.Tlv8
import HapVerif.Proofs.Tlv
import HapVerif.Props.C15
import HapVerif.Drv.Tlv
