import HapVerif.Drv.Tlv
import HapVerif.Drv.Crypto
import HapVerif.Drv.SecureFrame
import HapVerif.Drv.Pdu
import HapVerif.Drv.Http
import HapVerif.Drv.Tlv8Struct
import HapVerif.Drv.Protocol
import HapVerif.Drv.CharList
import HapVerif.Drv.Convert
import HapVerif.Drv.Request
import HapVerif.Drv.Srp
import HapVerif.Drv.PairVerify
import HapVerif.Drv.PairSetup
import HapVerif.Drv.Counters
import HapVerif.Drv.Broadcast
import HapVerif.Drv.Store
import HapVerif.Drv.Waiters
import HapVerif.Drv.Reconnect
import HapVerif.Drv.ReqConn
import HapVerif.Drv.Subs
import HapVerif.Drv.EntityMap
import HapVerif.Drv.BleSession
import HapVerif.Drv.BleMeta
import HapVerif.Drv.CoapEvent
import HapVerif.Drv.BleReassembly

/-! Line protocol: one operation per stdin line -> one canonical line on stdout. -/

def handlers : List (List String → Option String) :=
  [HapVerif.Drv.Tlv.handle, HapVerif.Drv.Crypto.handle, HapVerif.Drv.SecureFrame.handle, HapVerif.Drv.Pdu.handle, HapVerif.Drv.Http.handle, HapVerif.Drv.Tlv8Struct.handle, HapVerif.Drv.Protocol.handle, HapVerif.Drv.CharList.handle, HapVerif.Drv.Convert.handle, HapVerif.Drv.Request.handle, HapVerif.Drv.Srp.handle, HapVerif.Drv.PairVerify.handle, HapVerif.Drv.PairSetup.handle, HapVerif.Drv.Counters.handle, HapVerif.Drv.Broadcast.handle, HapVerif.Drv.Store.handle, HapVerif.Drv.Waiters.handle, HapVerif.Drv.Reconnect.handle, HapVerif.Drv.ReqConn.handle, HapVerif.Drv.Subs.handle, HapVerif.Drv.EntityMap.handle, HapVerif.Drv.BleSession.handle, HapVerif.Drv.BleMeta.handle, HapVerif.Drv.CoapEvent.handle, HapVerif.Drv.BleReassembly.handle]

def dispatch (toks : List String) : String :=
  match handlers.findSome? (fun h => h toks) with
  | some r => r
  | none => "bad-op"

partial def loop (hin : IO.FS.Stream) (hout : IO.FS.Stream) : IO Unit := do
  let line ← hin.getLine
  if line.isEmpty then return ()
  let toks := (line.trimAscii.toString.splitOn " ").filter (· ≠ "")
  hout.putStrLn (dispatch toks)
  loop hin hout

def main : IO Unit := do
  let hin ← IO.getStdin
  let hout ← IO.getStdout
  loop hin hout
  hout.flush
