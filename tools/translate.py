#!/usr/bin/env python3
"""Source -> Lean translator for everything declarative.

Reads the *current working tree* of /repo with `ast` (no import of the package) and rewrites
lean/HapVerif/Gen/*.lean plus gen.json (the same facts for the Python harness).  Shapes are matched
structurally, never by line number; a shape that cannot be found is a hard failure (exit 3) - the
translator never falls back to a cached value.  Files are only rewritten when their content changes.
"""
from __future__ import annotations

import ast
import json
import os
import sys

REPO = os.environ.get("VERIF_REPO", "/repo")
R = os.path.join(REPO, "aiohomekit")
HERE = os.path.dirname(os.path.abspath(__file__))
GEN = os.path.join(os.path.dirname(HERE), "lean", "HapVerif", "Gen")


class Shape(Exception):
    pass


def parse(p):
    with open(os.path.join(R, p)) as f:
        return ast.parse(f.read())


def func(tree, name, cls=None):
    scope = tree
    if cls is not None:
        for n in ast.walk(tree):
            if isinstance(n, ast.ClassDef) and n.name == cls:
                scope = n
                break
        else:
            raise Shape(f"class {cls} not found")
    for n in ast.walk(scope):
        if isinstance(n, (ast.FunctionDef, ast.AsyncFunctionDef)) and n.name == name:
            return n
    raise Shape(f"function {cls + '.' if cls else ''}{name} not found")


def bconst(n):
    if isinstance(n, ast.Constant) and isinstance(n.value, bytes):
        return n.value
    return None


def lean_str(s: str) -> str:
    return '"' + s.replace("\\", "\\\\").replace('"', '\\"').replace("\n", "\\n").replace("\r", "\\r") + '"'


def lean_list(xs, f=str):
    return "[" + ", ".join(f(x) for x in xs) + "]"


def tlvname(n):
    if not (isinstance(n, ast.Attribute) and getattr(n.value, "id", "") == "TLV"):
        raise Shape("expected TLV.<name>: " + ast.dump(n))
    return n.attr


# --------------------------------------------------------------------------- extraction

def extract():
    out = {}
    # --- TLV constants
    t = parse("protocol/tlv.py")
    tlvc = {}
    for cls in t.body:
        if isinstance(cls, ast.ClassDef) and cls.name == "TLV":
            for n in cls.body:
                if isinstance(n, ast.Assign) and isinstance(n.targets[0], ast.Name):
                    v = n.value
                    if isinstance(v, ast.Constant) and isinstance(v.value, int):
                        tlvc[n.targets[0].id] = v.value
                    elif isinstance(v, ast.Call) and getattr(v.func, "id", "") == "bytearray" and v.args and bconst(v.args[0]) is not None:
                        tlvc[n.targets[0].id] = list(bconst(v.args[0]))
    for need in ("kTLVType_State", "kTLVType_Error", "kTLVType_Separator", "kTLVType_FragmentData", "kTLVType_FragmentLast", "M1", "M6", "kTLVError_Busy"):
        if need not in tlvc:
            raise Shape(f"TLV.{need} not found")
    out["TLV"] = tlvc
    # --- BLE reassembly bound
    t = parse("controller/ble/client.py")
    mr = [n.value.value for n in t.body if isinstance(n, ast.Assign) and getattr(n.targets[0], "id", "") == "MAX_REASSEMBLY" and isinstance(n.value, ast.Constant)]
    if len(mr) != 1:
        raise Shape("MAX_REASSEMBLY")
    out["MAX_REASSEMBLY"] = mr[0]
    for extra in EXTRACTORS:
        try:
            extra(out)
        except Shape:
            raise
        except Exception as e:  # an AST shape we did not anticipate: fail closed
            raise Shape(f"{extra.__name__}: {type(e).__name__}: {e}")
    return out


EXTRACTORS = []


def extractor(f):
    EXTRACTORS.append(f)
    return f



@extractor
def entity_map(out):
    """the accessory-database plumbing the model Model/EntityMap.lean mirrors (C20): which keys the serialiser emits under
    which condition, which keys create_from_dict forwards, which attributes the constructor takes from keyword/table,
    the table of per-format default values, and the three guards of the second pass / set_value"""
    t = parse("model/characteristics/characteristic.py")
    f = func(t, "to_accessory_and_service_list", "Characteristic")
    ser = []

    def selfattr(n):
        if isinstance(n, ast.Attribute) and isinstance(n.value, ast.Name) and n.value.id == "self":
            return n.attr
        raise Shape("entity_map: expected self.<attr>: " + ast.dump(n))
    body = [n for n in f.body if not (isinstance(n, ast.Expr) and isinstance(n.value, ast.Constant))]
    first = body[0]
    if not (isinstance(first, ast.Assign) and isinstance(first.value, ast.Dict)):
        raise Shape("entity_map: serialiser does not start with a dict literal")
    for k, v in zip(first.value.keys, first.value.values):
        ser.append((k.value, "always", selfattr(v)))
    for n in body[1:-1]:
        if not (isinstance(n, ast.If) and not n.orelse and len(n.body) == 1 and isinstance(n.body[0], ast.Assign)):
            raise Shape("entity_map: unexpected statement in the serialiser: " + ast.dump(n)[:200])
        a = n.body[0]
        tgt = a.targets[0]
        if not (isinstance(tgt, ast.Subscript) and isinstance(tgt.slice, ast.Constant)):
            raise Shape("entity_map: unexpected assignment target in the serialiser")
        key, attr = tgt.slice.value, selfattr(a.value)
        c = n.test
        if isinstance(c, ast.Compare) and len(c.ops) == 1 and isinstance(c.ops[0], ast.In) and isinstance(c.left, ast.Attribute) and c.left.attr == "paired_read" and selfattr(c.comparators[0]) == "perms":
            kind = "readable"
        elif isinstance(c, ast.Compare) and len(c.ops) == 1 and isinstance(c.ops[0], ast.IsNot) and isinstance(c.comparators[0], ast.Constant) and c.comparators[0].value is None:
            kind = "notNone:" + selfattr(c.left)
        elif isinstance(c, ast.Attribute):
            kind = "truthy:" + selfattr(c)
        elif (isinstance(c, ast.BoolOp) and isinstance(c.op, ast.And) and len(c.values) == 2 and isinstance(c.values[1], ast.Compare) and isinstance(c.values[1].ops[0], ast.In)
              and selfattr(c.values[1].left) == "format" and isinstance(c.values[1].comparators[0], ast.List)):
            kind = "truthyAndFormatIn:" + selfattr(c.values[0]) + ":" + ",".join(e.attr for e in c.values[1].comparators[0].elts)
        else:
            raise Shape("entity_map: unexpected condition in the serialiser: " + ast.dump(c)[:200])
        ser.append((key, kind, attr))
    if not (isinstance(body[-1], ast.Return)):
        raise Shape("entity_map: serialiser does not end with return")
    # constructor: self.X = self._get_configuration(kwargs, "kw", default)
    init = func(t, "__init__", "Characteristic")
    ctor, consts = [], []
    for n in init.body:
        if isinstance(n, ast.Assign) and len(n.targets) == 1 and isinstance(n.targets[0], ast.Attribute) and getattr(n.targets[0].value, "id", "") == "self":
            v = n.value
            if isinstance(v, ast.Call) and isinstance(v.func, ast.Attribute) and v.func.attr == "_get_configuration":
                dflt = v.args[2]
                ctor.append((n.targets[0].attr, v.args[1].value, "None" if (isinstance(dflt, ast.Constant) and dflt.value is None) else "other"))
            elif isinstance(v, ast.Constant) and n.targets[0].attr in ("ev", "maxLen"):
                consts.append((n.targets[0].attr, repr(v.value)))
    # DEFAULT_FOR_TYPE
    dft = None
    for n in t.body:
        if isinstance(n, ast.Assign) and getattr(n.targets[0], "id", "") == "DEFAULT_FOR_TYPE":
            dft = [(k.attr, ast.unparse(v)) for k, v in zip(n.value.keys, n.value.values)]
    if dft is None:
        raise Shape("entity_map: DEFAULT_FOR_TYPE")
    # set_value: bool(...) only for the bool format
    sv = func(t, "set_value", "Characteristic")
    coerce = [ast.unparse(n.test) for n in ast.walk(sv) if isinstance(n, ast.If)]
    # create_from_dict
    m = parse("model/__init__.py")
    cfd = func(m, "create_from_dict", "Accessory")
    fwd, guards = [], []
    for n in ast.walk(cfd):
        if isinstance(n, ast.If):
            c = n.test
            if isinstance(c, ast.Compare) and isinstance(c.ops[0], ast.In) and isinstance(c.left, ast.Constant) and getattr(c.comparators[0], "id", "") == "char_data":
                a = n.body[0]
                if not (len(n.body) == 1 and isinstance(a, ast.Assign) and isinstance(a.targets[0], ast.Subscript) and a.targets[0].value.id == "kwargs"
                        and isinstance(a.value, ast.Subscript) and a.value.slice.value == c.left.value):
                    raise Shape("entity_map: unexpected forwarding in create_from_dict")
                fwd.append((c.left.value, a.targets[0].slice.value))
            else:
                guards.append(ast.unparse(c))
    kw0 = [ast.unparse(n.value) for n in ast.walk(cfd) if isinstance(n, ast.Assign) and getattr(n.targets[0], "id", "") == "kwargs"]
    svc = parse("model/services/service.py")
    sser = func(svc, "to_accessory_and_service_list", "Service")
    sguards = [ast.unparse(n.test) for n in ast.walk(sser) if isinstance(n, ast.If)]
    sinit = func(svc, "__init__", "Service")
    siid = [ast.unparse(n.value) for n in sinit.body if isinstance(n, ast.Assign) and isinstance(n.targets[0], ast.Attribute) and n.targets[0].attr == "iid"]
    out["EntityMap"] = {"ser": ser, "ctor": ctor, "consts": consts, "defaults": dft, "coerce": coerce, "forward": fwd, "kwargs0": kw0,
                        "loadGuards": guards, "serviceSerGuards": sguards, "serviceIid": siid}


@extractor
def ble_value_formats(out):
    """C14: the HAP-BLE characteristic signature route - per presentation-format code the `struct` format the library uses to
    unpack a value / a step (`_unpack_value`), to pack a value (`_pack_value`) and to unpack the valid range (`min_max_value`)"""
    t = parse("controller/ble/structs.py")
    tc = parse("controller/coap/structs.py")

    def chain(fname, call, tree=None, cls="Characteristic"):
        f = func(tree or t, fname, cls=cls)
        rows = []
        for st in f.body:
            if not (isinstance(st, ast.If) and isinstance(st.test, ast.Compare) and len(st.test.ops) == 1 and isinstance(st.test.ops[0], ast.Eq)
                    and ast.unparse(st.test.left) == "self.pf_format" and isinstance(st.test.comparators[0], ast.Constant)):
                continue
            code = st.test.comparators[0].value
            calls = [c for c in ast.walk(st) if isinstance(c, ast.Call) and ast.unparse(c.func) == "struct." + call]
            if st.orelse:
                raise Shape(f"{fname}: else branch at format {code}")
            if len(calls) > 1:
                raise Shape(f"{fname}: several struct calls at format {code}")
            if calls:
                if not (isinstance(calls[0].args[0], ast.Constant) and isinstance(calls[0].args[0].value, str)):
                    raise Shape(f"{fname}: struct format is not a literal at format {code}")
                # what is done with the unpacked tuple: `[0]` (a scalar), bool(...) of it, or the tuple itself
                how = "tuple"
                for n in ast.walk(st):
                    if isinstance(n, ast.Subscript) and n.value is calls[0]:
                        how = "first"
                if any(isinstance(n, ast.Call) and getattr(n.func, "id", "") == "bool" for n in ast.walk(st)):
                    how = "bool"
                rows.append((code, calls[0].args[0].value, how))
            else:
                rows.append((code, "", ast.unparse(st.body[-1])[:60]))
        if not rows:
            raise Shape(f"{fname}: no format rows")
        return rows
    out["BleMeta"] = {"unpack": chain("_unpack_value", "unpack"), "pack": chain("_pack_value", "pack"), "range": chain("min_max_value", "unpack"),
                      "coapUnpack": chain("_unpack_value", "unpack", tc, "Pdu09Characteristic"), "coapPack": chain("_pack_value", "pack", tc, "Pdu09Characteristic"),
                      "coapRange": chain("min_max_value", "unpack", tc, "Pdu09Characteristic")}


@extractor
def scalar_codecs(out):
    """C16: the per-type integer (de)serialisers of tlv8.py - which function the dispatch tables name for each integer type,
    and what that function's single return statement does (struct format / to_bytes length and order / from_bytes order)"""
    t = parse("tlv8.py")
    tables = {}
    for n in t.body:
        tgt = n.target if isinstance(n, ast.AnnAssign) else (n.targets[0] if isinstance(n, ast.Assign) else None)
        if isinstance(tgt, ast.Name) and tgt.id in ("SERIALIZERS", "DESERIALIZERS") and isinstance(n.value, ast.Dict):
            tables[tgt.id] = {ast.unparse(k): ast.unparse(v) for k, v in zip(n.value.keys, n.value.values)}
    if set(tables) != {"SERIALIZERS", "DESERIALIZERS"}:
        raise Shape("tlv8: dispatch tables")

    def single_return(fname):
        f = func(t, fname)
        body = [st for st in f.body if not (isinstance(st, ast.Expr) and isinstance(st.value, ast.Constant))]
        if len(body) != 1 or not isinstance(body[0], ast.Return):
            raise Shape(f"tlv8.{fname}: not a single return statement")
        return body[0].value
    rows = []
    for ty in ("u8", "u16", "bu16", "u32", "u64", "u128"):
        if ty not in tables["SERIALIZERS"] or ty not in tables["DESERIALIZERS"]:
            raise Shape(f"tlv8: no (de)serialiser registered for {ty}")
        e = single_return(tables["SERIALIZERS"][ty])
        if (isinstance(e, ast.Call) and ast.unparse(e.func) == "struct.pack" and len(e.args) == 2 and isinstance(e.args[0], ast.Constant)
                and ast.unparse(e.args[1]) == "value"):
            ser = ("struct", 0, e.args[0].value)
        elif (isinstance(e, ast.Call) and ast.unparse(e.func) == "value.to_bytes" and not e.args
              and {k.arg for k in e.keywords} == {"length", "byteorder"}):
            kw = {k.arg: k.value.value for k in e.keywords}
            ser = ("to_bytes", kw["length"], kw["byteorder"])
        else:
            raise Shape(f"tlv8 serialiser of {ty}: {ast.unparse(e)[:60]}")
        d = single_return(tables["DESERIALIZERS"][ty])
        if not (isinstance(d, ast.Call) and ast.unparse(d.func) == "int.from_bytes" and len(d.args) == 2 and ast.unparse(d.args[0]) == "value"
                and isinstance(d.args[1], ast.Constant) and not d.keywords):
            raise Shape(f"tlv8 deserialiser of {ty}: {ast.unparse(d)[:60]}")
        rows.append((ty, ser[0], ser[1], ser[2], d.args[1].value))
    # the enum codec goes through u8
    es, ed = func(t, "serialize_int_enum"), func(t, "deserialize_int_enum")
    if "serialize_u8(" not in ast.unparse(es) or "deserialize_u8(" not in ast.unparse(ed):
        raise Shape("tlv8: the IntEnum codec no longer goes through u8")
    out["Scalars"] = rows


@extractor
def coap_event_loop(out):
    """C12 over CoAP: the record loop of EventResource.render_put - header format, header size used in the slices and in the
    advance, the stop condition"""
    t = parse("controller/coap/connection.py")
    f = func(t, "render_put", cls="EventResource")
    loops = [n for n in ast.walk(f) if isinstance(n, ast.While)]
    if len(loops) != 1 or ast.unparse(loops[0].test) != "True":
        raise Shape("render_put: one `while True` loop expected")
    w = loops[0]
    fmts = [c.args[0].value for c in ast.walk(w) if isinstance(c, ast.Call) and ast.unparse(c.func) == "struct.unpack" and isinstance(c.args[0], ast.Constant)]
    unpacked = [ast.unparse(c.args[1]) for c in ast.walk(w) if isinstance(c, ast.Call) and ast.unparse(c.func) == "struct.unpack"]
    bodies = [ast.unparse(n.value) for n in ast.walk(w) if isinstance(n, ast.Assign) and getattr(n.targets[0], "id", "") == "body"]
    adv = [ast.unparse(n.value) for n in ast.walk(w) if isinstance(n, ast.AugAssign) and getattr(n.target, "id", "") == "offset" and isinstance(n.op, ast.Add)]
    stops = [ast.unparse(n.test) for n in w.body if isinstance(n, ast.If) and any(isinstance(b, ast.Break) for b in n.body)]
    inits = [ast.unparse(n.value) for n in f.body if isinstance(n, ast.Assign) and getattr(n.targets[0], "id", "") == "offset"]
    if not (len(fmts) == 1 and len(unpacked) == 1 and len(bodies) == 1 and len(adv) == 1 and len(stops) == 1 and len(inits) == 1):
        raise Shape("render_put: loop pieces")
    # the last statement of the loop body is the stop test: every record is handed over BEFORE the loop can stop
    if not (isinstance(w.body[-1], ast.If) and any(isinstance(b, ast.Break) for b in w.body[-1].body)):
        raise Shape("render_put: the stop test is not the last statement of the loop")
    out["CoapEvent"] = {"fmt": fmts[0], "unpacked": unpacked[0], "body": bodies[0], "advance": adv[0], "stop": stops[0], "init": inits[0]}


@extractor
def ble_reassembly(out):
    """C04 over BLE: the reply loop of _pairing_char_write - the order of the tests, what each branch does, the bound"""
    t = parse("controller/ble/client.py")
    f = func(t, "_pairing_char_write")
    mx = [n.value.value for n in t.body if isinstance(n, ast.Assign) and getattr(n.targets[0], "id", "") == "MAX_REASSEMBLY" and isinstance(n.value, ast.Constant)]
    loops = [n for n in f.body if isinstance(n, ast.For)]
    if len(mx) != 1 or len(loops) != 1 or ast.unparse(loops[0].iter) != "range(MAX_REASSEMBLY)":
        raise Shape("_pairing_char_write: loop / MAX_REASSEMBLY")
    ifs = [n for n in loops[0].body if isinstance(n, ast.If)]
    if len(ifs) != 2:
        raise Shape("_pairing_char_write: two tests expected in the loop body")
    first, second = ifs

    def does(body):
        acts = []
        for st in body:
            if isinstance(st, ast.Expr) and isinstance(st.value, ast.Call) and ast.unparse(st.value.func) == "buffer.extend":
                acts.append("extend:" + ast.unparse(st.value.args[0]))
            elif isinstance(st, ast.Return):
                acts.append("return:" + ast.unparse(st.value))
            elif isinstance(st, ast.Assign) and getattr(st.targets[0], "id", "") == "next_write":
                acts.append("ack")
            elif isinstance(st, ast.Expr) and isinstance(st.value, ast.Call) and "logger" in ast.unparse(st.value.func):
                continue
            else:
                raise Shape("_pairing_char_write: statement " + ast.unparse(st)[:60])
        return acts
    after = [st for st in f.body[f.body.index(loops[0]) + 1:]]
    if not (len(after) == 1 and isinstance(after[0], ast.Raise)):
        raise Shape("_pairing_char_write: what follows the loop")
    inits = [ast.unparse(n.value) for n in f.body if isinstance(n, ast.Assign) and getattr(n.targets[0], "id", "") == "buffer"]
    out["BleReassembly"] = {"max": mx[0], "test1": ast.unparse(first.test), "do1": does(first.body), "else1": does(first.orelse),
                            "test2": ast.unparse(second.test), "do2": does(second.body), "else2": does(second.orelse), "bufferInit": inits,
                            "afterLoop": type(after[0].exc.func).__name__ and ast.unparse(after[0].exc.func)}


@extractor
def misc_numbers(out):
    """numeric literals and names at anchored AST shapes for C06 (CoAP resynchronisation window), C07 (framing header names),
    C14 (decimal context), C18 (state-number candidates), C19 (BLE advertisement layout)"""
    d = {}
    # ---- C14
    t = parse("model/characteristics/characteristic.py")
    f = func(t, "check_convert_value")
    precs, rounds, guards = [], [], []
    for n in ast.walk(f):
        if isinstance(n, ast.If):
            for b in n.body:
                if isinstance(b, ast.Assign) and isinstance(b.targets[0], ast.Attribute) and b.targets[0].attr == "prec":
                    precs.append(b.value.value)
                    guards.append(ast.unparse(n.test))
        if isinstance(n, ast.Assign) and isinstance(n.targets[0], ast.Attribute) and n.targets[0].attr == "rounding":
            rounds.append(ast.unparse(n.value))
    ints = None
    for n in t.body:
        if isinstance(n, ast.Assign) and getattr(n.targets[0], "id", "") == "INTEGER_TYPES":
            ints = [e.attr for e in n.value.elts]
    finals = [ast.unparse(n.value) for n in ast.walk(f) if isinstance(n, ast.Assign) and getattr(n.targets[0], "id", "") == "val" and isinstance(n.value, ast.Call)
              and getattr(n.value.func, "id", "") in ("int", "float")]
    if len(precs) != 1 or len(rounds) != 1 or ints is None:
        raise Shape("misc_numbers: decimal context of check_convert_value")
    d["convert"] = {"prec": precs[0], "precGuard": guards[0], "rounding": rounds[0], "integerTypes": ints, "finals": finals}
    # ---- C18
    t = parse("controller/ble/pairing.py")
    mg = [n.value.value for n in t.body if isinstance(n, ast.Assign) and getattr(n.targets[0], "id", "") == "MAX_GSN"]
    cand = None
    for n in ast.walk(t):
        if isinstance(n, ast.For) and isinstance(n.target, ast.Name) and n.target.id == "state_num" and isinstance(n.iter, ast.Tuple):
            items = []
            for e in n.iter.elts:
                if isinstance(e, ast.Starred) and isinstance(e.value, ast.Call) and getattr(e.value.func, "id", "") == "range":
                    a, b = e.value.args
                    items.append(("range", a.right.value if isinstance(a, ast.BinOp) else 0, b.right.value if isinstance(b, ast.BinOp) else 0))
                elif isinstance(e, ast.BinOp) and isinstance(e.op, ast.Add):
                    items.append(("at", e.right.value, 0))
                elif isinstance(e, ast.Name):
                    items.append(("at", 0, 0))
                else:
                    raise Shape("misc_numbers: state-number candidates")
            cand = items
    if len(mg) != 1 or cand is None:
        raise Shape("misc_numbers: MAX_GSN / candidates")
    d["broadcast"] = {"maxGsn": mg[0], "candidates": cand}
    # ---- C19
    t = parse("controller/ble/manufacturer_data.py")
    f = func(t, "from_manufacturer_data", "HomeKitAdvertisement")
    cmps = []
    for n in ast.walk(f):
        if isinstance(n, ast.Compare) and isinstance(n.left, ast.Call) and getattr(n.left.func, "id", "") == "len" and isinstance(n.comparators[0], ast.Constant):
            cmps.append((type(n.ops[0]).__name__, n.comparators[0].value))
    slices = []
    for n in ast.walk(f):
        if isinstance(n, ast.Subscript) and getattr(n.value, "id", "") == "data":
            sl = n.slice
            if isinstance(sl, ast.Slice):
                slices.append((sl.lower.value if sl.lower else 0, sl.upper.value if sl.upper else -1))
            elif isinstance(sl, ast.Constant):
                slices.append((sl.value, sl.value + 1))
    unp = [n.func.id for n in ast.walk(f) if isinstance(n, ast.Call) and isinstance(n.func, ast.Name) and n.func.id.startswith("UNPACK")]
    fmt = None
    for n in t.body:
        if isinstance(n, ast.Assign) and getattr(n.targets[0], "id", "") in unp:
            fmt = [a.value for a in ast.walk(n.value) if isinstance(a, ast.Constant) and isinstance(a.value, str)]
    d["bleAdv"] = {"lenChecks": sorted(cmps), "slices": sorted(set(slices)), "unpack": fmt[0] if fmt else "?"}
    # ---- C06 CoAP resynchronisation window
    t = parse("controller/coap/connection.py")
    f = func(t, "_decrypt_response", "EncryptionContext")
    mins = [n.args[0].value for n in ast.walk(f) if isinstance(n, ast.Call) and getattr(n.func, "id", "") == "min" and isinstance(n.args[0], ast.Constant)]
    ranges = [n.iter.args[0].value for n in ast.walk(f) if isinstance(n, ast.For) and isinstance(n.iter, ast.Call) and getattr(n.iter.func, "id", "") == "range" and isinstance(n.iter.args[0], ast.Constant)]
    if len(mins) != 1 or len(ranges) != 1:
        raise Shape("misc_numbers: CoAP resynchronisation window")
    d["coapResync"] = {"rewind": mins[0], "forward": ranges[0]}
    # ---- C07 framing header names as the parser compares them
    t = parse("http/response.py")
    f = func(t, "parse", "HttpResponse")
    names = []
    for n in ast.walk(f):
        if isinstance(n, ast.Compare) and isinstance(n.left, ast.Name) and n.left.id in ("name", "value") and isinstance(n.comparators[0], ast.Constant) and isinstance(n.comparators[0].value, str):
            names.append((n.left.id, n.comparators[0].value))
    seps = sorted({a.value.decode("latin1") for a in ast.walk(f) if isinstance(a, ast.Constant) and isinstance(a.value, bytes)})
    d["http"] = {"compared": names, "byteLiterals": seps}
    out["Misc"] = d


def fstr_template(n):
    """an f-string as a template: literal pieces and {expr} holes"""
    if isinstance(n, ast.Constant) and isinstance(n.value, str):
        return n.value
    if not isinstance(n, ast.JoinedStr):
        raise Shape("expected an f-string: " + ast.dump(n)[:120])
    out = ""
    for v in n.values:
        out += v.value if isinstance(v, ast.Constant) else "{" + ast.unparse(v.value) + "}"
    return out


@extractor
def request_shapes(out):
    """C09: how HomeKitConnection.request / get / put / post and _connect_once assemble a request"""
    t = parse("controller/ip/connection.py")
    d = {}
    req = func(t, "request", "HomeKitConnection")
    buf0 = None
    appends = []
    join = None
    for n in sorted((x for x in ast.walk(req) if hasattr(x, "lineno")), key=lambda x: (x.lineno, x.col_offset)):
        if isinstance(n, ast.Assign) and getattr(n.targets[0], "id", "") == "buffer" and isinstance(n.value, ast.List):
            buf0 = [fstr_template(e) if isinstance(e, (ast.JoinedStr, ast.Constant)) else "{" + ast.unparse(e) + "}" for e in n.value.elts]
        if isinstance(n, ast.Call) and isinstance(n.func, ast.Attribute) and n.func.attr == "append" and getattr(n.func.value, "id", "") == "buffer":
            appends.append(fstr_template(n.args[0]))
        if isinstance(n, ast.Call) and isinstance(n.func, ast.Attribute) and n.func.attr == "join" and isinstance(n.func.value, ast.Constant):
            join = n.func.value.value
    bodyif = [ast.unparse(n.test) for n in ast.walk(req) if isinstance(n, ast.If) and any(isinstance(b, ast.AugAssign) for b in n.body)]
    sends = [ast.unparse(n) for n in ast.walk(req) if isinstance(n, ast.Call) and isinstance(n.func, ast.Attribute) and n.func.attr in ("send_bytes", "send_lines", "write", "writelines")]
    if buf0 is None or join is None:
        raise Shape("request_shapes: request()")
    d["buffer0"], d["appends"], d["join"], d["bodyGuard"], d["sends"] = buf0, appends, join, bodyif, sends
    helpers = {}
    for name in ("get", "put", "post"):
        f = func(t, name, "HomeKitConnection")
        call = [n for n in ast.walk(f) if isinstance(n, ast.Call) and isinstance(n.func, ast.Attribute) and n.func.attr == "request"]
        if len(call) != 1:
            raise Shape("request_shapes: " + name)
        kw = {k.arg: k.value for k in call[0].keywords}
        hdrs = []
        if "headers" in kw:
            for e in kw["headers"].elts:
                hdrs.append((e.elts[0].value, ast.unparse(e.elts[1])))
        dflt = [ast.unparse(x) for x in f.args.defaults]
        helpers[name] = {"method": kw["method"].value, "headers": hdrs, "defaults": dflt}
    d["helpers"] = helpers
    co = func(t, "_connect_once", "HomeKitConnection")
    hosts = []
    for n in ast.walk(co):
        if isinstance(n, ast.If):
            for br in (n.body, n.orelse):
                for b in br:
                    if isinstance(b, ast.Assign) and isinstance(b.targets[0], ast.Attribute) and b.targets[0].attr == "host_header":
                        hosts.append((ast.unparse(n.test) if br is n.body else "else", fstr_template(b.value)))
    d["hostHeader"] = hosts
    h = parse("http/__init__.py")
    cts = {}
    for n in ast.walk(h):
        if isinstance(n, ast.ClassDef) and n.name == "HttpContentTypes":
            for b in n.body:
                if isinstance(b, ast.Assign) and isinstance(b.value, ast.Constant):
                    cts[b.targets[0].id] = b.value.value
    d["contentTypes"] = cts
    out["Request"] = d


@extractor
def ip_numbers(out):
    t = parse("controller/ip/connection.py")
    d = {}
    for n in t.body:
        if isinstance(n, ast.Assign) and isinstance(n.targets[0], ast.Name):
            name = n.targets[0].id
            if name == "TAG_LENGTH" and isinstance(n.value, ast.Constant):
                d["TAG_LENGTH"] = n.value.value
            if name == "UNSIGNED_SHORT_LITTLE" and isinstance(n.value, ast.Call) and getattr(n.value.func, "id", "") == "Struct":
                d["lenFormat"] = n.value.args[0].value.lstrip("<")
                if not n.value.args[0].value.startswith("<"):
                    d["lenFormat"] = "BIGENDIAN:" + n.value.args[0].value
    sb = func(t, "send_bytes", "SecureHomeKitProtocol")
    chunk = sorted({n.slice.upper.value for n in ast.walk(sb) if isinstance(n, ast.Subscript) and isinstance(n.slice, ast.Slice) and isinstance(n.slice.upper, ast.Constant)}
                   | {n.slice.lower.value for n in ast.walk(sb) if isinstance(n, ast.Subscript) and isinstance(n.slice, ast.Slice) and isinstance(n.slice.lower, ast.Constant)})
    if len(chunk) != 1:
        raise Shape(f"SecureHomeKitProtocol.send_bytes chunk slices: {chunk}")
    d["secureChunk"] = chunk[0]
    sl = func(t, "_send_lines", "InsecureHomeKitProtocol")
    tmo = [n for n in ast.walk(sl) if isinstance(n, ast.Call) and getattr(n.func, "attr", "") == "call_at"]
    if len(tmo) != 1 or not (isinstance(tmo[0].args[0], ast.BinOp) and isinstance(tmo[0].args[0].right, ast.Constant)):
        raise Shape("_send_lines call_at timeout")
    d["requestTimeout"] = tmo[0].args[0].right.value
    t2 = parse("crypto/chacha20poly1305.py")
    for n in t2.body:
        if isinstance(n, ast.Assign) and getattr(n.targets[0], "id", "") == "PACK_NONCE":
            v = n.value  # partial(Struct("<LQ").pack, 0)
            try:
                d["nonceFormat"] = v.args[0].value.args[0].value
                d["noncePrefix"] = v.args[1].value
            except Exception:
                raise Shape("PACK_NONCE")
        if isinstance(n, ast.Assign) and getattr(n.targets[0], "id", "") == "NONCE_PADDING":
            d["NONCE_PADDING"] = ast.literal_eval(n.value.args[0]) if isinstance(n.value, ast.Call) else None
    for need in ("TAG_LENGTH", "lenFormat", "secureChunk", "nonceFormat", "noncePrefix", "NONCE_PADDING"):
        if need not in d or d[need] is None:
            raise Shape("ip/" + need)
    out["Ip"] = d



def enum_values(tree, clsname):
    for n in tree.body:
        if isinstance(n, ast.ClassDef) and n.name == clsname:
            vals = []
            for a in n.body:
                if isinstance(a, ast.Assign) and isinstance(a.targets[0], ast.Name):
                    v = a.value
                    if isinstance(v, ast.Tuple):
                        v = v.elts[0]
                    if isinstance(v, ast.Constant) and isinstance(v.value, int):
                        vals.append(v.value)
            return vals
    raise Shape(f"enum {clsname}")


@extractor
def pdu_numbers(out):
    t = parse("pdu.py")
    d = {}
    # STRUCT_x = struct.Struct("fmt").pack  -> Assign(value=Attribute(value=Call(func=Attribute(attr=Struct))))
    fm = []
    for n in t.body:
        if isinstance(n, ast.Assign) and isinstance(n.value, ast.Attribute) and isinstance(n.value.value, ast.Call):
            c = n.value.value
            if getattr(c.func, "attr", getattr(c.func, "id", "")) == "Struct":
                fm.append(c.args[0].value)
    d["bleFormats"] = fm
    d["bleStatusValues"] = enum_values(t, "PDUStatus")
    enc = func(t, "encode_pdu")
    subs = [n.right.value for n in ast.walk(enc) if isinstance(n, ast.BinOp) and isinstance(n.op, ast.Sub) and getattr(n.left, "id", "") == "fragment_size" and isinstance(n.right, ast.Constant)]
    if len(subs) != 2:
        raise Shape("encode_pdu fragment_size - k")
    d["bleFirstOverhead"], d["bleContOverhead"] = subs
    flags = {n.value for f in ("encode_pdu", "decode_pdu_continuation") for n in ast.walk(func(t, f)) if isinstance(n, ast.Constant) and n.value == 0x80}
    cont = func(t, "decode_pdu_continuation")
    masks = [n.right.value for n in ast.walk(cont) if isinstance(n, ast.BinOp) and isinstance(n.op, ast.BitAnd) and isinstance(n.right, ast.Constant)]
    encflag = [n.args[0].value for n in ast.walk(enc) if isinstance(n, ast.Call) and getattr(n.func, "id", "") == "STRUCT_BB_PACK" and isinstance(n.args[0], ast.Constant)]
    if len(masks) != 1 or len(encflag) != 1 or masks[0] != encflag[0]:
        raise Shape("continuation flag")
    d["contFlag"] = masks[0]
    t2 = parse("controller/coap/pdu.py")
    d["coapStatusValues"] = enum_values(t2, "PDUStatus")
    fm = []
    for n in ast.walk(t2):
        if isinstance(n, ast.Call) and getattr(n.func, "attr", "") in ("pack", "unpack") and getattr(n.func.value, "id", "") == "struct":
            fm.append(n.args[0].value)
    d["coapFormats"] = fm
    dec = func(t2, "decode_pdu")
    cmp = [n for n in ast.walk(dec) if isinstance(n, ast.Compare) and isinstance(n.left, ast.BinOp) and isinstance(n.left.op, ast.BitAnd)]
    if len(cmp) != 1 or not isinstance(cmp[0].ops[0], ast.NotEq):
        raise Shape("coap control check")
    d["coapControlMask"] = cmp[0].left.right.value
    d["coapControlValue"] = cmp[0].comparators[0].value
    out["Pdu"] = d



def schema_reflect():
    """reflection over every TLVStruct subclass of the package (needs the package importable: run under /venv/bin/python)"""
    import dataclasses
    import enum
    import importlib
    import pkgutil
    import typing
    from collections import abc
    if REPO not in sys.path:
        sys.path.insert(0, REPO)
    try:
        import bleak  # noqa: F401  (BLE support is decided at import time)
    except Exception:
        pass
    import aiohomekit
    from aiohomekit import tlv8 as T
    for m in pkgutil.walk_packages(aiohomekit.__path__, "aiohomekit."):
        if m.name.endswith("__main__") or ".testing" in m.name or "pytest_plugin" in m.name:
            continue
        try:
            importlib.import_module(m.name)
        except Exception:
            pass
    sizes = {T.u8: 1, T.u16: 2, T.u32: 4, T.u64: 8, T.u128: 16}
    classes = []
    seen = set()

    def walk(c):
        for sub in c.__subclasses__():
            if sub not in seen:
                seen.add(sub)
                if dataclasses.is_dataclass(sub) and sub.__module__.startswith("aiohomekit"):
                    classes.append(sub)
                walk(sub)
    walk(T.TLVStruct)
    classes.sort(key=lambda c: (c.__module__, c.__qualname__))

    def fty(tp):
        if typing.get_origin(tp) is abc.Sequence:
            inner = tp.__args__[0]
            if isinstance(inner, type) and issubclass(inner, T.TLVStruct):
                return ["seq", sch(inner)]
            if inner is T.u16:
                return ["sequ16"]
            raise Shape(f"unsupported sequence element {inner}")
        if tp in sizes:
            return ["u", sizes[tp]]
        if tp is T.bu16:
            return ["bu16"]
        if tp is str:
            return ["str"]
        if tp is bytes:
            return ["bytes"]
        if isinstance(tp, type) and issubclass(tp, enum.IntEnum):
            return ["enum", sorted(int(m) for m in tp)]
        if isinstance(tp, type) and issubclass(tp, T.TLVStruct):
            return ["struct", sch(tp)]
        raise Shape(f"unsupported field type {tp}")

    def resolve(cls):
        try:
            return typing.get_type_hints(cls)
        except Exception:
            return {}

    def sch(cls):
        hints = resolve(cls)
        out = []
        for f in dataclasses.fields(cls):
            if not f.init:
                continue
            tp = hints.get(f.name, f.type)
            if tp is float:
                continue  # no (de)serialiser exists for float fields; never set by the library
            out.append([f.name, int(f.metadata["tlv_type"]), fty(tp)])
        return out

    return [[c.__module__ + "." + c.__qualname__, sch(c)] for c in classes]


@extractor
def schemas(out):
    out["Schemas"] = schema_reflect()



@extractor
def protocol_tables(out):
    t = parse("protocol/__init__.py")
    tl = out["TLV"]
    f = func(t, "error_handler")
    table = []
    default = None
    for st in f.body:
        if isinstance(st, ast.If):
            c = st.test
            if not (isinstance(c, ast.Compare) and isinstance(c.ops[0], ast.Eq) and getattr(c.left, "id", "") == "error" and not st.orelse):
                raise Shape("error_handler: unexpected test " + ast.unparse(c))
            r = st.body[0]
            if not (isinstance(r, ast.Raise) and len(st.body) == 1):
                raise Shape("error_handler: branch body")
            table.append([tl[tlvname(c.comparators[0])], r.exc.func.id])
        elif isinstance(st, ast.Raise):
            default = st.exc.func.id
        elif isinstance(st, ast.Expr):
            continue
        else:
            raise Shape("error_handler: statement " + ast.unparse(st)[:60])
    if default is None or not table:
        raise Shape("error_handler table")
    d = {"errorTable": table, "errorDefault": default}
    # handle_state_step: the sequence of checks, as source text (any edit shows up as a changed string)
    h = func(t, "handle_state_step")
    d["handleStateStepSrc"] = [ast.unparse(x) for x in h.body if not isinstance(x, ast.Expr)]
    exp = {}
    labels = {}
    nonces = {}
    for fn in ("perform_pair_setup_part1", "perform_pair_setup_part2", "get_session_keys", "resume_m1", "resume_m3"):
        f = func(t, fn)
        for n in ast.walk(f):
            if isinstance(n, ast.Assign) and isinstance(n.targets[0], ast.Name) and n.targets[0].id.endswith("_expectations"):
                exp[fn + "." + n.targets[0].id] = [tl[tlvname(e)] for e in n.value.elts]
        labs = []
        for n in ast.walk(f):
            if isinstance(n, ast.Call) and getattr(n.func, "id", "") in ("hkdf_derive", "derive"):
                bs = [bconst(a).decode() for a in n.args if bconst(a) is not None]
                kw = {k.arg: k.value.value for k in n.keywords if isinstance(k.value, ast.Constant)}
                labs.append((n.lineno, n.col_offset, bs + ([str(kw["length"])] if "length" in kw else [])))
        labels[fn] = [x[2] for x in sorted(labs)]
        nn = []
        for n in ast.walk(f):
            if isinstance(n, ast.BinOp) and isinstance(n.op, ast.Add) and getattr(n.left, "id", "") == "NONCE_PADDING" and bconst(n.right) is not None:
                nn.append((n.lineno, n.col_offset, bconst(n.right).decode()))
        nonces[fn] = [x[2] for x in sorted(nn)]
    need = ["perform_pair_setup_part1.step2_expectations", "perform_pair_setup_part2.step4_expectations", "perform_pair_setup_part2.step6_expectations",
            "get_session_keys.step2_expectations", "get_session_keys.step3_expectations"]
    for k in need:
        if k not in exp:
            raise Shape(k)
    d["expectations"] = exp
    d["labels"] = labels
    d["nonces"] = nonces
    out["Protocol"] = d



@extractor
def status_table(out):
    t = parse("protocol/statuscodes.py")
    rows = []
    for n in t.body:
        if isinstance(n, ast.ClassDef) and n.name == "HapStatusCode":
            for a in n.body:
                if isinstance(a, ast.Assign) and isinstance(a.targets[0], ast.Name) and isinstance(a.value, ast.Tuple):
                    v, d = a.value.elts
                    rows.append([a.targets[0].id, ast.literal_eval(v), ast.literal_eval(d)])
    if not rows:
        raise Shape("HapStatusCode")
    f = func(t, "to_status_code")
    out["Status"] = {"hap": rows, "toStatusCodeSrc": ast.unparse(f)}



@extractor
def srp_constants(out):
    t = parse("crypto/srp.py")
    d = {}
    for n in t.body:
        if isinstance(n, ast.Assign) and isinstance(n.targets[0], ast.Name) and n.targets[0].id in ("CLIENT_K_VALUE", "GENERATOR_VALUE", "MODULUS_VALUE", "HK_KEY_LENGTH"):
            v = n.value
            if isinstance(v, ast.Call) and getattr(v.func, "id", None) == "int":
                d[n.targets[0].id] = int(bconst(v.args[0]).replace(b"\n", b""), v.args[1].value)
            elif isinstance(v, ast.Constant):
                d[n.targets[0].id] = v.value
    if set(d) != {"CLIENT_K_VALUE", "GENERATOR_VALUE", "MODULUS_VALUE", "HK_KEY_LENGTH"}:
        raise Shape("srp constants: " + ",".join(sorted(d)))
    # salt length used by set_salt's pad_left, username literal of pair-setup
    cls = [c for c in t.body if isinstance(c, ast.ClassDef) and c.name == "SrpClient"][0]
    ss = func(cls, "set_salt")
    pads = [c.args[1].value for c in ast.walk(ss) if isinstance(c, ast.Call) and getattr(c.func, "id", "") == "pad_left" and isinstance(c.args[1], ast.Constant)]
    if len(pads) != 1:
        raise Shape("set_salt pad_left length")
    d["SALT_LENGTH"] = pads[0]
    t2 = parse("protocol/__init__.py")
    f = func(t2, "perform_pair_setup_part2")
    users = [c.args[0].value for c in ast.walk(f) if isinstance(c, ast.Call) and getattr(c.func, "id", "") == "SrpClient" and isinstance(c.args[0], ast.Constant)]
    if len(users) != 1:
        raise Shape("SrpClient username literal")
    d["USERNAME"] = users[0]
    # the integer arithmetic of the client: statements of SrpClient.get_shared_secret (after the guard) and the public key
    def arith(e):
        if isinstance(e, ast.Name):
            return ("var", e.id)
        if isinstance(e, ast.Attribute) and isinstance(e.value, ast.Name) and e.value.id == "self":
            return ("var", "self." + e.attr)
        if isinstance(e, ast.BinOp) and isinstance(e.op, (ast.Add, ast.Sub, ast.Mult, ast.Mod)):
            return ({ast.Add: "add", ast.Sub: "sub", ast.Mult: "mul", ast.Mod: "mod"}[type(e.op)], arith(e.left), arith(e.right))
        if isinstance(e, ast.Call) and getattr(e.func, "id", "") == "pow" and len(e.args) == 3 and not e.keywords:
            return ("powmod",) + tuple(arith(a) for a in e.args)
        if isinstance(e, ast.Call) and isinstance(e.func, ast.Attribute) and isinstance(e.func.value, ast.Name) and e.func.value.id == "self" and not e.args and not e.keywords:
            return ("call", "self." + e.func.attr)
        if isinstance(e, ast.Constant) and isinstance(e.value, int) and not isinstance(e.value, bool):
            return ("lit", e.value)
        raise Shape("srp arithmetic: unsupported expression " + ast.dump(e)[:80])
    gs = func(cls, "get_shared_secret")
    body = list(gs.body)
    if body and isinstance(body[0], ast.Expr) and isinstance(body[0].value, ast.Constant):
        body = body[1:]
    if not (body and isinstance(body[0], ast.If) and isinstance(body[0].body[0], ast.Raise) and not body[0].orelse):
        raise Shape("get_shared_secret: guard")
    stmts = []
    ret = None
    for st in body[1:]:
        if isinstance(st, ast.Assign) and len(st.targets) == 1 and isinstance(st.targets[0], (ast.Name, ast.Attribute)):
            stmts.append((arith(st.targets[0])[1], arith(st.value)))
        elif isinstance(st, ast.Return) and st.value is not None and ret is None:
            ret = arith(st.value)
        else:
            raise Shape("get_shared_secret: statement " + ast.dump(st)[:80])
    if ret is None:
        raise Shape("get_shared_secret: no return")
    init = func(cls, "__init__")
    pubs = [arith(st.value) for st in init.body if isinstance(st, ast.Assign) and isinstance(st.targets[0], ast.Attribute) and st.targets[0].attr == "A"]
    if len(pubs) != 1:
        raise Shape("SrpClient.__init__: self.A")
    d["_arith"] = {"stmts": stmts, "ret": ret, "pub": pubs[0]}
    out["Srp"] = {k: (str(v) if isinstance(v, int) and v > 2 ** 64 else v) for k, v in d.items() if not k.startswith("_")}
    out["Srp"]["arith"] = d["_arith"]
    out["_srp_raw"] = d



@extractor
def install_sites(out):
    """which derived key goes where, at the three install sites"""
    d = {}

    def labels_in(fnode):
        labs = []
        for n in ast.walk(fnode):
            if isinstance(n, ast.Assign) and isinstance(n.value, ast.Call) and getattr(n.value.func, "id", getattr(n.value.func, "attr", "")) in ("derive", "_derive"):
                labs.append((n.lineno, ast.unparse(n.targets[0]), [bconst(a).decode() for a in n.value.args if bconst(a) is not None]))
            if isinstance(n, ast.Call) and getattr(n.func, "id", "") in ("EncryptionKey", "DecryptionKey") and n.args and isinstance(n.args[0], ast.Call):
                inner = n.args[0]
                labs.append((n.lineno, n.func.id, [bconst(a).decode() for a in inner.args if bconst(a) is not None]))
        return [[t, ls] for _, t, ls in sorted(labs)]

    t = parse("controller/ip/connection.py")
    f = func(t, "_connect_once", "SecureHomeKitConnection")
    d["ip"] = labels_in(f)
    ctor = [n for n in ast.walk(f) if isinstance(n, ast.Call) and getattr(n.func, "id", "") == "SecureHomeKitProtocol"]
    if len(ctor) != 1:
        raise Shape("SecureHomeKitProtocol(...) call")
    d["ipCtorArgs"] = [ast.unparse(a) for a in ctor[0].args]
    init = func(t, "__init__", "SecureHomeKitProtocol")
    d["ipCtorParams"] = [a.arg for a in init.args.args]
    enc = [ast.unparse(n.value.args[0]) for n in ast.walk(init) if isinstance(n, ast.Assign) and isinstance(n.value, ast.Call) and getattr(n.value.func, "id", "") in ("ChaCha20Poly1305Encryptor", "ChaCha20Poly1305Decryptor")]
    d["ipCipherKeys"] = enc
    t = parse("controller/coap/connection.py")
    d["coap"] = labels_in(func(t, "do_pair_verify"))
    ec = [n for n in ast.walk(func(t, "do_pair_verify")) if isinstance(n, ast.Call) and getattr(n.func, "id", "") == "EncryptionContext"]
    if len(ec) != 1:
        raise Shape("EncryptionContext(...) call")
    d["coapCtxArgs"] = [ast.unparse(a) for a in ec[0].args[:3]]
    t = parse("controller/ble/pairing.py")
    d["ble"] = labels_in(func(t, "_async_pair_verify"))
    for k in ("ip", "coap", "ble"):
        if not d[k]:
            raise Shape("install site " + k)
    out["Install"] = d


@extractor
def reconnect_constants(out):
    """numbers and exception-handler order of the reconnect loop (C10)"""
    from fractions import Fraction
    UNIT = 8192
    t = parse("controller/ip/connection.py")
    rc = func(t, "_reconnect", "HomeKitConnection")
    d = {"unit": UNIT}

    def units(x, what):
        v = Fraction(str(x)) * UNIT
        if v.denominator != 1:
            raise Shape(f"{what}={x} is not a multiple of 1/{UNIT} s")
        return int(v)
    init = [n for n in ast.walk(rc) if isinstance(n, ast.Assign) and getattr(n.targets[0], "id", "") == "interval" and isinstance(n.value, ast.Constant)]
    if len(init) != 1:
        raise Shape("_reconnect: interval = <const>")
    d["initial"] = units(init[0].value.value, "initial interval")
    grow = [n for n in ast.walk(rc) if isinstance(n, ast.Assign) and getattr(n.targets[0], "id", "") == "interval" and isinstance(n.value, ast.Call) and getattr(n.value.func, "id", "") == "min"]
    if len(grow) != 1 or len(grow[0].value.args) != 2:
        raise Shape("_reconnect: interval = min(cap, factor * interval)")
    cap, prod = grow[0].value.args
    if not (isinstance(cap, ast.Constant) and isinstance(prod, ast.BinOp) and isinstance(prod.op, ast.Mult)):
        raise Shape("_reconnect: min(cap, factor * interval) operands")
    fac = prod.left if isinstance(prod.left, ast.Constant) else prod.right
    other = prod.right if fac is prod.left else prod.left
    if not (isinstance(fac, ast.Constant) and getattr(other, "id", "") == "interval"):
        raise Shape("_reconnect: factor * interval")
    d["cap"] = units(cap.value, "cap")
    fr = Fraction(str(fac.value))
    d["num"], d["den"] = fr.numerator, fr.denominator
    sleeps = [n for n in ast.walk(rc) if isinstance(n, ast.Call) and getattr(n.func, "attr", "") == "sleep"]
    if len(sleeps) != 1 or ast.unparse(sleeps[0].args[0]) != "interval" or not grow[0].lineno < sleeps[0].lineno:
        raise Shape("_reconnect: sleep(interval) after the growth")
    tries = [n for n in ast.walk(rc) if isinstance(n, ast.Try) and n.handlers and any(isinstance(x, ast.Return) for x in ast.walk(ast.Module(body=n.body, type_ignores=[])))]
    if len(tries) != 1:
        raise Shape("_reconnect: try around _connect_once")
    hs = []
    for h in tries[0].handlers:
        name = ast.unparse(h.type) if h.type is not None else "BaseException"
        if isinstance(h.body[-1], ast.Raise):
            act = "raise"
        elif any(isinstance(x, ast.Continue) for x in ast.walk(h)):
            act = "continue-if"
        else:
            act = "retry"
        hs.append([name, act])
    d["handlers"] = hs
    co = func(t, "_connect_once", "HomeKitConnection")
    tm = [n for n in ast.walk(co) if isinstance(n, ast.Call) and getattr(n.func, "id", "") == "asyncio_timeout"]
    if len(tm) != 1 or not isinstance(tm[0].args[0], ast.Constant):
        raise Shape("_connect_once: asyncio_timeout(<const>)")
    d["connectTimeout"] = units(tm[0].args[0].value, "connect timeout")
    sl = func(t, "_send_lines", "InsecureHomeKitProtocol")
    tmo = [n for n in ast.walk(sl) if isinstance(n, ast.Call) and getattr(n.func, "attr", "") == "call_at"]
    if len(tmo) != 1 or not (isinstance(tmo[0].args[0], ast.BinOp) and isinstance(tmo[0].args[0].right, ast.Constant)):
        raise Shape("_send_lines call_at timeout")
    d["requestTimeout"] = units(tmo[0].args[0].right.value, "request timeout")
    tp = parse("controller/ip/pairing.py")
    ec = func(tp, "_ensure_connected", "IpPairing")
    tm = [n for n in ast.walk(ec) if isinstance(n, ast.Call) and getattr(n.func, "id", "") == "asyncio_timeout"]
    if len(tm) != 1 or not isinstance(tm[0].args[0], ast.Constant):
        raise Shape("_ensure_connected: asyncio_timeout(<const>)")
    d["ensureTimeout"] = units(tm[0].args[0].value, "ensure timeout")
    out["Reconnect"] = d


# --------------------------------------------------------------------------- emission

def emit(out):
    files = {}
    tl = out["TLV"]
    lines = ["/-! GENERATED by tools/translate.py from aiohomekit/protocol/tlv.py - do not edit. -/", "namespace HapVerif.Gen.Tlv"]
    for k, v in tl.items():
        if isinstance(v, int):
            lines.append(f"def {k} : Nat := {v}")
        else:
            lines.append(f"def {k} : List UInt8 := {lean_list(v)}")
    lines.append(f"def MAX_REASSEMBLY : Nat := {out['MAX_REASSEMBLY']}")
    lines.append("end HapVerif.Gen.Tlv")
    files["Tlv.lean"] = "\n".join(lines) + "\n"
    for em in EMITTERS:
        em(out, files)
    return files


EMITTERS = []


def emitter(f):
    EMITTERS.append(f)
    return f


@emitter
def emit_ip(out, files):
    d = out["Ip"]
    lines = ["/-! GENERATED by tools/translate.py from controller/ip/connection.py and crypto/chacha20poly1305.py - do not edit. -/", "namespace HapVerif.Gen.Ip"]
    for k, v in d.items():
        if isinstance(v, bool):
            lines.append(f"def {k} : Bool := {'true' if v else 'false'}")
        elif isinstance(v, int):
            lines.append(f"def {k} : Nat := {v}")
        elif isinstance(v, str):
            lines.append(f"def {k} : String := {lean_str(v)}")
        elif isinstance(v, list):
            lines.append(f"def {k} : List Nat := {lean_list(v)}")
    lines.append("end HapVerif.Gen.Ip")
    files["Ip.lean"] = "\n".join(lines) + "\n"


@emitter
def emit_pdu(out, files):
    d = out["Pdu"]
    lines = ["/-! GENERATED by tools/translate.py from pdu.py and controller/coap/pdu.py - do not edit. -/", "namespace HapVerif.Gen.Pdu"]
    for k, v in d.items():
        if isinstance(v, int):
            lines.append(f"def {k} : Nat := {v}")
        elif isinstance(v, list) and all(isinstance(x, int) for x in v):
            lines.append(f"def {k} : List Nat := {lean_list(v)}")
        elif isinstance(v, list):
            lines.append(f"def {k} : List String := {lean_list(v, lean_str)}")
    lines.append("end HapVerif.Gen.Pdu")
    files["Pdu.lean"] = "\n".join(lines) + "\n"


def lean_fty(t):
    k = t[0]
    if k == "u":
        return f".uint {t[1]}"
    if k == "bu16":
        return ".buint16"
    if k in ("str", "bytes"):
        return "." + k
    if k == "enum":
        return f".enum {lean_list(t[1])}"
    if k == "struct":
        return f".struct ({lean_schema(t[1])})"
    if k == "seq":
        return f".seqStruct ({lean_schema(t[1])})"
    if k == "sequ16":
        return ".seqU16"
    raise Shape(str(t))


def lean_schema(fields):
    return ".mk [" + ", ".join(f"({tt}, {lean_fty(ft)})" for _, tt, ft in fields) + "]"


@emitter
def emit_schemas(out, files):
    lines = ["import HapVerif.Model.Tlv8Struct", "/-! GENERATED by tools/translate.py by reflection over every TLVStruct subclass - do not edit. -/",
             "namespace HapVerif.Gen.Schemas", "open HapVerif.Tlv8", "def all : List (String × Schema) := ["]
    rows = [f"  ({lean_str(name)}, {lean_schema(fields)})" for name, fields in out["Schemas"]]
    lines.append(",\n".join(rows))
    lines.append("]")
    lines.append("end HapVerif.Gen.Schemas")
    files["Schemas.lean"] = "\n".join(lines) + "\n"


@emitter
def emit_protocol(out, files):
    d = out["Protocol"]
    L = ["/-! GENERATED by tools/translate.py from protocol/__init__.py - do not edit. -/", "namespace HapVerif.Gen.Protocol"]
    L.append("def errorTable : List (List UInt8 × String) := " + lean_list(d["errorTable"], lambda r: f"({lean_list(r[0])}, {lean_str(r[1])})"))
    L.append(f"def errorDefault : String := {lean_str(d['errorDefault'])}")
    names = {"perform_pair_setup_part1.step2_expectations": "setupM2", "perform_pair_setup_part2.step4_expectations": "setupM4",
             "perform_pair_setup_part2.step6_expectations": "setupM6", "get_session_keys.step2_expectations": "verifyM2",
             "get_session_keys.step3_expectations": "verifyM4"}
    for k, nm in names.items():
        L.append(f"def expect_{nm} : List Nat := {lean_list(d['expectations'][k])}")
    for fn, labs in d["labels"].items():
        L.append(f"def labels_{fn} : List (List String) := " + lean_list(labs, lambda r: lean_list(r, lean_str)))
    for fn, nn in d["nonces"].items():
        L.append(f"def nonces_{fn} : List String := " + lean_list(nn, lean_str))
    L.append("end HapVerif.Gen.Protocol")
    files["Protocol.lean"] = "\n".join(L) + "\n"


@emitter
def emit_status(out, files):
    L = ["/-! GENERATED by tools/translate.py from protocol/statuscodes.py - do not edit. -/", "namespace HapVerif.Gen.Status",
         "def hap : List (String × Int × String) := " + lean_list(out["Status"]["hap"], lambda r: f"({lean_str(r[0])}, ({r[1]} : Int), {lean_str(r[2])})"),
         "end HapVerif.Gen.Status"]
    files["Status.lean"] = "\n".join(L) + "\n"


@emitter
def emit_srp(out, files):
    d = out.pop("_srp_raw")
    L = ["/-! GENERATED by tools/translate.py from crypto/srp.py - do not edit. -/", "namespace HapVerif.Gen.Srp",
         f"def N : Nat := {d['MODULUS_VALUE']}", f"def g : Nat := {d['GENERATOR_VALUE']}", f"def k : Nat := {d['CLIENT_K_VALUE']}",
         f"def keyLen : Nat := {d['HK_KEY_LENGTH']}", f"def saltLen : Nat := {d['SALT_LENGTH']}", f"def username : String := {lean_str(d['USERNAME'])}",
         "", "/-- integer expressions of the client as written in the source -/",
         "inductive E", "  | var (name : String)", "  | lit (n : Nat)", "  | call (name : String)", "  | add (a b : E)", "  | sub (a b : E)", "  | mul (a b : E)",
         "  | mod (a b : E)", "  | powmod (b e m : E)", "  deriving Repr", ""]

    def E(t):
        if t[0] in ("var", "call"):
            return f"(.{t[0]} {lean_str(t[1])})"
        if t[0] == "lit":
            return f"(.lit {t[1]})"
        return "(." + t[0] + " " + " ".join(E(x) for x in t[1:]) + ")"
    a = d["_arith"]
    L += ["/-- `SrpClient.get_shared_secret`: the assignments after the guard, in source order, and the returned expression -/",
          "def sharedSecretStmts : List (String × E) :=", "  [" + ",\n   ".join(f"({lean_str(n)}, {E(e)})" for n, e in a["stmts"]) + "]",
          f"def sharedSecretRet : E := {E(a['ret'])}",
          "/-- `SrpClient.__init__`: `self.A = ...` -/", f"def publicKey : E := {E(a['pub'])}",
          "end HapVerif.Gen.Srp"]
    files["Srp.lean"] = "\n".join(L) + "\n"


@emitter
def emit_blemeta(out, files):
    d = out["BleMeta"]

    def rows(rs):
        return "[" + ", ".join(f"({c}, {lean_str(f)}, {lean_str(h)})" for c, f, h in rs) + "]"
    L = ["/-! GENERATED by tools/translate.py from controller/ble/structs.py - do not edit. -/", "namespace HapVerif.Gen.BleMeta",
         "/-- (presentation format code, struct format, what is done with the result) per row of the if-chain, in source order -/",
         f"def unpackRows : List (Nat × String × String) := {rows(d['unpack'])}",
         f"def packRows : List (Nat × String × String) := {rows(d['pack'])}",
         f"def rangeRows : List (Nat × String × String) := {rows(d['range'])}",
         "/-- the same chains of `Pdu09Characteristic` in controller/coap/structs.py (the CoAP accessory database) -/",
         f"def coapUnpackRows : List (Nat × String × String) := {rows(d['coapUnpack'])}",
         f"def coapPackRows : List (Nat × String × String) := {rows(d['coapPack'])}",
         f"def coapRangeRows : List (Nat × String × String) := {rows(d['coapRange'])}",
         "end HapVerif.Gen.BleMeta"]
    files["BleMeta.lean"] = "\n".join(L) + "\n"


@emitter
def emit_scalars(out, files):
    rows = out["Scalars"]
    L = ["/-! GENERATED by tools/translate.py from tlv8.py - do not edit. -/", "namespace HapVerif.Gen.Scalars",
         "/-- (type, serialiser kind, to_bytes length, struct format or byte order, byte order of int.from_bytes) -/",
         "def rows : List (String × String × Nat × String × String) :=",
         "  [" + ",\n   ".join(f"({lean_str(a)}, {lean_str(b)}, {c}, {lean_str(d)}, {lean_str(e)})" for a, b, c, d, e in rows) + "]",
         "end HapVerif.Gen.Scalars"]
    files["Scalars.lean"] = "\n".join(L) + "\n"


@emitter
def emit_coap_event(out, files):
    d = out["CoapEvent"]
    L = ["/-! GENERATED by tools/translate.py from controller/coap/connection.py (EventResource.render_put) - do not edit. -/", "namespace HapVerif.Gen.CoapEvent"]
    for k in ("fmt", "unpacked", "body", "advance", "stop", "init"):
        L.append(f"def {k}Src : String := {lean_str(d[k])}")
    L.append("end HapVerif.Gen.CoapEvent")
    files["CoapEvent.lean"] = "\n".join(L) + "\n"


@emitter
def emit_ble_reassembly(out, files):
    d = out["BleReassembly"]
    L = ["/-! GENERATED by tools/translate.py from controller/ble/client.py (_pairing_char_write) - do not edit. -/", "namespace HapVerif.Gen.BleReassembly",
         f"def maxReassembly : Nat := {d['max']}",
         f"def test1 : String := {lean_str(d['test1'])}", f"def do1 : List String := {lean_list(d['do1'], lean_str)}", f"def else1 : List String := {lean_list(d['else1'], lean_str)}",
         f"def test2 : String := {lean_str(d['test2'])}", f"def do2 : List String := {lean_list(d['do2'], lean_str)}", f"def else2 : List String := {lean_list(d['else2'], lean_str)}",
         f"def bufferInit : List String := {lean_list(d['bufferInit'], lean_str)}", f"def afterLoop : String := {lean_str(d['afterLoop'])}",
         "end HapVerif.Gen.BleReassembly"]
    files["BleReassembly.lean"] = "\n".join(L) + "\n"


@emitter
def emit_install(out, files):
    d = out["Install"]
    L = ["/-! GENERATED by tools/translate.py (key install sites of IP, CoAP, BLE) - do not edit. -/", "namespace HapVerif.Gen.Install"]
    for k in ("ip", "coap", "ble"):
        L.append(f"def {k} : List (String × List String) := " + lean_list(d[k], lambda r: f"({lean_str(r[0])}, {lean_list(r[1], lean_str)})"))
    for k in ("ipCtorArgs", "ipCtorParams", "ipCipherKeys", "coapCtxArgs"):
        L.append(f"def {k} : List String := " + lean_list(d[k], lean_str))
    L.append("end HapVerif.Gen.Install")
    files["Install.lean"] = "\n".join(L) + "\n"


@emitter
def emit_entity_map(out, files):
    d = out["EntityMap"]
    t3 = lambda r: f"({lean_str(r[0])}, {lean_str(r[1])}, {lean_str(r[2])})"  # noqa: E731
    t2 = lambda r: f"({lean_str(r[0])}, {lean_str(r[1])})"  # noqa: E731

    def cond(c):
        if c == "always":
            return ".always"
        if c == "readable":
            return ".readable"
        k, _, rest = c.partition(":")
        if k in ("truthy", "notNone"):
            return f"(.{k} {lean_str(rest)})"
        if k == "truthyAndFormatIn":
            a, _, fmts = rest.partition(":")
            return f"(.truthyAndFormatIn {lean_str(a)} {lean_list(fmts.split(','), lean_str)})"
        raise Shape("entity_map: condition " + c)
    L = ["/-! GENERATED by tools/translate.py from model/characteristics/characteristic.py, model/__init__.py, model/services/service.py - do not edit. -/",
         "namespace HapVerif.Gen.EntityMap",
         "/-- the condition under which `to_accessory_and_service_list` emits a key -/",
         "inductive Cond",
         "  | always",
         "  | readable                                                  -- `CharacteristicPermissions.paired_read in self.perms`",
         "  | truthy (attr : String)                                    -- `if self.<attr>:`",
         "  | notNone (attr : String)                                   -- `if self.<attr> is not None:`",
         "  | truthyAndFormatIn (attr : String) (formats : List String) -- `if self.<attr> and self.format in [...]:`",
         "  deriving DecidableEq, Repr",
         "/-- (JSON key, condition, attribute) in emission order -/",
         "def ser : List (String × Cond × String) := " + lean_list(d["ser"], lambda r: f"({lean_str(r[0])}, {cond(r[1])}, {lean_str(r[2])})"),
         "/-- (attribute, keyword argument, default) of `self.X = self._get_configuration(kwargs, kw, default)` -/",
         "def ctor : List (String × String × String) := " + lean_list(d["ctor"], t3),
         "def consts : List (String × String) := " + lean_list(d["consts"], t2),
         "def defaults : List (String × String) := " + lean_list(d["defaults"], t2),
         "def coerce : List String := " + lean_list(d["coerce"], lean_str),
         "/-- (JSON key, keyword argument) forwarded by `create_from_dict` when the key is present -/",
         "def forward : List (String × String) := " + lean_list(d["forward"], t2),
         "def kwargs0 : List String := " + lean_list(d["kwargs0"], lean_str),
         "def loadGuards : List String := " + lean_list(d["loadGuards"], lean_str),
         "def serviceSerGuards : List String := " + lean_list(d["serviceSerGuards"], lean_str),
         "def serviceIid : List String := " + lean_list(d["serviceIid"], lean_str),
         "end HapVerif.Gen.EntityMap"]
    files["EntityMap.lean"] = "\n".join(L) + "\n"


@emitter
def emit_misc(out, files):
    d = out["Misc"]
    t2 = lambda r: f"({lean_str(r[0])}, {lean_str(r[1])})"  # noqa: E731
    L = ["/-! GENERATED by tools/translate.py (characteristic.py, ble/pairing.py, ble/manufacturer_data.py, coap/connection.py, http/response.py) - do not edit. -/",
         "namespace HapVerif.Gen.Misc",
         f"def convertPrec : Nat := {d['convert']['prec']}",
         f"def convertPrecGuard : String := {lean_str(d['convert']['precGuard'])}",
         f"def convertRounding : String := {lean_str(d['convert']['rounding'])}",
         "def integerTypes : List String := " + lean_list(d["convert"]["integerTypes"], lean_str),
         "def convertFinals : List String := " + lean_list(d["convert"]["finals"], lean_str),
         f"def maxGsn : Nat := {d['broadcast']['maxGsn']}",
         "/-- the state numbers tried for an encrypted notification, relative to the last accepted one: (kind, a, b) = at +a | range +a .. +b -/",
         "def gsnCandidates : List (String × Nat × Nat) := " + lean_list(d["broadcast"]["candidates"], lambda r: f"({lean_str(r[0])}, {r[1]}, {r[2]})"),
         "def bleAdvLenChecks : List (String × Nat) := " + lean_list(d["bleAdv"]["lenChecks"], lambda r: f"({lean_str(r[0])}, {r[1]})"),
         "def bleAdvSlices : List (Nat × Nat) := " + lean_list(d["bleAdv"]["slices"], lambda r: f"({r[0]}, {r[1]})"),
         f"def bleAdvUnpack : String := {lean_str(d['bleAdv']['unpack'])}",
         f"def coapRewind : Nat := {d['coapResync']['rewind']}",
         f"def coapForward : Nat := {d['coapResync']['forward']}",
         "def httpCompared : List (String × String) := " + lean_list(d["http"]["compared"], t2),
         "def httpByteLiterals : List String := " + lean_list(d["http"]["byteLiterals"], lean_str),
         "end HapVerif.Gen.Misc"]
    files["Misc.lean"] = "\n".join(L) + "\n"


@emitter
def emit_request(out, files):
    d = out["Request"]
    t2 = lambda r: f"({lean_str(r[0])}, {lean_str(r[1])})"  # noqa: E731
    L = ["/-! GENERATED by tools/translate.py from controller/ip/connection.py (request, get, put, post, _connect_once) and http/__init__.py - do not edit. -/",
         "namespace HapVerif.Gen.Request",
         "def buffer0 : List String := " + lean_list(d["buffer0"], lean_str),
         "def appends : List String := " + lean_list(d["appends"], lean_str),
         f"def join : String := {lean_str(d['join'])}",
         "def bodyGuard : List String := " + lean_list(d["bodyGuard"], lean_str),
         "def sends : List String := " + lean_list(d["sends"], lean_str)]
    for name in ("get", "put", "post"):
        hp = d["helpers"][name]
        L.append(f"def {name}Method : String := {lean_str(hp['method'])}")
        L.append(f"def {name}Headers : List (String × String) := " + lean_list(hp["headers"], t2))
        L.append(f"def {name}Defaults : List String := " + lean_list(hp["defaults"], lean_str))
    L.append("def hostHeader : List (String × String) := " + lean_list(d["hostHeader"], t2))
    L.append("def contentTypes : List (String × String) := " + lean_list(sorted(d["contentTypes"].items()), t2))
    L.append("end HapVerif.Gen.Request")
    files["Request.lean"] = "\n".join(L) + "\n"


@emitter
def emit_reconnect(out, files):
    d = out["Reconnect"]
    L = ["/-! GENERATED by tools/translate.py from controller/ip/connection.py (_reconnect, _connect_once, _send_lines) and controller/ip/pairing.py - do not edit.",
         f"Times are in units of 1/{d['unit']} s. -/", "namespace HapVerif.Gen.Reconnect"]
    for k in ("unit", "initial", "cap", "num", "den", "connectTimeout", "requestTimeout", "ensureTimeout"):
        L.append(f"def {k} : Nat := {d[k]}")
    L.append("def handlers : List (String × String) := " + lean_list(d["handlers"], lambda r: f"({lean_str(r[0])}, {lean_str(r[1])})"))
    L.append("end HapVerif.Gen.Reconnect")
    files["Reconnect.lean"] = "\n".join(L) + "\n"


def main():
    try:
        out = extract()
        files = emit(out)
    except Shape as e:
        print(f"translator: shape not found: {e}", file=sys.stderr)
        return 3
    os.makedirs(GEN, exist_ok=True)
    changed = []
    files["gen.json"] = json.dumps(out, indent=1, sort_keys=True, default=str) + "\n"
    for name, content in files.items():
        p = os.path.join(GEN, name)
        old = None
        if os.path.exists(p):
            with open(p) as f:
                old = f.read()
        if old != content:
            with open(p, "w") as f:
                f.write(content)
            changed.append(name)
    print("translator: ok; changed=" + ",".join(changed))
    return 0


if __name__ == "__main__":
    sys.exit(main())
