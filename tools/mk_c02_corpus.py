#!/usr/bin/env python3
"""Search once (offline, seeded, reproducible) for SRP exchanges whose values start with zero bytes and write them
to corpus/C02/leading_zero.json.  The check re-derives every claimed leading zero from the reference server before
using a case, so a stale or wrong corpus entry is reported as a harness error, never believed.

run: /venv/bin/python tools/mk_c02_corpus.py            (about a minute on 16 cores)

Found per kind (pin, salt, b, a) with
  A   : PAD(g^a)[0] == 0               B  : PAD(B)[0] == 0
  S   : PAD(S)[0] == 0                 S2 : PAD(S)[:2] == 00 00   (1 in 65536)
  K   : H(PAD S)[0] == 0               K2 : K[:2] == 00 00
  M1  : M1[0] == 0                     M2 : M2[0] == 0            M22 : M2[:2] == 00 00
"""
import json
import os
import random
import sys
from multiprocessing import Pool

sys.path.insert(0, os.path.dirname(os.path.dirname(os.path.abspath(__file__))))
from harness import refacc  # noqa: E402

PIN = "031-45-154"
WANT = {"A": 2, "B": 2, "S": 3, "S2": 1, "K": 3, "K2": 1, "M1": 2, "M2": 2, "M22": 1, "A2": 1, "B2": 1}


def kinds(salt, b, ab):
    srv = refacc.SrpServer(PIN, salt, b)
    A_b = refacc.PAD(pow(refacc.G, int.from_bytes(ab, "big"), refacc.N3072))
    srv.on_A(A_b)
    Bb, S = refacc.PAD(srv.B), refacc.PAD(srv.S)
    out = set()
    if A_b[0] == 0:
        out.add("A")
    if A_b[:2] == b"\0\0":
        out.add("A2")
    if Bb[0] == 0:
        out.add("B")
    if Bb[:2] == b"\0\0":
        out.add("B2")
    if S[0] == 0:
        out.add("S")
    if S[:2] == b"\0\0":
        out.add("S2")
    if srv.K[0] == 0:
        out.add("K")
    if srv.K[:2] == b"\0\0":
        out.add("K2")
    if srv.M1[0] == 0:
        out.add("M1")
    if srv.M2[0] == 0:
        out.add("M2")
    if srv.M2[:2] == b"\0\0":
        out.add("M22")
    return out


def work(seed):
    rng = random.Random(seed)
    rb = lambda n: bytes(rng.randrange(256) for _ in range(n))  # noqa: E731
    hits = []
    for _ in range(6000):
        salt, b, ab = rb(16), int.from_bytes(rb(32), "big"), rb(16)
        k = kinds(salt, b, ab)
        if k:
            hits.append({"pin": PIN, "salt": salt.hex(), "b": str(b), "a": ab.hex(), "kinds": sorted(k)})
    return hits


def main():
    have = {k: 0 for k in WANT}
    keep = []
    seed0 = 1000
    with Pool(16) as pool:
        while any(have[k] < WANT[k] for k in WANT) and seed0 < 1000 + 16 * 40:
            for hits in pool.map(work, range(seed0, seed0 + 16)):
                for h in hits:
                    if any(have[k] < WANT[k] for k in h["kinds"]):
                        keep.append(h)
                        for k in h["kinds"]:
                            have[k] += 1
            seed0 += 16
            print(have, file=sys.stderr)
    out = os.path.join(os.path.dirname(os.path.dirname(os.path.abspath(__file__))), "corpus", "C02")
    os.makedirs(out, exist_ok=True)
    with open(os.path.join(out, "leading_zero.json"), "w") as f:
        json.dump({"what": "SRP exchanges whose values start with zero bytes (directed, found by tools/mk_c02_corpus.py; re-derived before use)", "cases": keep}, f, indent=1)
    print(len(keep), have)


if __name__ == "__main__":
    main()
