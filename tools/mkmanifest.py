#!/usr/bin/env python3
"""Regenerates MANIFEST.json from the table below (kept valid at all times)."""
import json, os
HERE = os.path.dirname(os.path.dirname(os.path.abspath(__file__)))

# id -> (technique, level text, level note, design ref)
CLAIMED = {
 "C15": ("Lean 4 theorems (induction over item lists / fuel) on a hand-written model of the TLV codec + differential correspondence with TLV.encode_list/decode_bytes/_pairing_char_write",
         "Round trip, canonical form (existence+uniqueness against a relational TLV8 spec), totality of decoding, no-short-value, expected-filter and BLE reassembly are Lean theorems for all lists/lengths/byte strings; the model is tied to the code by boundary-exhaustive and random differential streams, and the same properties are evaluated on the implementation against an independent reference reader/writer.",
         "Lean kernel; axioms propext/Classical.choice/Quot.sound; translator (TLV constants, MAX_REASSEMBLY); differential harness; CPython bytes semantics. PDU layer below _pairing_char_write replaced by a scripted responder (see C17).",
         "4/C15"),
 "C05": ("Lean 4 theorems (loop invariants, induction over reads and frames) on a model of SecureHomeKitProtocol with an abstract AEAD + differential correspondence using an executable ChaCha20-Poly1305",
         "Inbound segmentation-independence (any opener, any state, any list of reads), inbound correctness for any accessory frame sizes, rejection of a non-authenticating frame with nothing delivered after it, 'only opener outputs are delivered', and outbound chunking/decodability by a spec reader are Lean theorems with no bound on sizes or number of reads; the tie is differential on send_bytes/data_received with every single and double cut of small streams and every single-bit corruption.",
         "Lean kernel; standard axioms; translator (1024, TAG_LENGTH, struct formats); differential harness; the executable Lean ChaCha20-Poly1305 is validated against `cryptography` each run, its security is assumed; asyncio closes the transport when data_received raises.",
         "4/C05"),
 "C17": ("Lean 4 theorems (induction over fragments / batch items) on models of encode_pdu, decode_pdu, _read_pdu and the CoAP batch codec + differential correspondence",
         "Fragments-fit and request reassembly for every fragment size >= 8 and body, response reassembly for every accessory fragmentation, rejection of wrong tid / missing continuation flag, CoAP positional decoding for every outcome vector and id attribution are Lean theorems; the tie is differential over the exhaustive (fs,len) grid, all fragmentations of small bodies, all outcome vectors of small batches and malformed inputs.",
         "Lean kernel; standard axioms; translator (struct formats, status enums, overheads, flags); differential harness; GATT transport replaced by a scripted characteristic; executable Lean AEAD validated per run.",
         "4/C17"),
 "C07": ("Lean 4 theorems (phase-commutation lemmas, strong induction on consumed input, reverse induction over the list of reads) on a model of HttpResponse.parse + the data_received loop + differential correspondence",
         "Segmentation independence is a Lean theorem for every byte stream (well-formed or not) and every list of reads: feed(a++b) = feed a ; feed b, lifted to feedAll chunks = feed (flatten chunks), including carried-over bytes after a complete message and where an error is raised; side condition GoodRun (no header block announcing both chunked and a positive Content-Length) is explicit. Correctness of the unsplit parse against a conformant writer is checked by the oracle on generated message sequences (not a theorem: C07_correct is the partial part).",
         "Lean kernel; standard axioms (Mathlib.Data.List.Induction for reverse induction); differential harness on InsecureHomeKitProtocol.data_received; model domain excludes Python int()'s tolerance of sign/space/underscore and non-ASCII header lines (instrumented, skipped, counted).",
         "4/C07"),
}

NOT_YET = {}

def main():
    props = [json.loads(l) for l in open(os.path.join(HERE, "properties.jsonl"))]
    checks = []
    na = []
    for p in props:
        pid = p["id"]
        if pid in CLAIMED:
            tech, text, note, ref = CLAIMED[pid]
            checks.append({
                "property_id": pid,
                "quick_cmd": f"./check {pid} --tier quick",
                "thorough_cmd": f"./check {pid} --tier thorough",
                "evidence_file": f"evidence/{pid}.json",
                "replay_cmd_template": f"./check {pid} --replay {{path}}",
                "engine": "hapverif",
                "level_claimed": {"category": "proof", "text": text, "design_ref": f"DESIGN.md section {ref}"},
                "level_note": note,
                "technique": tech,
            })
        else:
            na.append({"property_id": pid, "reason": NOT_YET.get(pid, "not claimed yet: the Lean model, theorems and correspondence harness for this property are still being built (see DESIGN.md section 4); no check is registered until they exist")})
    m = {
        "version": 1,
        "setup_cmd": "cd lean && /venv/bin/python ../tools/translate.py && lake build",
        "hooks": {"guard": "AIOHOMEKIT_VERIF", "enable": "no source hooks are needed: the harness imports the working tree in-process (editable install) and observes through public entry points and monkeypatching", 
                  "baseline_off_cmd": "cd /repo && /venv/bin/python -m pytest -ra -q -p no:cacheprovider --timeout=900 --continue-on-collection-errors", "source_commits": [], "add_only": True},
        "engines": [{"name": "hapverif", "path": "lean/", "serves_properties": sorted(CLAIMED), "kind_free_text": "Lean 4 models + theorems (lake project HapVerif), compiled model driver (line protocol), Python differential harness calling the real aiohomekit in-process"}],
        "checks": checks,
        "not_applicable": na,
        "notes": "Every check: translator (source -> lean/HapVerif/Gen) -> lake build of the property's theorems -> #print axioms audit -> corpus -> differential correspondence model vs implementation -> property oracle on the implementation -> evidence. See DESIGN.md.",
    }
    with open(os.path.join(HERE, "MANIFEST.json"), "w") as f:
        json.dump(m, f, indent=1)
    print("claimed", len(checks), "not_applicable", len(na))

main()
