#!/usr/bin/env python3
"""Re-run the check of every archived seeded change (seeded/<Cxx>-<k>/patch.diff) against the CURRENT machinery, in
parallel, without touching /repo: every worker owns a copy of /verif (with its Lean build output) and a scratch git
worktree of /repo under /tmp/sweep/w<i>/, applies one patch there, runs `./check Cxx --tier quick` with
VERIF_REPO/PYTHONPATH pointing at its worktree, and reverts.  The outcome is written back into
seeded/<Cxx>-<k>/meta.json (field verif.checks.<tier>) of THIS /verif.

usage: tools/sweep_seeds.py [-j N] [--tier quick] [--seed S] [--only C01,C02-3,...] [--clean]
  --clean  also run every property's check once on the unpatched worktree (false-alarm sweep with the given seed)
Scratch directories are removed at the end.
"""
import json
import os
import re
import shutil
import subprocess
import sys
from concurrent.futures import ThreadPoolExecutor
from queue import Queue

VERIF = os.path.dirname(os.path.dirname(os.path.abspath(__file__)))
ROOT = f"/tmp/sweep{os.getpid()}"


def sh(cmd, cwd=None, env=None, timeout=7200):
    p = subprocess.run(cmd, shell=True, cwd=cwd, env=env, stdout=subprocess.PIPE, stderr=subprocess.STDOUT, text=True, timeout=timeout)
    return p.returncode, p.stdout


def arg(name, default=None):
    return sys.argv[sys.argv.index(name) + 1] if name in sys.argv else default


def main():
    j = int(arg("-j", "6"))
    tier = arg("--tier", "quick")
    seed = arg("--seed", None)
    only = arg("--only", None)
    only = only.split(",") if only else None
    jobs = []
    for d in sorted(os.listdir(os.path.join(VERIF, "seeded"))):
        if not re.match(r"C\d\d-\d+$", d):
            continue
        if only and d not in only and d.split("-")[0] not in only:
            continue
        jobs.append((arg("--check-prop", d.split("-")[0]), d))
    if "--clean" in sys.argv:
        props = sorted({p for p, _ in jobs}) if only else [f"C{i:02d}" for i in range(1, 21)]
        jobs = [(p, None) for p in props] + ([] if "--clean-only" in sys.argv else jobs)
    if "--clean-only" in sys.argv:
        jobs = [x for x in jobs if x[1] is None]
    os.makedirs(ROOT, exist_ok=True)
    workers = Queue()
    for i in range(j):
        w = f"{ROOT}/w{i}"
        if os.path.isdir(w):
            sh(f"git -C /repo worktree remove --force {w}/repo")
            shutil.rmtree(w, ignore_errors=True)
        os.makedirs(w)
        sh(f"rsync -a --exclude .git --exclude replays --exclude __pycache__ {VERIF}/ {w}/verif/")
        os.makedirs(f"{w}/verif/replays", exist_ok=True)
        rc, out = sh(f"git -C /repo worktree add --detach {w}/repo HEAD")
        if rc != 0:
            print(out)
            return 2
        workers.put(w)
    results = {}

    def run(job):
        pid, sd = job
        w = workers.get()
        try:
            env = dict(os.environ, VERIF_REPO=f"{w}/repo", PYTHONPATH=f"{w}/repo")
            if seed is not None:
                env["VERIF_SEED"] = seed
            if sd is not None:
                rc, out = sh(f"git apply {VERIF}/seeded/{sd}/patch.diff", cwd=f"{w}/repo")
                if rc != 0:   # context drifted through a later fix: commit in /repo - merge instead
                    rc, out = sh(f"git apply --3way {VERIF}/seeded/{sd}/patch.diff && git reset -q", cwd=f"{w}/repo")
                if rc != 0:
                    sh("git reset -q --hard && git clean -fdq", cwd=f"{w}/repo")   # a conflicted merge must not poison the next job on this worker
                    results[job] = {"exit": None, "error": "patch does not apply: " + out[-200:]}
                    print(f"{sd}: PATCH-DOES-NOT-APPLY", flush=True)
                    return
            try:
                rc, out = sh(f"./check {pid} --tier {tier}", cwd=f"{w}/verif", env=env)
            finally:
                sh("git reset -q --hard && git clean -fdq", cwd=f"{w}/repo")
            vio = [ln for ln in out.splitlines() if ln.startswith("VIOLATION")]
            details = [ln.strip() for ln in out.splitlines() if ln.strip().startswith(("violation:", "broken:"))][:4]
            res = {"exit": rc, "violation_line": vio[0] if vio else None, "details": [d[:300] for d in details],
                   "summary": next((ln for ln in out.splitlines() if ln.startswith(pid + " tier=")), "")}
            if rc not in (0, 1) or (sd is None and rc != 0):
                res["tail"] = out[-1500:]
            results[job] = res
            caught = rc == 1 and vio
            sup = sd and json.load(open(os.path.join(VERIF, "seeded", sd, "meta.json"))).get("verif", {}).get("superseded")
            if sup:
                res["superseded"] = True
                print(f"{sd}: superseded (no longer breaks the property): {'silent-ok' if rc == 0 and not vio else 'FALSE-ALARM(exit %s)' % rc}", flush=True)
                return
            kind = ("no-failing-input-found" if caught and "no-failing-input-found" in vio[0] else ("failing-input" if caught else f"MISSED(exit {rc})")) if sd else ("clean-ok" if rc == 0 and not vio else f"FALSE-ALARM(exit {rc})")
            print(f"{sd or pid + ' (unchanged tree)'}: {kind} {details[0][:160] if details else ''}", flush=True)
        finally:
            workers.put(w)

    with ThreadPoolExecutor(j) as ex:
        list(ex.map(run, jobs))
    bad = 0
    for (pid, sd), res in sorted(results.items(), key=lambda kv: (kv[0][0], kv[0][1] or "")):
        if sd is None:
            if res.get("exit") != 0:
                bad += 1
                print(f"==== {pid} on the unchanged tree: exit {res.get('exit')}\n{res.get('tail', '')}")
            continue
        mp = os.path.join(VERIF, "seeded", sd, "meta.json")
        meta = json.load(open(mp))
        res2 = {k: v for k, v in res.items() if k != "tail"}
        if seed is None and arg("--check-prop") is None:
            meta.setdefault("verif", {}).setdefault("checks", {})[tier] = {pid: res2}
            json.dump(meta, open(mp, "w"), indent=1)
        if res.get("superseded"):
            if res.get("exit") != 0:
                bad += 1
                print(f"==== {sd}: superseded seed, but the check raised an alarm (exit {res.get('exit')})")
            continue
        if not (res.get("exit") == 1 and res.get("violation_line")):
            bad += 1
            print(f"==== {sd}: not reported (exit {res.get('exit')}) {res.get('error', '')}\n{res.get('tail', '')[-600:]}")
    for i in range(j):
        sh(f"git -C /repo worktree remove --force {ROOT}/w{i}/repo")
    shutil.rmtree(ROOT, ignore_errors=True)
    sh("git -C /repo worktree prune")
    print(f"sweep done: {len(results)} runs, {bad} needing attention")
    return 0 if bad == 0 else 1


if __name__ == "__main__":
    sys.exit(main())
