#!/usr/bin/env python3
"""Confirm a seeded change produced by a sub-agent, archive it under /verif/seeded/<id>-<k>/ and run the
property's check against /repo with the change applied.

usage: tools/seedcheck.py <PROPERTY> <k> [--tier quick|thorough] [--no-confirm]

1. confirm, in the scratch worktree /tmp/seed/<PROPERTY>: the patch applies to a clean checkout, the whole test
   suite still passes, demo.py prints PROPERTY BROKEN with the change and PROPERTY HOLDS without it;
2. copy patch.diff / demo.py / meta.json to seeded/<PROPERTY>-<k>/;
3. `git -C /repo apply`, run `./check <PROPERTY> --tier <tier>`, `git -C /repo checkout -- .`;
4. record the outcome in seeded/<PROPERTY>-<k>/meta.json (field "verif") and print one summary line.
Nothing is ever committed in /repo.
"""
import json
import os
import re
import shutil
import subprocess
import sys

VERIF = os.path.dirname(os.path.dirname(os.path.abspath(__file__)))
REPO = "/repo"


def sh(cmd, cwd=None, timeout=3600, env=None):
    p = subprocess.run(cmd, shell=True, cwd=cwd, stdout=subprocess.PIPE, stderr=subprocess.STDOUT, text=True, timeout=timeout, env=env)
    return p.returncode, p.stdout


def main():
    pid, k = sys.argv[1], sys.argv[2]
    tier = "quick"
    if "--tier" in sys.argv:
        tier = sys.argv[sys.argv.index("--tier") + 1]
    confirm = "--no-confirm" not in sys.argv
    extra_props = []
    if "--also" in sys.argv:
        extra_props = sys.argv[sys.argv.index("--also") + 1].split(",")
    wt = f"/tmp/seed/{pid}"
    src = f"{wt}/SEED/{k}"
    dst = os.path.join(VERIF, "seeded", f"{pid}-{k}")
    if os.path.isdir(src):
        os.makedirs(dst, exist_ok=True)
        keep = None
        if os.path.exists(os.path.join(dst, "meta.json")):
            keep = json.load(open(os.path.join(dst, "meta.json"))).get("verif")
        for fn in ("patch.diff", "demo.py", "meta.json"):
            shutil.copy(os.path.join(src, fn), os.path.join(dst, fn))
        if keep is not None:
            m0 = json.load(open(os.path.join(dst, "meta.json")))
            m0["verif"] = keep
            json.dump(m0, open(os.path.join(dst, "meta.json"), "w"), indent=1)
    patch = os.path.join(dst, "patch.diff")
    meta_p = os.path.join(dst, "meta.json")
    meta = json.load(open(meta_p))
    res = meta.get("verif", {})
    env = dict(os.environ, PYTHONPATH=wt)
    if confirm and os.path.isdir(wt):
        sh("git checkout -- aiohomekit", cwd=wt)
        rc, out = sh(f"git apply --check {patch}", cwd=wt)
        res["applies"] = rc == 0
        if rc != 0:
            print(f"SEED {pid}-{k}: patch does not apply: {out[-300:]}")
        else:
            sh(f"git apply {patch}", cwd=wt)
            rc, out = sh("/venv/bin/python -m pytest -q -p no:cacheprovider --timeout=900 tests", cwd=wt, env=env)
            m = re.search(r"(\d+) passed", out)
            failed = re.search(r"(\d+) (failed|error)", out)
            if failed or not m or int(m.group(1)) < 229:
                # other suites may be running concurrently on this machine (port collisions): try once more
                rc, out = sh("/venv/bin/python -m pytest -q -p no:cacheprovider --timeout=900 tests", cwd=wt, env=env)
                m = re.search(r"(\d+) passed", out)
                failed = re.search(r"(\d+) (failed|error)", out)
            res["tests"] = out.strip().splitlines()[-1] if out.strip() else ""
            res["tests_pass"] = bool(m) and int(m.group(1)) >= 229 and not failed
            rc, out = sh(f"/venv/bin/python {dst}/demo.py", cwd=wt, env=env, timeout=900)
            res["demo_with_change"] = next((ln for ln in out.splitlines() if ln.startswith("PROPERTY")), out.strip()[-200:])
            sh("git checkout -- aiohomekit", cwd=wt)
            rc, out = sh(f"/venv/bin/python {dst}/demo.py", cwd=wt, env=env, timeout=900)
            res["demo_clean"] = next((ln for ln in out.splitlines() if ln.startswith("PROPERTY")), out.strip()[-200:])
            sh("rm -f tests-pairing.json", cwd=wt)
        res["confirmed"] = bool(res.get("applies") and res.get("tests_pass") and str(res.get("demo_with_change", "")).startswith("PROPERTY BROKEN") and str(res.get("demo_clean", "")).startswith("PROPERTY HOLDS"))
    if "--confirm-only" in sys.argv:
        # the check itself is run by tools/sweep_seeds.py (parallel scratch copies)
        meta["verif"] = res
        json.dump(meta, open(meta_p, "w"), indent=1)
        print(f"SEED {pid}-{k}: confirmed={res.get('confirmed')} tests={res.get('tests')!r} with={str(res.get('demo_with_change'))[:60]!r} clean={str(res.get('demo_clean'))[:40]!r}")
        return 0
    # ---- run the checks against /repo with the change applied
    rc, out = sh("git status --porcelain --untracked-files=no", cwd=REPO)
    if out.strip():
        print("refusing: /repo has uncommitted changes:\n" + out)
        return 2
    rc, out = sh(f"git apply {patch}", cwd=REPO)
    if rc != 0:
        print(f"SEED {pid}-{k}: does not apply to /repo: {out[-300:]}")
        res["applies_repo"] = False
    else:
        try:
            checks = {}
            for p in [pid] + extra_props:
                rc, out = sh(f"./check {p} --tier {tier}", cwd=VERIF, timeout=7200)
                vio = [ln for ln in out.splitlines() if ln.startswith("VIOLATION")]
                details = [ln.strip() for ln in out.splitlines() if ln.strip().startswith(("violation:", "broken:"))][:4]
                checks[p] = {"exit": rc, "violation_line": vio[0] if vio else None, "details": [d[:300] for d in details], "summary": next((ln for ln in out.splitlines() if ln.startswith(p + " tier=")), "")}
            res.setdefault("checks", {})[tier] = checks
        finally:
            sh("git checkout -- .", cwd=REPO)
            # Gen files may have been regenerated from the modified tree
            sh("/venv/bin/python ../tools/translate.py", cwd=os.path.join(VERIF, "lean"))
    meta["verif"] = res
    json.dump(meta, open(meta_p, "w"), indent=1)
    c = res.get("checks", {}).get(tier, {}).get(pid, {})
    caught = c.get("exit") == 1 and c.get("violation_line")
    kind = "no-failing-input-found" if caught and "no-failing-input-found" in c["violation_line"] else ("failing-input" if caught else "MISSED")
    print(f"SEED {pid}-{k}: confirmed={res.get('confirmed')} check[{tier}]={kind} :: {meta.get('title', '')[:90]}")
    for d in c.get("details", [])[:2]:
        print("     " + d[:220])
    return 0


if __name__ == "__main__":
    sys.exit(main())
