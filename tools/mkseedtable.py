#!/usr/bin/env python3
"""Render the table of seeded changes (seeded/*/meta.json) into DESIGN.md at the SEEDTABLE marker or between the
<!-- seedtable --> markers."""
import glob
import json
import os
import re

VERIF = os.path.dirname(os.path.dirname(os.path.abspath(__file__)))
rows = []
for d in sorted(glob.glob(os.path.join(VERIF, "seeded", "*"))):
    mp = os.path.join(d, "meta.json")
    if not os.path.exists(mp):
        continue
    m = json.load(open(mp))
    v = m.get("verif", {})
    name = os.path.basename(d)
    pid = name.split("-")[0]
    outcome = []
    for tier, checks in sorted(v.get("checks", {}).items()):
        for p, c in checks.items():
            if c.get("exit") == 1 and c.get("violation_line"):
                kind = "no-failing-input-found" if "no-failing-input-found" in c["violation_line"] else "failing input"
                first = (c.get("details") or [""])[0]
                sig = ""
                mm = re.match(r"violation: ([^:]+):", first)
                if mm:
                    sig = mm.group(1)
                elif first.startswith("broken:"):
                    mm = re.search(r'"kind": "([a-z-]+)"', first)
                    sig = "tie: " + (mm.group(1) if mm else "broken")
                outcome.append(f"{p} ({tier}): {kind}" + (f" - `{sig}`" if sig else ""))
            else:
                outcome.append(f"{p} ({tier}): not reported")
    if v.get("superseded"):
        outcome = ["superseded: " + v["superseded"]]
    title = (m.get("title") or "").replace("|", "/")
    rows.append(f"| {name} | {title[:110]} | {'yes' if v.get('confirmed') else 'NO'} | " + "; ".join(outcome) + " |")
table = "<!-- seedtable -->\n| Seed | Change | Confirmed (tests pass, demo) | Outcome of the check(s) with the change applied |\n|---|---|---|---|\n" + "\n".join(rows) + "\n<!-- /seedtable -->"
p = os.path.join(VERIF, "DESIGN.md")
s = open(p).read()
if "SEEDTABLE" in s:
    s = s.replace("SEEDTABLE", table, 1)
else:
    s = re.sub(r"<!-- seedtable -->.*?<!-- /seedtable -->", lambda _: table, s, flags=re.S)
open(p, "w").write(s)
print(len(rows), "rows")
