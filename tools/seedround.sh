#!/bin/bash
# usage: tools/seedround.sh "7 8" C10 C19 ...   - confirm the listed agents' changes (sequentially per property, properties in
# parallel), then run the checks on them in parallel scratch copies
cd "$(dirname "$0")/.."
ks="$1"; shift
only=""
for p in "$@"; do
  ( for k in $ks; do python3 tools/seedcheck.py $p $k --confirm-only 2>&1 | grep '^SEED'; done ) &
  for k in $ks; do only="$only,$p-$k"; done
done
wait
python3 tools/sweep_seeds.py -j 8 --only "${only#,}" 2>&1 | grep -v '^$'
